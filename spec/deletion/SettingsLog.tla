----------------------------- MODULE SettingsLog -----------------------------
(***************************************************************************)
(* Property C15, second half: the set of deleted ids derived from the      *)
(* settings log only grows and is the same whether derived incrementally   *)
(* or from scratch, in whatever order and grouping deletion records        *)
(* (plain and snapshot) arrive.                                            *)
(*                                                                         *)
(* The settings log is a causal DAG of records.  Authors (replicas that    *)
(* hold the settings tree) append records on top of everything they know   *)
(* (settingsObject.DeleteObject -> changeFactory.CreateObjectDeleteChange: *)
(* the ids, and - for a snapshot record - all ids the author's state       *)
(* holds); authors exchange their records; an observer replica receives    *)
(* the records in arbitrary batches.  A batch attaches what is causally    *)
(* complete (objecttree.AddRawChanges); the rest is dropped and may come   *)
(* again.  settingsstate.Builder is specified by what it must compute:     *)
(*   Del(X) = union of the ids of the records in X  (snapshot contents     *)
(*            add nothing: SnapshotSound)                                  *)
(* inc is the incrementally maintained set (Update / Rebuild of the real   *)
(* builder refine  inc' = inc \cup Del(new)).                              *)
(* The harness replays every behaviour on real object trees with the real  *)
(* builder and change factory and compares after every delivery.           *)
(***************************************************************************)
EXTENDS Naturals, Sequences, FiniteSets, TLC

CONSTANTS Ids, Authors, MaxRec

VARIABLES recs,    \* sequence of records [au, ids, snap, prev, content]; record number = index
          known,   \* [Authors -> SUBSET record numbers]
          obs,     \* record numbers attached at the observer
          inc,     \* observer: incrementally derived deleted ids
          hist     \* the operations so far (emitted for the harness)

lvars == <<recs, known, obs, inc, hist>>
lview == <<recs, known, obs, inc>>

RecNos == 1..Len(recs)
Del(X) == UNION {recs[r].ids : r \in X}
Content(X) == UNION {recs[r].content : r \in X}      \* ids a builder reads from X (ids + snapshot lists)
HeadsOf(X) == {r \in X : ~\E q \in X : r \in recs[q].prev}
RECURSIVE Anc(_)
Anc(r) == recs[r].prev \cup UNION {Anc(p) : p \in recs[r].prev}
Closed(X) == \A r \in X : recs[r].prev \subseteq X

LInit ==
  /\ recs = <<>> /\ known = [a \in Authors |-> {}] /\ obs = {} /\ inc = {} /\ hist = <<>>

(* an author deletes the objects S (optionally writing a snapshot record) *)
Author(a, S, snap) ==
  /\ Len(recs) < MaxRec /\ S # {}
  /\ LET n == Len(recs) + 1
         r == [au |-> a, ids |-> S, snap |-> snap, prev |-> HeadsOf(known[a]),
               content |-> IF snap THEN Content(known[a]) \cup S ELSE S]
     IN /\ recs' = Append(recs, r)
        /\ known' = [known EXCEPT ![a] = @ \cup {n}]
        /\ hist' = Append(hist, [op |-> "author", a |-> a, from |-> "-", ids |-> S, snap |-> snap, batch |-> {}, prev |-> r.prev,
                                  att |-> known[a] \cup {n}, exp |-> Content(known[a]) \cup S])
  /\ UNCHANGED <<obs, inc>>

(* The sync protocol moves records in two kinds of messages:                   *)
(*  - the head update an author broadcast when it wrote record r (the record,  *)
(*    the author's heads and snapshot path at that moment); it may be delayed  *)
(*    arbitrarily and overtaken; it attaches iff the predecessors of r are     *)
(*    known, otherwise it is dropped (the receiver then asks for a full sync)  *)
(*  - a full-sync answer: everything the sender holds that the receiver lacks  *)
(*    (causally complete), with the sender's current heads and snapshot path   *)
(* author a receives a full-sync answer from author b *)
Sync(a, b) ==
  /\ a # b /\ ~(known[b] \subseteq known[a])
  /\ known' = [known EXCEPT ![a] = @ \cup known[b]]
  /\ hist' = Append(hist, [op |-> "sync", a |-> a, from |-> b, ids |-> {}, snap |-> FALSE, batch |-> known[b] \ known[a], prev |-> {},
                            att |-> known[a] \cup known[b], exp |-> Content(known[a] \cup known[b])])
  /\ UNCHANGED <<recs, obs, inc>>

(* author a receives the (possibly old) head update of record r *)
SyncOne(a, r) ==
  /\ r \in RecNos \ known[a]
  /\ LET A == IF recs[r].prev \subseteq known[a] THEN {r} ELSE {} IN
     /\ known' = [known EXCEPT ![a] = @ \cup A]
     /\ hist' = Append(hist, [op |-> "syncone", a |-> a, from |-> "-", ids |-> {}, snap |-> FALSE, batch |-> {r}, prev |-> {},
                               att |-> known[a] \cup A, exp |-> Content(known[a] \cup A)])
  /\ UNCHANGED <<recs, obs, inc>>

(* the observer receives the head update of record r *)
DeliverOne(r) ==
  /\ r \in RecNos \ obs
  /\ LET A == IF recs[r].prev \subseteq obs THEN {r} ELSE {} IN
     /\ obs' = obs \cup A
     /\ inc' = inc \cup Content(A)
     /\ hist' = Append(hist, [op |-> "deliverone", a |-> "-", from |-> "-", ids |-> {}, snap |-> FALSE, batch |-> {r}, prev |-> {},
                               att |-> obs \cup A, exp |-> inc \cup Content(A)])
  /\ UNCHANGED <<recs, known>>

(* the observer receives a full-sync answer from author b *)
DeliverFull(b) ==
  /\ ~(known[b] \subseteq obs)
  /\ LET A == known[b] \ obs IN
     /\ obs' = obs \cup A
     /\ inc' = inc \cup Content(A)
     /\ hist' = Append(hist, [op |-> "deliverfull", a |-> "-", from |-> b, ids |-> {}, snap |-> FALSE, batch |-> A, prev |-> {},
                               att |-> obs \cup A, exp |-> inc \cup Content(A)])
  /\ UNCHANGED <<recs, known>>

LNext ==
  \/ \E a \in Authors, S \in SUBSET Ids, snap \in BOOLEAN : Author(a, S, snap)
  \/ \E a, b \in Authors : Sync(a, b)
  \/ \E a \in Authors, r \in RecNos : SyncOne(a, r)
  \/ \E r \in RecNos : DeliverOne(r)
  \/ \E b \in Authors : DeliverFull(b)

LSpec == LInit /\ [][LNext]_lvars

(* ---------------------------------------------------------------------- *)
LTypeOK == obs \subseteq RecNos /\ inc \subseteq Ids /\ \A a \in Authors : known[a] \subseteq RecNos
(* a snapshot lists nothing but what its ancestors (and itself) delete *)
SnapshotSound == \A r \in RecNos : recs[r].content = Del(Anc(r) \cup {r}) \/ (~recs[r].snap /\ recs[r].content = recs[r].ids)
AuthorsClosed == \A a \in Authors : Closed(known[a])
ObserverClosed == Closed(obs)
(* incremental = from scratch = plain union, whatever the order / grouping *)
IncrementalEqualsScratch == inc = Del(obs) /\ inc = Content(obs)
StepGrowOnly == inc \subseteq inc'
DeletedIdsGrowOnly == [][StepGrowOnly]_lvars
(* delivery order does not matter: the result is a function of the attached set *)
Terminal == Len(recs) = MaxRec /\ obs = RecNos
=============================================================================
