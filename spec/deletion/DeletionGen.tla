----------------------------- MODULE DeletionGen -----------------------------
(* Schedule generation: random behaviours of Deletion (TLC -simulate) are      *)
(* written as JSON (the sequence of `last` records = action, id, set, result   *)
(* the specification predicts).  The harness executes them on a real space.    *)
EXTENDS DeletionMC, VerifEmit
CONSTANT GenLen
VARIABLE hist
ASSUME EmitReset
GenInit == Init /\ hist = <<>>
GenNext == Next /\ hist' = Append(hist, [a |-> last'.a, i |-> last'.i, r |-> last'.r, s |-> last'.s])
GenSpec == GenInit /\ [][GenNext]_<<vars, hist>>
GenBound == Len(hist) <= GenLen
Emit == EmitWhen(Len(hist) = GenLen, hist)
=============================================================================
