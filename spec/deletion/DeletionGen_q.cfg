INIT GenInit
NEXT GenNext
CONSTANTS
  Ids <- MCIds3
  Parent <- MCParent
  NoParent = "nil"
  MaxObs = 3
  GenLen = 28
  FIX_TombRecheck = TRUE
  M_NoFetchCheck = FALSE
  M_ReAdd = FALSE
  M_NoLateChild = FALSE
  M_NoOrphanScan = FALSE
  M_NoExists = FALSE
CONSTRAINT ObsBound
INVARIANT Emit
CHECK_DEADLOCK FALSE
