---------------------------- MODULE SettingsLogGen ----------------------------
EXTENDS SettingsLog, VerifEmit
ASSUME EmitReset
Emit == EmitWhen(Terminal, hist)
EmitSim == EmitWhen(Len(hist) >= 12 \/ Terminal, hist)
=============================================================================
