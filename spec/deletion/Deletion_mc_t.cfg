SPECIFICATION Spec
CONSTANTS
  Ids <- MCIds3
  Parent <- MCParent
  NoParent = "nil"
  MaxObs = 3
  FIX_TombRecheck = TRUE
  M_NoFetchCheck = FALSE
  M_ReAdd = FALSE
  M_NoLateChild = FALSE
  M_NoOrphanScan = FALSE
  M_NoExists = FALSE
CONSTRAINT ObsBound
INVARIANTS TypeOK DeletedHasNoStorage NotIndexedOnceDeleted ChildrenFollowDone MirrorSound LoggedTombstoned NoOverDelete LiveStored
PROPERTIES StatusMonotone NoStorageReappears AttemptsFail NeverReAdded ChildrenFollowLate SurvivesRestart DeletedIdsGrowOnly KidsHandled
CHECK_DEADLOCK FALSE
