INIT GInit
NEXT GNext
CONSTANTS
  GenRole = "node"
  GenActs <- Rs_Acts
  MaxSteps = 8
  DrainMax = 0
  Prelude = "holder"
  GenStreams = {2}
  UseCls = FALSE
  DrawStreams <- R_DrawStreams
  DrawSpaces <- R_DrawSpaces
  NStreams = 2
  StreamAcct <- R_StreamAcct
  StreamPeer <- R_StreamPeer
  NodePeers = {}
  Accounts = {"A", "B"}
  Spaces = {"X"}
  BadSpaces = {}
  NotResp = {}
  InitMember <- R_Member
  SubFrames <- Rh_SubFrames
  UnsubFrames <- Rs_Unsub
  Topics <- R_Topics
  MaxPerSpace = 100
  MaxPerStream = 100
  Burst <- NoLimit
  BroadcastDedup = TRUE
  FIX_PruneEmpty = TRUE
  FIX_Recheck = TRUE
  AllowLate = TRUE
  TrackEvicted = FALSE
  AtomicCheck = FALSE
  FlipAccounts = {"A", "B"}
  Self = "A"
  LocalPats = {}
  Msgs = {}
  OwnIds = {}
  RingSize = 1
INVARIANT Emit
CHECK_DEADLOCK FALSE
