SPECIFICATION NodeSpec
CONSTANTS
  NStreams = 2
  StreamAcct <- Nq_StreamAcct
  StreamPeer <- Nq_StreamPeer
  NodePeers = {}
  Accounts = {"A", "B"}
  Spaces = {"X"}
  BadSpaces = {}
  NotResp = {}
  InitMember <- Nq_Member
  SubFrames <- Nq_SubFrames
  UnsubFrames <- Nq_Unsub
  Topics <- Nq_Topics
  MaxPerSpace = 100
  MaxPerStream = 100
  Burst <- NoLimit
  BroadcastDedup = TRUE
  FIX_PruneEmpty = TRUE
  FIX_Recheck = FALSE
  AllowLate = TRUE
  TrackEvicted = TRUE
  AtomicCheck = FALSE
  FlipAccounts = {"A", "B"}
  Self = "A"
  LocalPats = {}
  Msgs = {}
  OwnIds = {}
  RingSize = 1
VIEW View
INVARIANT EvictedStayOut
CHECK_DEADLOCK FALSE
