INIT GInit
NEXT GNext
CONSTANTS
  GenRole = "node"
  GenActs <- G_AllNode
  MaxSteps = 30
  DrainMax = 16
  Prelude = "none"
  GenStreams = {1, 2, 3, 4}
  UseCls = TRUE
  DrawStreams <- G_DrawStreams
  DrawSpaces <- G_DrawSpaces
  NStreams = 4
  StreamAcct <- G_StreamAcct
  StreamPeer <- G_StreamPeer
  NodePeers = {"pN"}
  Accounts = {"A", "B"}
  Spaces = {"X", "Y", "Z", "bad/sp"}
  BadSpaces = {"bad/sp"}
  NotResp = {"Z"}
  InitMember <- G_Member
  SubFrames <- G_SubFrames
  UnsubFrames <- G_Unsub
  Topics <- G_Topics
  MaxPerSpace = 2
  MaxPerStream = 3
  Burst = 2
  BroadcastDedup = TRUE
  FIX_PruneEmpty = TRUE
  FIX_Recheck = TRUE
  AllowLate = TRUE
  TrackEvicted = FALSE
  AtomicCheck = FALSE
  FlipAccounts = {"A", "B"}
  Self = "A"
  LocalPats = {}
  Msgs = {}
  OwnIds = {}
  RingSize = 1
INVARIANT Emit
CHECK_DEADLOCK FALSE
