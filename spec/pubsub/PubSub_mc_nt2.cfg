SPECIFICATION NodeSpec
CONSTANTS
  NStreams = 2
  StreamAcct <- Nq_StreamAcct
  StreamPeer <- Nq_StreamPeer
  NodePeers = {}
  Accounts = {"A", "B"}
  Spaces = {"X", "Y"}
  BadSpaces = {}
  NotResp = {}
  InitMember <- Nt2_Member
  SubFrames <- Nt2_SubFrames
  UnsubFrames <- Nt2_Unsub
  Topics <- Nt2_Topics
  MaxPerSpace = 100
  MaxPerStream = 100
  Burst <- NoLimit
  BroadcastDedup = TRUE
  FIX_PruneEmpty = TRUE
  FIX_Recheck = TRUE
  AllowLate = TRUE
  TrackEvicted = FALSE
  AtomicCheck = FALSE
  FlipAccounts = {"A"}
  Self = "A"
  LocalPats = {}
  Msgs = {}
  OwnIds = {}
  RingSize = 1
VIEW View
INVARIANT NodeInv
PROPERTY PropDeliveryExact
PROPERTY PropAtMostOneCopy
PROPERTY PropRelayedNeverForwarded
CHECK_DEADLOCK FALSE
