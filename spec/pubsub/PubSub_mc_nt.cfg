SPECIFICATION NodeSpec
CONSTANTS
  NStreams = 3
  StreamAcct <- Nt_StreamAcct
  StreamPeer <- Nt_StreamPeer
  NodePeers = {}
  Accounts = {"A", "B"}
  Spaces = {"X"}
  BadSpaces = {}
  NotResp = {}
  InitMember <- Nt_Member
  SubFrames <- Nt_SubFrames
  UnsubFrames <- Nt_Unsub
  Topics <- Nt_Topics
  MaxPerSpace = 100
  MaxPerStream = 100
  Burst <- NoLimit
  BroadcastDedup = TRUE
  FIX_PruneEmpty = TRUE
  FIX_Recheck = TRUE
  AllowLate = TRUE
  TrackEvicted = FALSE
  AtomicCheck = TRUE
  FlipAccounts = {"B"}
  Self = "A"
  LocalPats = {}
  Msgs = {}
  OwnIds = {}
  RingSize = 1
VIEW View
INVARIANT NodeInv
PROPERTY PropDeliveryExact
PROPERTY PropAtMostOneCopy
PROPERTY PropRelayedNeverForwarded
CHECK_DEADLOCK FALSE
