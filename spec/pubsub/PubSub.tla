------------------------------- MODULE PubSub -------------------------------
(* Pub/sub engine of any-sync (commonspace/pubsub/service.go + the tag index of        *)
(* net/streampool/streampool.go), property C17.                                          *)
(*                                                                                       *)
(* Two halves of the same engine, selected by the next-state relation of a config:       *)
(*   NodeNext   - serving side (Deps.Relay set): the three views of remote interest      *)
(*                (trie refcounts, per-stream records, pool tags), membership, stream <->*)
(*                handshake identity, ingress of Publish frames, fan-out, relay.         *)
(*   ClientNext - receive side (Deps.Relay nil): local subscriptions, the cheap filters, *)
(*                signature check and the FIFO dedup ring of receivePublish.             *)
(*                                                                                       *)
(* One action per critical section of the implementation:                                *)
(*   handleSubscribe   = SubReject | SubCheck (validation, Membership.CheckMember - no   *)
(*                                             lock is held yet)                         *)
(*                                 ; Sub1 (remoteMu taken, interest recorded)            *)
(*                                 ; Sub2 (AddTagsCtx under pool.mu, rollback when the   *)
(*                                         stream vanished, remoteMu released)           *)
(*                                 ; Sub3 (second CheckMember, no lock held; a non-member*)
(*                                         is evicted again under remoteMu)              *)
(*   handleUnsubscribe = Unsub1 (interest withdrawn under remoteMu) ; Unsub2 (RemoveTagsCtx)*)
(*   stream close      = RemoveStream (pool.removeStream under pool.mu)                  *)
(*                     ; OnStreamClose (close hook, takes remoteMu)                      *)
(*   EvictMember / RevalidateMembers / CloseSpace : one remoteMu hold each               *)
(*   handlePublish     = Publish (validation, relayPublish gates, fanout = Match under   *)
(*                       remoteMu + Broadcast under pool.mu, forward to other nodes)     *)
(* Deliberate deviations: fanout's Match and Broadcast are one step (nothing of the      *)
(* property depends on the gap: Broadcast reads only the tag index); a stream handles at *)
(* most one more frame after it left the pool (its read loop ends at the next MsgRecv).  *)
EXTENDS Integers, Sequences, FiniteSets, TLC

CONSTANTS
    NStreams,       \* streams are 1..NStreams; the pool numbers them in opening order
    StreamAcct,     \* [1..NStreams -> account | "none"] handshake-proven identity ("none" = unverified inbound)
    StreamPeer,     \* [1..NStreams -> peer id]
    NodePeers,      \* peer ids that are responsible nodes of every space (relay partners)
    Accounts,       \* client accounts (strings, also usable as last segment of acc/ topics)
    Spaces,         \* space ids appearing in frames
    BadSpaces,      \* subset of Spaces: ids containing '/' (rejected by validateSpaceId)
    NotResp,        \* subset of Spaces: spaces this node is not responsible for
    InitMember,     \* initial membership: set of <<account, space>>
    SubFrames,      \* pattern lists a Subscribe frame may carry (valid, invalid, duplicates, empty)
    UnsubFrames,    \* pattern sets an Unsubscribe frame may carry ({} = all patterns of the space)
    Topics,         \* topics a Publish frame may carry (valid and invalid)
    MaxPerSpace,    \* Config.MaxPatternsPerSpace
    MaxPerStream,   \* Config.MaxPatternsPerStream
    Burst,          \* Config.PublishBurst (refill rate configured negligible); -1 = limiter not modelled (never exhausted)
    BroadcastDedup, \* TRUE: pool.Broadcast gives a stream matching several tags one copy (as-is)
    FIX_PruneEmpty, \* TRUE: handleSubscribe drops the records it created when nothing was accepted (repaired)
    FIX_Recheck,    \* TRUE: handleSubscribe asks the membership checker once more after it released remoteMu and
                    \* withdraws what it just registered when the account is no longer a member (repaired);
                    \* FALSE: as it was - the only check precedes the lock (refuted: EvictedStayOut)
    AllowLate,      \* TRUE: a stream may hand one more frame to the engine after it left the pool (bound of a configuration)
    FlipAccounts,   \* accounts whose membership changes during a run (bound of a configuration)
    TrackEvicted,   \* TRUE: keep the ghost `evicted` (only the configurations about EvictedStayOut need it)
    AtomicCheck,    \* TRUE: nothing is scheduled between a subscribe's membership check and its lock (bound of a
                    \* configuration; FALSE = as the code is: the check happens before remoteMu is taken)
    \* ---- client half
    Self,           \* the client's own account
    LocalPats,      \* <<space, pattern>> pairs the application may subscribe locally
    Msgs,           \* Publish frames that may arrive: [id, src, sig, ts, space, topic, idOk]
    OwnIds,         \* message ids produced by the client's own Publish calls
    RingSize        \* Config.DedupSize

Sids == 1..NStreams
Peers == {StreamPeer[s] : s \in Sids}
GoodSpaces == Spaces \ BadSpaces

(* ------------------------------ topics and patterns ------------------------------ *)
(* A topic / pattern is the sequence of its '/'-separated segments ("" = empty segment; *)
(* the empty string is <<"">>). Segments that contain a wildcard character:              *)
WildSegs == {"*", ">", "a*", ">b"}
ContainsWild(seg) == seg \in WildSegs

CanonicalForm(t) == Len(t) >= 1 /\ \A i \in 1..Len(t) : t[i] # ""
ValidTopic(t)    == CanonicalForm(t) /\ \A i \in 1..Len(t) : ~ContainsWild(t[i])
ValidPattern(p)  == CanonicalForm(p) /\ \A i \in 1..Len(p) :
                        \/ p[i] = "*"
                        \/ p[i] = ">" /\ i = Len(p)
                        \/ ~ContainsWild(p[i])

\* the matching rule of the statement: segment by segment, `*` one segment, trailing `>` one or more
Matches(p, t) ==
    IF p[Len(p)] = ">"
      THEN Len(t) >= Len(p) /\ \A i \in 1..(Len(p) - 1) : p[i] = "*" \/ p[i] = t[i]
      ELSE Len(t) = Len(p) /\ \A i \in 1..Len(p) : p[i] = "*" \/ p[i] = t[i]

\* self-owned namespace acc/.../<account>: the owner is the last segment
Owner(t) == IF Len(t) >= 2 /\ t[1] = "acc" THEN t[Len(t)] ELSE ""

FramePats(f) == {f[i] : i \in 1..Len(f)}
PatU == {p \in UNION {FramePats(f) : f \in SubFrames} : ValidPattern(p)}    \* patterns that can enter a trie

VARIABLES
    \* ---- pool (net/streampool)
    st,         \* [Sids -> "new" | "open" | "removed" | "gone"]; removed = out of the pool, close hook pending
    tags,       \* [Sids -> SUBSET (Spaces \X PatU)] : interest tags of the stream in the pool   (view 3)
    \* ---- engine, under remoteMu
    hasRec,     \* [Sids -> BOOLEAN]           s.streams[sid] exists
    recSp,      \* [Sids -> SUBSET Spaces]     keys of s.streams[sid].bySpace
    recPat,     \* [Sids -> SUBSET (Spaces \X PatU)]  patterns recorded for the stream          (view 2)
    total,      \* [Sids -> Nat]               s.streams[sid].total
    remoteDom,  \* SUBSET Spaces               keys of s.remote
    refs,       \* [GoodSpaces -> [PatU -> Nat]]  trie refcounts                                (view 1)
    member,     \* set of <<account, space>>   what Deps.Membership answers
    pend,       \* the handleSubscribe that holds remoteMu between Sub1 and Sub2 (NoPend = remoteMu free)
    busy,       \* [Sids -> "idle" | "check" | "sub" | "recheck" | "unsub"]  frame the stream's read loop is handling
    chk,        \* [Sids -> the subscribe that passed its checks and has not taken remoteMu yet]
    rchk,       \* [Sids -> the subscribe that registered interest and has not re-checked membership yet]
    pendU,      \* [Sids -> tags]  tags a handleUnsubscribe still has to remove from the pool
    late,       \* [Sids -> BOOLEAN] the one frame handled after the stream left the pool was used
    tokens,     \* [Peers -> 0..Burst] publish rate limiter
    want,       \* ghost: [Sids -> tags] subscriptions accepted and not withdrawn / evicted / closed
    evicted,    \* ghost: <<account, space>> pairs evicted as non-members and not re-admitted since
    \* ---- client half
    lpats,      \* set of <<space, pattern>> with a local handler
    ring,       \* Seq of message ids: the dedup ring, oldest first
    hid,        \* ghost: ids of messages that reached a handler
    \* ---- outputs of the last step (history variable; hidden by VIEW in exhaustive runs)
    out

nodeVars   == <<st, tags, hasRec, recSp, recPat, total, remoteDom, refs, pend, busy, chk, rchk, pendU, late, tokens, want, evicted>>
clientVars == <<lpats, ring, hid>>
vars       == <<nodeVars, member, clientVars, out>>
View       == <<nodeVars, member, clientVars>>

NoPend == [s |-> 0, sp |-> "", f |-> <<>>, acc |-> <<>>, rej |-> <<>>]
NoChk  == [sp |-> "", f |-> <<>>]
NoRchk == [sp |-> "", f |-> <<>>, rej |-> <<>>]
NoDeliver == [x \in Sids |-> 0]
NoMsg == [id |-> 0, src |-> "", sig |-> FALSE, ts |-> "", space |-> "", topic |-> <<>>, idOk |-> FALSE]
\* arguments of a Publish step (s = 0: none) / the frame of a Receive step, kept with the outputs for the step properties
NoPub == [s |-> 0, claimed |-> "", sp |-> "", t |-> <<>>, relayed |-> FALSE, idOk |-> FALSE]
NoOut == [kind |-> "none", code |-> "", to |-> 0, topics |-> <<>>, deliver |-> NoDeliver, fwd |-> {}, handled |-> {},
          pub |-> NoPub, m |-> NoMsg]
StatusOut(to, code, topics) == [NoOut EXCEPT !.kind = "status", !.to = to, !.code = code, !.topics = topics]

Init ==
    /\ st = [s \in Sids |-> "new"] /\ tags = [s \in Sids |-> {}]
    /\ hasRec = [s \in Sids |-> FALSE] /\ recSp = [s \in Sids |-> {}] /\ recPat = [s \in Sids |-> {}]
    /\ total = [s \in Sids |-> 0] /\ remoteDom = {}
    /\ refs = [sp \in GoodSpaces |-> [p \in PatU |-> 0]]
    /\ member = InitMember
    /\ pend = NoPend /\ busy = [s \in Sids |-> "idle"] /\ pendU = [s \in Sids |-> {}]
    /\ chk = [s \in Sids |-> NoChk] /\ rchk = [s \in Sids |-> NoRchk] /\ evicted = {}
    /\ late = [s \in Sids |-> FALSE]
    /\ tokens = [p \in Peers |-> Burst]
    /\ want = [s \in Sids |-> {}]
    /\ lpats = {} /\ ring = <<>> /\ hid = {}
    /\ out = NoOut

(* ----------------------------------- helpers ----------------------------------- *)
Tag(sp, P)     == {<<sp, p>> : p \in P}
OfSpace(T, sp) == {x \in T : x[1] = sp}
PatsOf(T, sp)  == {x[2] : x \in OfSpace(T, sp)}
SeqSet(q)      == {q[i] : i \in 1..Len(q)}
MinOf(S)       == CHOOSE x \in S : \A y \in S : x <= y

MuFree == pend = NoPend
\* bound AtomicCheck: while a subscribe sits between its check and its lock nothing else is scheduled
NoCheckGap == ~AtomicCheck \/ \A s \in Sids : busy[s] # "check"
\* the read loop of s may hand one more frame to the engine
MayHandle(s) == NoCheckGap /\ busy[s] = "idle" /\ (st[s] = "open" \/ (AllowLate /\ st[s] \in {"removed", "gone"} /\ ~late[s]))
LateAfter(s) == [late EXCEPT ![s] = @ \/ st[s] # "open"]
\* pool.SendById(peer): the first (oldest) stream of the peer that is still in the pool; 0 = none
FirstStream(peer) == LET c == {x \in Sids : st[x] = "open" /\ StreamPeer[x] = peer}
                     IN IF c = {} THEN 0 ELSE MinOf(c)

TrieLenZero(r, sp) == \A p \in PatU : r[sp][p] = 0
PruneSpace(r, dom, sp) == IF sp \in dom /\ TrieLenZero(r, sp) THEN dom \ {sp} ELSE dom
\* trie.Remove of one reference for every pattern of P (a missing pattern is ignored)
DecRefs(r, sp, P) == [r EXCEPT ![sp] = [p \in PatU |-> IF p \in P /\ r[sp][p] > 0 THEN r[sp][p] - 1 ELSE r[sp][p]]]

(* --------------------------------- pool: streams --------------------------------- *)
OpenStream(s) ==
    /\ NoCheckGap /\ st[s] = "new" /\ \A x \in Sids : x < s => st[x] # "new"
    /\ st' = [st EXCEPT ![s] = "open"]
    /\ out' = NoOut
    /\ UNCHANGED <<tags, hasRec, recSp, recPat, total, remoteDom, refs, member, pend, busy, chk, rchk, pendU, late, tokens, want, evicted, clientVars>>

\* pool.removeStream under pool.mu (read error, write error or queue overflow): ids and tags leave the index
RemoveStream(s) ==
    /\ NoCheckGap /\ st[s] = "open"
    /\ st' = [st EXCEPT ![s] = "removed"]
    /\ tags' = [tags EXCEPT ![s] = {}]
    /\ want' = [want EXCEPT ![s] = {}]
    /\ out' = NoOut
    /\ UNCHANGED <<hasRec, recSp, recPat, total, remoteDom, refs, member, pend, busy, chk, rchk, pendU, late, tokens, evicted, clientVars>>

\* the close hook: withdraw exactly the closed stream's recorded interest
OnStreamClose(s) ==
    /\ NoCheckGap /\ st[s] = "removed" /\ MuFree
    /\ st' = [st EXCEPT ![s] = "gone"]
    /\ LET sps == IF hasRec[s] THEN recSp[s] \cap remoteDom ELSE {}
           r2  == [sp \in GoodSpaces |-> IF sp \in sps THEN DecRefs(refs, sp, PatsOf(recPat[s], sp))[sp] ELSE refs[sp]]
       IN /\ refs' = r2
          /\ remoteDom' = {sp \in remoteDom : ~(sp \in sps /\ TrieLenZero(r2, sp))}
    /\ hasRec' = [hasRec EXCEPT ![s] = FALSE] /\ recSp' = [recSp EXCEPT ![s] = {}]
    /\ recPat' = [recPat EXCEPT ![s] = {}] /\ total' = [total EXCEPT ![s] = 0]
    /\ out' = NoOut
    /\ UNCHANGED <<tags, member, pend, busy, chk, rchk, pendU, late, tokens, want, evicted, clientVars>>

(* ------------------------------- handleSubscribe ------------------------------- *)
SubCode(s, sp, f) ==
    IF StreamAcct[s] = "none" THEN "InvalidMessage"
    ELSE IF sp \in BadSpaces THEN "InvalidTopic"
    ELSE IF sp \in NotResp THEN "NotResponsible"
    ELSE IF \E i \in 1..Len(f) : ~ValidPattern(f[i]) THEN "InvalidTopic"
    ELSE IF <<StreamAcct[s], sp>> \notin member THEN "NotAMember"
    ELSE "ok"

SubReject(s, sp, f) ==
    /\ MayHandle(s) /\ SubCode(s, sp, f) # "ok"
    /\ late' = LateAfter(s)
    /\ out' = StatusOut(FirstStream(StreamPeer[s]), SubCode(s, sp, f), f)
    /\ UNCHANGED <<st, tags, hasRec, recSp, recPat, total, remoteDom, refs, member, pend, busy, chk, rchk, pendU, tokens, want, evicted, clientVars>>

\* the accept loop: duplicates skipped; at a cap this pattern and every remaining one are rejected
RECURSIVE AcceptLoop(_, _, _, _, _)
AcceptLoop(f, i, cur, tot, acc) ==
    IF i > Len(f) THEN [acc |-> acc, rej |-> <<>>]
    ELSE IF f[i] \in cur THEN AcceptLoop(f, i + 1, cur, tot, acc)
    ELSE IF Cardinality(cur) >= MaxPerSpace \/ tot >= MaxPerStream THEN [acc |-> acc, rej |-> SubSeq(f, i, Len(f))]
    ELSE AcceptLoop(f, i + 1, cur \cup {f[i]}, tot + 1, Append(acc, f[i]))

\* validation and the membership answer; no lock is held: anything may run before the subscribe goes on
SubCheck(s, sp, f) ==
    /\ MayHandle(s) /\ (AtomicCheck => MuFree) /\ SubCode(s, sp, f) = "ok"
    /\ busy' = [busy EXCEPT ![s] = "check"]
    /\ chk' = [chk EXCEPT ![s] = [sp |-> sp, f |-> f]]
    /\ late' = LateAfter(s)
    /\ out' = NoOut
    /\ UNCHANGED <<st, tags, hasRec, recSp, recPat, total, remoteDom, refs, member, pend, rchk, pendU, tokens, want, evicted, clientVars>>

\* remoteMu taken; space trie, stream record and bySpace entry created on demand; interest recorded
Sub1(s) ==
    /\ busy[s] = "check" /\ MuFree
    /\ LET sp == chk[s].sp
           f == chk[s].f
           r == AcceptLoop(f, 1, PatsOf(recPat[s], sp), total[s], <<>>)
           A == SeqSet(r.acc)
       IN /\ remoteDom' = remoteDom \cup {sp}
          /\ hasRec' = [hasRec EXCEPT ![s] = TRUE]
          /\ recSp' = [recSp EXCEPT ![s] = @ \cup {sp}]
          /\ recPat' = [recPat EXCEPT ![s] = @ \cup Tag(sp, A)]
          /\ total' = [total EXCEPT ![s] = @ + Cardinality(A)]
          /\ refs' = [refs EXCEPT ![sp] = [p \in PatU |-> IF p \in A THEN refs[sp][p] + 1 ELSE refs[sp][p]]]
          /\ pend' = [s |-> s, sp |-> sp, f |-> f, acc |-> r.acc, rej |-> r.rej]
    /\ busy' = [busy EXCEPT ![s] = "sub"]
    /\ chk' = [chk EXCEPT ![s] = NoChk]
    /\ out' = NoOut
    /\ UNCHANGED <<st, tags, member, rchk, pendU, late, tokens, want, evicted, clientVars>>

\* AddTagsCtx under pool.mu; when the stream is no longer in the pool the interest is rolled back;
\* remoteMu released; the rejected tail is reported
Sub2 ==
    /\ NoCheckGap /\ pend # NoPend
    /\ LET s == pend.s
           sp == pend.sp
           A == SeqSet(pend.acc)
           rest == PatsOf(recPat[s], sp) \ A
           tot2 == total[s] - Cardinality(A)
           r2 == DecRefs(refs, sp, A)
       IN
       IF A # {} /\ st[s] = "open" THEN
            /\ tags' = [tags EXCEPT ![s] = @ \cup Tag(sp, A)]
            /\ want' = [want EXCEPT ![s] = @ \cup Tag(sp, A)]
            /\ UNCHANGED <<hasRec, recSp, recPat, total, remoteDom, refs>>
       ELSE IF A # {} THEN          \* stream vanished: removeStreamPattern for every accepted one, prune
            /\ recPat' = [recPat EXCEPT ![s] = @ \ Tag(sp, A)]
            /\ total' = [total EXCEPT ![s] = tot2]
            /\ hasRec' = [hasRec EXCEPT ![s] = tot2 # 0]
            /\ recSp' = [recSp EXCEPT ![s] = IF tot2 = 0 THEN {} ELSE IF rest = {} THEN @ \ {sp} ELSE @]
            /\ refs' = r2
            /\ remoteDom' = PruneSpace(r2, remoteDom, sp)
            /\ UNCHANGED <<tags, want>>
       ELSE IF FIX_PruneEmpty THEN  \* nothing accepted: drop what Sub1 created (repaired behaviour)
            /\ hasRec' = [hasRec EXCEPT ![s] = total[s] # 0]
            /\ recSp' = [recSp EXCEPT ![s] = IF total[s] = 0 THEN {} ELSE IF PatsOf(recPat[s], sp) = {} THEN @ \ {sp} ELSE @]
            /\ remoteDom' = PruneSpace(refs, remoteDom, sp)
            /\ UNCHANGED <<tags, want, recPat, total, refs>>
       ELSE                         \* nothing accepted: as-is the empty records stay
            UNCHANGED <<tags, want, hasRec, recSp, recPat, total, remoteDom, refs>>
    /\ LET again == FIX_Recheck /\ pend.acc # <<>> /\ st[pend.s] = "open"     \* tagged: the membership is checked once more
       IN /\ out' = IF ~again /\ pend.rej # <<>> THEN StatusOut(FirstStream(StreamPeer[pend.s]), "TooManyTopics", pend.rej) ELSE NoOut
          /\ busy' = [busy EXCEPT ![pend.s] = IF again THEN "recheck" ELSE "idle"]
          /\ rchk' = [rchk EXCEPT ![pend.s] = IF again THEN [sp |-> pend.sp, f |-> pend.f, rej |-> pend.rej] ELSE NoRchk]
    /\ pend' = NoPend
    /\ UNCHANGED <<st, member, chk, pendU, late, tokens, evicted, clientVars>>

(* ------------------------------ handleUnsubscribe ------------------------------ *)
Unsub1(s, sp, P) ==
    /\ MayHandle(s) /\ MuFree
    /\ late' = LateAfter(s)
    /\ out' = NoOut
    /\ IF ~hasRec[s] \/ sp \notin remoteDom THEN
            UNCHANGED <<hasRec, recSp, recPat, total, remoteDom, refs, busy, pendU, want>>
       ELSE LET have == PatsOf(recPat[s], sp)
                R == IF P = {} THEN have ELSE P \cap have
                tot2 == total[s] - Cardinality(R)
                r2 == DecRefs(refs, sp, R)
            IN /\ recPat' = [recPat EXCEPT ![s] = @ \ Tag(sp, R)]
               /\ total' = [total EXCEPT ![s] = tot2]
               /\ hasRec' = [hasRec EXCEPT ![s] = tot2 # 0]            \* pruneStream
               /\ recSp' = [recSp EXCEPT ![s] = IF tot2 = 0 THEN {} ELSE IF R # {} /\ have \ R = {} THEN @ \ {sp} ELSE @]
               /\ refs' = r2
               /\ remoteDom' = PruneSpace(r2, remoteDom, sp)
               /\ want' = [want EXCEPT ![s] = @ \ Tag(sp, R)]
               /\ busy' = [busy EXCEPT ![s] = IF R # {} THEN "unsub" ELSE "idle"]
               /\ pendU' = [pendU EXCEPT ![s] = Tag(sp, R)]
    /\ UNCHANGED <<st, tags, member, pend, chk, rchk, tokens, evicted, clientVars>>

\* RemoveTagsCtx outside remoteMu ("stream not found" is only logged)
Unsub2(s) ==
    /\ NoCheckGap /\ busy[s] = "unsub"
    /\ tags' = [tags EXCEPT ![s] = IF st[s] = "open" THEN @ \ pendU[s] ELSE @]
    /\ busy' = [busy EXCEPT ![s] = "idle"]
    /\ pendU' = [pendU EXCEPT ![s] = {}]
    /\ out' = NoOut
    /\ UNCHANGED <<st, hasRec, recSp, recPat, total, remoteDom, refs, member, pend, chk, rchk, late, tokens, want, evicted, clientVars>>

(* ------------------- evictSpaceStreams / CloseSpace (one remoteMu hold) ------------------- *)
\* drop the space interest of every stream of S: record, tags (RemoveTagsById ignores missing streams)
DropSpaceOf(S, sp) ==
    /\ recPat' = [x \in Sids |-> IF x \in S THEN recPat[x] \ OfSpace(recPat[x], sp) ELSE recPat[x]]
    /\ total' = [x \in Sids |-> IF x \in S THEN total[x] - Cardinality(OfSpace(recPat[x], sp)) ELSE total[x]]
    /\ hasRec' = [x \in Sids |-> IF x \in S THEN total[x] - Cardinality(OfSpace(recPat[x], sp)) # 0 ELSE hasRec[x]]
    /\ recSp' = [x \in Sids |-> IF x \in S
                                 THEN (IF total[x] - Cardinality(OfSpace(recPat[x], sp)) = 0 THEN {} ELSE recSp[x] \ {sp})
                                 ELSE recSp[x]]
    /\ tags' = [x \in Sids |-> IF x \in S THEN tags[x] \ OfSpace(recPat[x], sp) ELSE tags[x]]

EvictWhere(sp, cond(_), gone) ==
    /\ NoCheckGap /\ MuFree
    /\ evicted' = IF TrackEvicted THEN evicted \cup gone ELSE evicted
    /\ LET S == {x \in Sids : PatsOf(recPat[x], sp) # {} /\ cond(x)}
           r2 == IF sp \in remoteDom /\ sp \in GoodSpaces
                   THEN [refs EXCEPT ![sp] = [p \in PatU |->
                            LET n == Cardinality({x \in S : <<sp, p>> \in recPat[x]})
                            IN IF refs[sp][p] >= n THEN refs[sp][p] - n ELSE 0]]
                   ELSE refs
       IN /\ DropSpaceOf(S, sp)
          /\ refs' = r2
          /\ remoteDom' = IF sp \in GoodSpaces THEN PruneSpace(r2, remoteDom, sp) ELSE remoteDom
          /\ want' = [x \in Sids |-> IF cond(x) THEN want[x] \ OfSpace(want[x], sp) ELSE want[x]]
    /\ out' = NoOut
    /\ UNCHANGED <<st, member, pend, busy, chk, rchk, pendU, late, tokens, clientVars>>

\* (ghost) an account counts as evicted from the space when the eviction finds it outside the member list
EvictMember(sp, a) == EvictWhere(sp, LAMBDA x : StreamAcct[x] = a, IF <<a, sp>> \in member THEN {} ELSE {<<a, sp>>})
Revalidate(sp)     == EvictWhere(sp, LAMBDA x : <<StreamAcct[x], sp>> \notin member,
                                 {<<StreamAcct[x], sp>> : x \in {y \in Sids : StreamAcct[y] # "none" /\ <<StreamAcct[y], sp>> \notin member}})

\* the second membership check of a subscribe (repaired behaviour), after remoteMu was released: a member goes on
\* (and reports the rejected tail); for a non-member everything the stream holds in the space is evicted again
Sub3(s) ==
    /\ NoCheckGap /\ busy[s] = "recheck"
    /\ LET sp == rchk[s].sp
           ok == <<StreamAcct[s], sp>> \in member
       IN IF ok THEN
               /\ out' = IF rchk[s].rej # <<>> THEN StatusOut(FirstStream(StreamPeer[s]), "TooManyTopics", rchk[s].rej) ELSE NoOut
               /\ UNCHANGED <<tags, hasRec, recSp, recPat, total, remoteDom, refs, want>>
          ELSE /\ MuFree
               /\ LET S == IF PatsOf(recPat[s], sp) # {} THEN {s} ELSE {}
                      r2 == IF sp \in remoteDom THEN DecRefs(refs, sp, PatsOf(recPat[s], sp)) ELSE refs
                  IN /\ DropSpaceOf(S, sp)
                     /\ refs' = r2
                     /\ remoteDom' = PruneSpace(r2, remoteDom, sp)
               /\ want' = [want EXCEPT ![s] = @ \ OfSpace(@, sp)]
               /\ out' = StatusOut(FirstStream(StreamPeer[s]), "NotAMember", rchk[s].f)
    /\ busy' = [busy EXCEPT ![s] = "idle"]
    /\ rchk' = [rchk EXCEPT ![s] = NoRchk]
    /\ UNCHANGED <<st, member, pend, chk, pendU, late, tokens, evicted, clientVars>>

CloseSpace(sp) ==
    /\ NoCheckGap /\ MuFree
    /\ DropSpaceOf({x \in Sids : PatsOf(recPat[x], sp) # {}}, sp)
    /\ remoteDom' = remoteDom \ {sp}
    /\ refs' = IF sp \in GoodSpaces THEN [refs EXCEPT ![sp] = [p \in PatU |-> 0]] ELSE refs
    /\ want' = [x \in Sids |-> want[x] \ OfSpace(want[x], sp)]
    /\ lpats' = lpats \ OfSpace(lpats, sp)          \* client side of CloseSpace
    /\ out' = NoOut
    /\ UNCHANGED <<st, member, pend, busy, chk, rchk, pendU, late, tokens, evicted, ring, hid>>

AddMember(a, sp) ==
    /\ NoCheckGap /\ <<a, sp>> \notin member /\ member' = member \cup {<<a, sp>>}
    /\ evicted' = evicted \ {<<a, sp>>}
    /\ out' = NoOut
    /\ UNCHANGED <<st, tags, hasRec, recSp, recPat, total, remoteDom, refs, pend, busy, chk, rchk, pendU, late, tokens, want, clientVars>>
RemoveMember(a, sp) ==
    /\ NoCheckGap /\ <<a, sp>> \in member /\ member' = member \ {<<a, sp>>}
    /\ out' = NoOut /\ UNCHANGED <<nodeVars, clientVars>>

(* ------------------------- handlePublish on a node (relayPublish) ------------------------- *)
PubCode(s, claimed, sp, t, relayed, idOk) ==
    IF ~idOk THEN "InvalidMessage"
    ELSE IF ~ValidTopic(t) THEN "InvalidTopic"
    ELSE IF sp \in NotResp THEN "NotResponsible"
    ELSE IF relayed THEN (IF StreamPeer[s] \in NodePeers THEN "relayed-fanout" ELSE "relayed-drop")
    ELSE IF StreamAcct[s] = "none" \/ claimed = "none" \/ claimed # StreamAcct[s] THEN "InvalidMessage"
    ELSE IF <<StreamAcct[s], sp>> \notin member THEN "NotAMember"
    ELSE IF Owner(t) # "" /\ Owner(t) # StreamAcct[s] THEN "TopicNotOwned"
    ELSE IF Burst >= 0 /\ tokens[StreamPeer[s]] = 0 THEN "RateLimited"
    ELSE "fanout"

\* fanout: trie.Match under remoteMu, then pool.Broadcast over the tags of the matched patterns
MatchedPats(sp, t) == IF sp \in remoteDom /\ sp \in GoodSpaces
                        THEN {p \in PatU : refs[sp][p] > 0 /\ Matches(p, t)} ELSE {}
Copies(x, sp, t) ==
    IF st[x] # "open" THEN 0
    ELSE LET n == Cardinality(tags[x] \cap Tag(sp, MatchedPats(sp, t)))
         IN IF BroadcastDedup /\ n > 1 THEN 1 ELSE n

Publish(s, claimed, sp, t, relayed, idOk) ==
    /\ MayHandle(s)
    /\ LET code == PubCode(s, claimed, sp, t, relayed, idOk)
           fan == code \in {"fanout", "relayed-fanout"}
       IN /\ fan => MuFree
          /\ tokens' = IF code = "fanout" /\ Burst >= 0 THEN [tokens EXCEPT ![StreamPeer[s]] = @ - 1] ELSE tokens
          /\ out' = [kind |-> "publish", code |-> code,
                     to |-> IF fan \/ code = "relayed-drop" THEN 0 ELSE FirstStream(StreamPeer[s]),
                     topics |-> <<t>>,
                     deliver |-> [x \in Sids |-> IF fan THEN Copies(x, sp, t) ELSE 0],
                     \* forward once to the other responsible nodes: first pooled stream of each
                     fwd |-> IF code = "fanout" THEN {FirstStream(n) : n \in NodePeers} \ {0} ELSE {},
                     handled |-> {}, m |-> NoMsg,
                     pub |-> [s |-> s, claimed |-> claimed, sp |-> sp, t |-> t, relayed |-> relayed, idOk |-> idOk]]
    /\ late' = LateAfter(s)
    /\ UNCHANGED <<st, tags, hasRec, recSp, recPat, total, remoteDom, refs, member, pend, busy, chk, rchk, pendU, want, evicted, clientVars>>

(* --------------------------------- client half --------------------------------- *)
LSubscribe(sp, p) ==        \* Service.Subscribe: invalid patterns are refused
    /\ <<sp, p>> \in LocalPats /\ <<sp, p>> \notin lpats
    /\ lpats' = IF ValidPattern(p) THEN lpats \cup {<<sp, p>>} ELSE lpats
    /\ out' = [NoOut EXCEPT !.kind = "lsub", !.code = IF ValidPattern(p) THEN "ok" ELSE "InvalidTopic"]
    /\ UNCHANGED <<nodeVars, member, ring, hid>>
LUnsubscribe(sp, p) ==
    /\ <<sp, p>> \in lpats /\ lpats' = lpats \ {<<sp, p>>}
    /\ out' = NoOut /\ UNCHANGED <<nodeVars, member, ring, hid>>

Push(r, id) == IF Len(r) < RingSize THEN Append(r, id) ELSE Append(Tail(r), id)
Stale(m) == m.ts \in {"past", "future"}
LocalMatch(sp, t) == {p \in PatsOf(lpats, sp) : Matches(p, t)}

\* handlePublish + receivePublish: cheap filters, then the signature, then dedup
RecvCode(m) ==
    IF ~m.idOk THEN "InvalidMessage"
    ELSE IF ~ValidTopic(m.topic) THEN "InvalidTopic"
    ELSE IF LocalMatch(m.space, m.topic) = {} THEN "no-interest"
    ELSE IF m.src = "garbage" THEN "bad-identity"
    ELSE IF <<m.src, m.space>> \notin member THEN "non-member"
    ELSE IF Owner(m.topic) # "" /\ Owner(m.topic) # m.src THEN "not-owner"
    ELSE IF Stale(m) THEN "stale"
    ELSE IF ~m.sig THEN "bad-signature"
    ELSE IF m.id \in SeqSet(ring) THEN "duplicate"
    ELSE "handled"

Receive(m) ==
    /\ m.id \in OwnIds => m.id \in hid          \* ids of own publishes are unguessable before they exist
    /\ LET code == RecvCode(m) IN
       /\ ring' = IF code = "handled" THEN Push(ring, m.id) ELSE ring
       /\ hid' = IF code = "handled" THEN hid \cup {m.id} ELSE hid
       /\ out' = [NoOut EXCEPT !.kind = "recv", !.code = code, !.m = m,
                               !.handled = IF code = "handled" THEN LocalMatch(m.space, m.topic) ELSE {}]
    /\ UNCHANGED <<nodeVars, member, lpats>>

\* Service.Publish of the client itself: own id recorded in the ring, local handlers served
LPublish(m) ==
    /\ m.id \in OwnIds /\ m.id \notin hid /\ m.src = Self /\ m.sig /\ m.ts = "fresh" /\ m.idOk
    /\ LET ok == ValidTopic(m.topic) /\ (Owner(m.topic) = "" \/ Owner(m.topic) = Self) IN
       /\ ring' = IF ok THEN Push(ring, m.id) ELSE ring
       /\ hid' = IF ok THEN hid \cup {m.id} ELSE hid
       /\ out' = [NoOut EXCEPT !.kind = "lpub", !.m = m, !.code = IF ok THEN "ok" ELSE "error",
                               !.handled = IF ok THEN LocalMatch(m.space, m.topic) ELSE {}]
    /\ UNCHANGED <<nodeVars, member, lpats>>

(* ------------------------------- next-state relations ------------------------------- *)
Bools == {TRUE, FALSE}
NodeNext ==
    \/ \E s \in Sids : OpenStream(s)
    \/ \E s \in Sids : RemoveStream(s)
    \/ \E s \in Sids : OnStreamClose(s)
    \/ \E s \in Sids, sp \in Spaces, f \in SubFrames : SubReject(s, sp, f)
    \/ \E s \in Sids, sp \in Spaces, f \in SubFrames : SubCheck(s, sp, f)
    \/ \E s \in Sids : Sub1(s)
    \/ Sub2
    \/ \E s \in Sids : Sub3(s)
    \/ \E s \in Sids, sp \in GoodSpaces, P \in UnsubFrames : Unsub1(s, sp, P)
    \/ \E s \in Sids : Unsub2(s)
    \/ \E sp \in GoodSpaces, a \in Accounts : EvictMember(sp, a)
    \/ \E sp \in GoodSpaces : Revalidate(sp)
    \/ \E sp \in GoodSpaces : CloseSpace(sp)
    \/ \E a \in FlipAccounts, sp \in GoodSpaces : AddMember(a, sp)
    \/ \E a \in FlipAccounts, sp \in GoodSpaces : RemoveMember(a, sp)
    \/ \E s \in Sids, c \in Accounts \cup {"none"}, sp \in Spaces, t \in Topics, r \in Bools, k \in Bools :
            Publish(s, c, sp, t, r, k)

ClientNext ==
    \/ \E x \in LocalPats : LSubscribe(x[1], x[2])
    \/ \E x \in LocalPats : LUnsubscribe(x[1], x[2])
    \/ \E sp \in GoodSpaces : CloseSpace(sp)
    \/ \E a \in FlipAccounts, sp \in GoodSpaces : AddMember(a, sp)
    \/ \E a \in FlipAccounts, sp \in GoodSpaces : RemoveMember(a, sp)
    \/ \E m \in Msgs : Receive(m)
    \/ \E m \in Msgs : LPublish(m)

Next == NodeNext \/ ClientNext
Spec == Init /\ [][Next]_vars
NodeSpec == Init /\ [][NodeNext]_vars
ClientSpec == Init /\ [][ClientNext]_vars

(* ===================================== properties ===================================== *)
TypeOK ==
    /\ st \in [Sids -> {"new", "open", "removed", "gone"}]
    /\ \A s \in Sids : tags[s] \subseteq (GoodSpaces \X PatU) /\ recPat[s] \subseteq (GoodSpaces \X PatU)
                       /\ want[s] \subseteq (GoodSpaces \X PatU) /\ total[s] \in Nat /\ recSp[s] \subseteq GoodSpaces
    /\ remoteDom \subseteq GoodSpaces
    /\ Len(ring) <= RingSize

Quiescent == MuFree /\ \A s \in Sids : busy[s] = "idle" /\ st[s] # "removed"

WantCount(sp, p) == Cardinality({s \in Sids : <<sp, p>> \in want[s]})

\* the engine's two views are changed under one lock: they agree in every state
TrieAgreesWithRecords ==
    \A sp \in GoodSpaces : \A p \in PatU :
        refs[sp][p] = Cardinality({s \in Sids : <<sp, p>> \in recPat[s]})
TotalConsistent == \A s \in Sids : total[s] = Cardinality(recPat[s]) /\ (~hasRec[s] => recPat[s] = {} /\ recSp[s] = {})
TagsOnlyInPool  == \A s \in Sids : st[s] # "open" => tags[s] = {}
\* an accepted, not withdrawn subscription is served by all three views at every moment
WantServed ==
    \A s \in Sids : /\ want[s] \subseteq tags[s] /\ want[s] \subseteq recPat[s]
                    /\ \A x \in want[s] : x[1] \in remoteDom /\ refs[x[1]][x[2]] > 0
                    /\ want[s] # {} => st[s] = "open"

\* the three views (and the map keys around them) agree with what the streams asked for, whenever no operation is in flight
ViewsAgreeAtQuiescence ==
    Quiescent =>
        /\ \A s \in Sids : /\ tags[s] = want[s] /\ recPat[s] = want[s]
                           /\ hasRec[s] = (want[s] # {})
                           /\ recSp[s] = {x[1] : x \in want[s]}
        /\ \A sp \in GoodSpaces : \A p \in PatU : refs[sp][p] = WantCount(sp, p)
        /\ remoteDom = {sp \in GoodSpaces : \E s \in Sids : OfSpace(want[s], sp) # {}}

\* after every subscription was withdrawn / its stream closed / its member evicted / its space closed
\* - in whatever order - nothing is left
NoLeakAfterTeardown ==
    (Quiescent /\ \A s \in Sids : want[s] = {}) =>
        /\ remoteDom = {} /\ \A sp \in GoodSpaces : \A p \in PatU : refs[sp][p] = 0
        /\ \A s \in Sids : ~hasRec[s] /\ recSp[s] = {} /\ recPat[s] = {} /\ tags[s] = {} /\ total[s] = 0

\* an account evicted as a non-member holds no subscription until it is re-admitted. With the membership check
\* of a subscribe outside remoteMu (AtomicCheck = FALSE, as the code is) this does NOT hold: a subscribe that
\* passed the check before the removal records its interest after the eviction. Checked in its own config.
\* (repaired: a stream that has not finished its second check may hold the interest it is about to lose)
EvictedStayOut == \A s \in Sids : \A sp \in GoodSpaces :
                     (<<StreamAcct[s], sp>> \in evicted /\ busy[s] # "recheck") => OfSpace(want[s], sp) = {}

NodeInv == TypeOK /\ TrieAgreesWithRecords /\ TotalConsistent /\ TagsOnlyInPool /\ WantServed
           /\ ViewsAgreeAtQuiescence /\ NoLeakAfterTeardown

(* ---- step properties: out' carries the arguments and the emissions of the step just taken ---- *)
IsPublishStep == out'.kind = "publish"
\* the statement's delivery rule for the publish a == out'.pub, evaluated on the state before the step
StmtOk(a) ==
    /\ a.idOk /\ ValidTopic(a.t) /\ a.sp \notin NotResp
    /\ IF a.relayed THEN StreamPeer[a.s] \in NodePeers
       ELSE /\ StreamAcct[a.s] # "none" /\ a.claimed = StreamAcct[a.s]     \* proven identity = signed identity
            /\ <<StreamAcct[a.s], a.sp>> \in member                         \* publisher is a member
            /\ (Owner(a.t) = "" \/ Owner(a.t) = StreamAcct[a.s])            \* own namespace
            /\ (Burst < 0 \/ tokens[StreamPeer[a.s]] > 0)                   \* ingress rate limit
PatternMatch(W, sp, t) == \E p \in PatsOf(W, sp) : Matches(p, t)

\* a publish reaches stream x exactly when the rule holds and a currently registered pattern of x matches
\* (a pattern whose unsubscribe is between its two critical sections may or may not still be served)
DeliveryExact ==
    IsPublishStep =>
        LET a == out'.pub IN
        \A x \in Sids :
            /\ (StmtOk(a) /\ st[x] = "open" /\ PatternMatch(want[x], a.sp, a.t)) => out'.deliver[x] >= 1
            /\ out'.deliver[x] >= 1 => (StmtOk(a) /\ st[x] = "open" /\ PatternMatch(want[x] \cup pendU[x], a.sp, a.t))
AtMostOneCopy == IsPublishStep => \A x \in Sids : out'.deliver[x] + (IF x \in out'.fwd THEN 1 ELSE 0) <= 1
RelayedNeverForwarded == IsPublishStep => (out'.pub.relayed => out'.fwd = {})
OnlyAcceptedForwarded == IsPublishStep => (out'.fwd # {} => StmtOk(out'.pub))

PropDeliveryExact         == [][DeliveryExact]_vars
PropAtMostOneCopy         == [][AtMostOneCopy]_vars
PropRelayedNeverForwarded == [][RelayedNeverForwarded /\ OnlyAcceptedForwarded]_vars

(* ---- client half ---- *)
RingOK == Len(ring) <= RingSize /\ \A i, j \in 1..Len(ring) : i # j => ring[i] # ring[j]
IsHandledStep == out'.kind = "recv" /\ out'.handled # {}
\* forged and stale frames, frames of non-members and frames into someone else's namespace never reach a handler
ForgedStaleNeverHandled ==
    IsHandledStep =>
        LET m == out'.m IN
        /\ m.sig /\ ~Stale(m) /\ m.idOk /\ ValidTopic(m.topic)
        /\ <<m.src, m.space>> \in member /\ (Owner(m.topic) = "" \/ Owner(m.topic) = m.src)
        /\ out'.handled = LocalMatch(m.space, m.topic)
\* a replayed frame reaches a handler again only through the by-design residual: its id has left the
\* full dedup ring (its timestamp being inside the skew window or absent)
ReplayedOnlyAfterRingEviction ==
    (IsHandledStep /\ out'.m.id \in hid) => (out'.m.id \notin SeqSet(ring) /\ Len(ring) = RingSize)
\* the strict form of the statement ("replayed messages never reach a handler"): violated by the residual;
\* checked in its own config, where TLC is expected to produce the counterexample the harness reproduces
ReplayedNeverHandledStrict == IsHandledStep => out'.m.id \notin hid
\* frames that are not delivered never touch the ring (a flood of junk cannot open the replay window)
RejectedLeavesRing == (out'.kind = "recv" /\ out'.handled = {} /\ out'.code # "handled") => ring' = ring

PropForgedStaleNeverHandled == [][ForgedStaleNeverHandled /\ RejectedLeavesRing]_vars
PropReplayResidualOnly      == [][ReplayedOnlyAfterRingEviction]_vars
PropReplayStrict            == [][ReplayedNeverHandledStrict]_vars
=============================================================================
