INIT GInit
NEXT GNext
CONSTANTS
  GenRole = "client"
  GenActs <- G_AllClient
  MaxSteps = 24
  DrainMax = 0
  Prelude = "none"
  GenStreams = {1}
  UseCls = TRUE
  DrawStreams <- R_DrawStreams
  DrawSpaces <- R_DrawSpaces
  NStreams = 1
  StreamAcct <- Nq_StreamAcct
  StreamPeer <- Nq_StreamPeer
  NodePeers = {}
  Accounts = {"A", "B"}
  Spaces = {"X"}
  BadSpaces = {}
  NotResp = {}
  InitMember <- Nq_Member
  SubFrames = {}
  UnsubFrames = {}
  Topics = {}
  MaxPerSpace = 100
  MaxPerStream = 100
  Burst <- NoLimit
  BroadcastDedup = TRUE
  FIX_PruneEmpty = TRUE
  FIX_Recheck = TRUE
  AllowLate = TRUE
  TrackEvicted = FALSE
  AtomicCheck = FALSE
  FlipAccounts = {"A", "B"}
  Self = "A"
  LocalPats <- C_LocalPats
  Msgs <- C_Msgs
  OwnIds = {4}
  RingSize = 2
INVARIANT Emit
CHECK_DEADLOCK FALSE
