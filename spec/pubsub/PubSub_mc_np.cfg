SPECIFICATION NodeSpec
CONSTANTS
  NStreams = 3
  StreamAcct <- Np_StreamAcct
  StreamPeer <- Np_StreamPeer
  NodePeers = {"pN"}
  Accounts = {"A", "B"}
  Spaces = {"X", "Z"}
  BadSpaces = {}
  NotResp = {"Z"}
  InitMember <- Np_Member
  SubFrames <- Np_SubFrames
  UnsubFrames <- Np_Unsub
  Topics <- Np_Topics
  MaxPerSpace = 100
  MaxPerStream = 100
  Burst = 1
  BroadcastDedup = TRUE
  FIX_PruneEmpty = TRUE
  FIX_Recheck = TRUE
  AllowLate = FALSE
  TrackEvicted = FALSE
  AtomicCheck = TRUE
  FlipAccounts = {"B"}
  Self = "A"
  LocalPats = {}
  Msgs = {}
  OwnIds = {}
  RingSize = 1
VIEW View
INVARIANT NodeInv
PROPERTY PropDeliveryExact
PROPERTY PropAtMostOneCopy
PROPERTY PropRelayedNeverForwarded
CHECK_DEADLOCK FALSE
