SPECIFICATION TraceSpec
CONSTANTS
  NStreams <- Tr_NStreams
  StreamAcct <- Tr_StreamAcct
  StreamPeer <- Tr_StreamPeer
  NodePeers <- Tr_NodePeers
  Accounts <- Tr_Accounts
  Spaces <- Tr_Spaces
  BadSpaces <- Tr_BadSpaces
  NotResp <- Tr_NotResp
  InitMember <- Tr_InitMember
  SubFrames <- Tr_SubFrames
  UnsubFrames = {}
  Topics = {}
  MaxPerSpace <- Tr_MaxPerSpace
  MaxPerStream <- Tr_MaxPerStream
  Burst <- Tr_Burst
  BroadcastDedup = TRUE
  FIX_PruneEmpty = TRUE
  FIX_Recheck <- Tr_FixRecheck
  AllowLate = TRUE
  TrackEvicted = FALSE
  AtomicCheck = FALSE
  FlipAccounts = {"A", "B"}
  Self <- Tr_Self
  LocalPats <- Tr_LocalPats
  Msgs = {}
  OwnIds <- Tr_OwnIds
  RingSize <- Tr_RingSize
INVARIANT TraceInv
PROPERTY PropDeliveryExact
PROPERTY PropAtMostOneCopy
PROPERTY PropRelayedNeverForwarded
PROPERTY PropForgedStaleNeverHandled
PROPERTY PropReplayResidualOnly
CONSTRAINT Mark
POSTCONDITION TraceAccepted
CHECK_DEADLOCK FALSE
