SPECIFICATION NodeSpec
CONSTANTS
  NStreams = 1
  StreamAcct <- N2_StreamAcct
  StreamPeer <- N2_StreamPeer
  NodePeers = {}
  Accounts = {"A"}
  Spaces = {"X", "Y"}
  BadSpaces = {}
  NotResp = {}
  InitMember <- N2_Member
  SubFrames <- N2_SubFrames
  UnsubFrames <- N2_Unsub
  Topics <- N2_Topics
  MaxPerSpace = 2
  MaxPerStream = 3
  Burst = 1
  BroadcastDedup = FALSE
  FIX_PruneEmpty = TRUE
  FIX_Recheck = TRUE
  AllowLate = TRUE
  TrackEvicted = FALSE
  AtomicCheck = FALSE
  FlipAccounts = {"A"}
  Self = "A"
  LocalPats = {}
  Msgs = {}
  OwnIds = {}
  RingSize = 1
VIEW View
PROPERTY PropAtMostOneCopy
CHECK_DEADLOCK FALSE
