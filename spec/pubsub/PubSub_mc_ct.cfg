SPECIFICATION ClientSpec
CONSTANTS
  NStreams = 1
  StreamAcct <- N2_StreamAcct
  StreamPeer <- N2_StreamPeer
  NodePeers = {}
  Accounts = {"A", "B"}
  Spaces = {"X"}
  BadSpaces = {}
  NotResp = {}
  InitMember <- Nq_Member
  SubFrames = {}
  UnsubFrames = {}
  Topics = {}
  MaxPerSpace = 100
  MaxPerStream = 100
  Burst <- NoLimit
  BroadcastDedup = TRUE
  FIX_PruneEmpty = TRUE
  FIX_Recheck = TRUE
  AllowLate = TRUE
  TrackEvicted = FALSE
  AtomicCheck = FALSE
  FlipAccounts = {"A", "B"}
  Self = "A"
  LocalPats <- Ct_LocalPats
  Msgs <- Ct_Msgs
  OwnIds = {4}
  RingSize = 1
VIEW View
INVARIANT RingOK
PROPERTY PropForgedStaleNeverHandled
PROPERTY PropReplayResidualOnly
CHECK_DEADLOCK FALSE
