----------------------------- MODULE PubSubMatch -----------------------------
(* The declarative definitions of PubSub.tla (ValidTopic, ValidPattern, Matches, Owner)    *)
(* tabulated over all strings of a small segment alphabet, written as JSON for the Go side: *)
(* the harness compares the repository's ValidateTopic / ValidatePattern / TopicOwner and    *)
(* patternTrie.Match with this table for every string, every pattern set of size <= 2 and    *)
(* every topic (exhaustive). TLC also checks a few algebraic facts of Matches here.          *)
EXTENDS PubSubMC, VerifEmit

ASSUME EmitReset

Alphabet  == {"a", "b", "c", "*", ">", "", "a*"}      \* literals, both wildcards, the empty segment, a wildcard inside a segment
Lits      == {"a", "b", "c"}
Strs(S, n) == UNION {[1..k -> S] : k \in 1..n}
AllStrs   == Strs(Alphabet, 3)
TopicStrs == Strs(Lits, 4)                             \* 120 well-formed topics for the matching table
Pats      == {p \in AllStrs : ValidPattern(p)}         \* 52 over {a, b, c -> only a, b used below}... see PatsAB
PatsAB    == {p \in Strs({"a", "b", "*", ">"}, 3) : ValidPattern(p)}   \* the 52 patterns of the pre-check

Table == [valid   |-> {<<s, ValidTopic(s), ValidPattern(s)>> : s \in AllStrs},
          owners  |-> {<<t, Owner(t)>> : t \in Strs({"acc", "a", "b"}, 3)},
          matches |-> {<<p, {t \in TopicStrs : Matches(p, t)}>> : p \in PatsAB},
          topics  |-> TopicStrs]

VARIABLE done
Init0 == Init /\ done = FALSE
Next0 == ~done /\ done' = TRUE /\ UNCHANGED vars
Emit == EmitWhen(done, Table)

\* facts of the rule itself (checked over all valid patterns x topics of the alphabet)
NoWildcardsExact == \A p \in PatsAB : (\A i \in 1..Len(p) : p[i] \in Lits) => \A t \in TopicStrs : Matches(p, t) <=> p = t
TailNeedsOneMore == \A p \in PatsAB : p[Len(p)] = ">" => \A t \in TopicStrs : Matches(p, t) => Len(t) >= Len(p)
StarExactLength  == \A p \in PatsAB : p[Len(p)] # ">" => \A t \in TopicStrs : Matches(p, t) => Len(t) = Len(p)
ValidTopicIsPattern == \A s \in AllStrs : ValidTopic(s) => ValidPattern(s) /\ Matches(s, s)
Facts == NoWildcardsExact /\ TailNeedsOneMore /\ StarExactLength /\ ValidTopicIsPattern
=============================================================================
