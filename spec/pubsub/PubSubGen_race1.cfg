INIT GInit
NEXT GNext
CONSTANTS
  GenRole = "node"
  GenActs <- R1_Acts
  MaxSteps = 8
  DrainMax = 0
  Prelude = "none"
  GenStreams = {1}
  UseCls = FALSE
  DrawStreams <- R_DrawStreams
  DrawSpaces <- R_DrawSpaces
  NStreams = 1
  StreamAcct <- R1_StreamAcct
  StreamPeer <- R1_StreamPeer
  NodePeers = {}
  Accounts = {"A", "B"}
  Spaces = {"X"}
  BadSpaces = {}
  NotResp = {}
  InitMember <- R_Member
  SubFrames <- R_SubFrames
  UnsubFrames <- R_Unsub
  Topics <- R_Topics
  MaxPerSpace = 100
  MaxPerStream = 100
  Burst <- NoLimit
  BroadcastDedup = TRUE
  FIX_PruneEmpty = TRUE
  FIX_Recheck = TRUE
  AllowLate = TRUE
  TrackEvicted = FALSE
  AtomicCheck = FALSE
  FlipAccounts = {"A", "B"}
  Self = "A"
  LocalPats = {}
  Msgs = {}
  OwnIds = {}
  RingSize = 1
INVARIANT Emit
CHECK_DEADLOCK FALSE
