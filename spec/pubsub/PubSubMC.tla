------------------------------ MODULE PubSubMC ------------------------------
(* Constant definitions for the exhaustive configurations of PubSub.tla (cfg files cannot *)
(* write sequences). Patterns / topics are sequences of segments.                          *)
EXTENDS PubSub

NoLimit == -1
pA   == <<"a">>
pS   == <<"*">>
pAT  == <<"a", ">">>
pT   == <<">">>
pAcc == <<"acc", "*">>
pBad == <<">", "a">>          \* '>' not in tail position: invalid
pEmp == <<"a", "">>           \* trailing separator: invalid

\* ---- node, quick: two client streams of different accounts + their races, one space
Nq_StreamAcct == <<"A", "B">>
Nq_StreamPeer == <<"pA", "pB">>
Nq_SubFrames  == {<<>>, <<pA>>, <<pA, pS>>, <<pBad>>}
Nq_Unsub      == {{}, {pA}}
Nq_Topics     == {<<"a">>, <<"b">>, <<"*">>}
Nq_Member     == {<<"A", "X">>, <<"B", "X">>}

\* ---- node, quick 2: one stream, several patterns, caps, partial unsubscribe, overlapping patterns
N2_StreamAcct == <<"A">>
N2_StreamPeer == <<"pA">>
N2_SubFrames  == {<<pA, pS>>, <<pAT>>, <<pBad>>}
N2_Unsub      == {{}, {pA}}
N2_Topics     == {<<"a">>, <<"a", "b">>, <<"*">>}
N2_Member     == {<<"A", "X">>, <<"A", "Y">>}

\* ---- node, second quick config: two streams of one peer (reconnect), two spaces, caps
Nr_StreamAcct == <<"A", "A">>
Nr_StreamPeer == <<"pA", "pA">>
Nr_SubFrames  == {<<>>, <<pA>>, <<pA, pAT>>}
Nr_Unsub      == {{}}
Nr_Topics     == {<<"a">>, <<"a", "b">>}
Nr_Member     == {<<"A", "X">>, <<"A", "Y">>}

\* ---- node, publish paths: client A, client B, a relay partner; owner namespace, rate limit
Np_StreamAcct == <<"A", "B", "N">>
Np_StreamPeer == <<"pA", "pB", "pN">>
Np_SubFrames  == {<<pS, pAcc>>}
Np_Unsub      == {{}}
Np_Topics     == {<<"a">>, <<"a", "b">>, <<"acc", "A">>, <<"acc", "B">>, <<"a", "">>, <<"acc">>}
Npq_Topics    == {<<"a">>, <<"acc", "A">>, <<"acc", "B">>, <<"a", "">>}
Np_Member     == {<<"A", "X">>, <<"B", "X">>}

\* ---- thorough node configs: (nt) three streams - two of one peer (reconnect) and another account - on one space;
\*      (nt2) two accounts on two spaces
Nt_StreamAcct == <<"A", "A", "B">>
Nt_StreamPeer == <<"pA", "pA", "pB">>
Nt_SubFrames  == {<<>>, <<pA>>, <<pA, pS>>}
Nt_Unsub      == {{}, {pA}}
Nt_Topics     == {<<"a">>, <<"b">>}
Nt_Member     == {<<"A", "X">>, <<"B", "X">>}
Nt2_SubFrames == {<<>>, <<pA>>, <<pA, pS>>}
Nt2_Unsub     == {{}, {pA}}
Nt2_Topics    == {<<"a">>, <<"b">>}
Nt2_Member    == {<<"A", "X">>, <<"B", "X">>, <<"A", "Y">>}

\* ---- client half
C_LocalPats == {<<"X", pA>>, <<"X", pS>>, <<"X", pAcc>>, <<"X", pBad>>}
Tss == {"fresh", "past", "future", "absent"}
\* one genuine frame per id + forged variants (bad signature) of it; an unparsable identity; a malformed id
C_Genuine == {
    [id |-> 1, src |-> "A", sig |-> TRUE, ts |-> "fresh",  space |-> "X", topic |-> <<"a">>, idOk |-> TRUE],
    [id |-> 2, src |-> "B", sig |-> TRUE, ts |-> "fresh",  space |-> "X", topic |-> <<"a">>, idOk |-> TRUE],
    [id |-> 3, src |-> "A", sig |-> TRUE, ts |-> "absent", space |-> "X", topic |-> <<"acc", "A">>, idOk |-> TRUE],
    [id |-> 4, src |-> "A", sig |-> TRUE, ts |-> "fresh",  space |-> "X", topic |-> <<"b">>, idOk |-> TRUE] }   \* own publish (Self = "A")
C_Variants == UNION {
    { [m EXCEPT !.sig = FALSE],                             \* payload / field altered in transit
      [m EXCEPT !.ts = "past"], [m EXCEPT !.ts = "future"], \* genuinely signed long ago / far ahead
      [m EXCEPT !.src = "B", !.sig = FALSE],                \* identity relabelled
      [m EXCEPT !.src = "garbage", !.sig = FALSE],
      [m EXCEPT !.idOk = FALSE],
      [m EXCEPT !.topic = <<"acc", "B">>, !.sig = (m.id = 2 /\ FALSE)] } : m \in C_Genuine \ {x \in C_Genuine : x.id = 4} }
\* a frame signed long ago is a different genuine frame of the same id only if no fresh one exists: keep one genuine per id
C_Msgs == C_Genuine \cup {v \in C_Variants : ~v.sig \/ v.ts # "fresh"}

\* thorough client config: ring of one slot, five ids (two of them without timestamp / in the own namespace)
Ct_LocalPats == {<<"X", pA>>, <<"X", pS>>, <<"X", pAcc>>, <<"X", pT>>}
Ct_Msgs == C_Msgs \cup {[id |-> 5, src |-> "B", sig |-> s, ts |-> t, space |-> "X", topic |-> <<"acc", "B">>, idOk |-> TRUE] : s \in {TRUE, FALSE}, t \in {"absent", "past"}}

\* ---- behaviour generation (simulation): two streams of one peer, another account, a relay partner
G_StreamAcct == <<"A", "A", "B", "N">>
G_StreamPeer == <<"pA", "pA", "pB", "pN">>
G_SubFrames  == {<<>>, <<pA>>, <<pS, pAcc>>, <<pA, pAT>>, <<pA, pA>>, <<pT>>, <<pBad>>, <<pEmp>>}
G_Unsub      == {{}, {pA}, {pS, pT}}
G_Topics     == {<<"a">>, <<"b">>, <<"a", "b">>, <<"acc", "A">>, <<"acc", "B">>, <<"a", "">>, <<"*">>, <<"acc">>}
G_Member     == {<<"A", "X">>, <<"B", "X">>, <<"A", "Y">>}
G_AllNode    == {"OpenStream", "RemoveStream", "OnStreamClose", "SubReject", "SubCheck", "Sub1", "Sub2", "Sub3", "Unsub1", "EvictMember",
                 "Revalidate", "CloseSpace", "AddMember", "RemoveMember", "Publish"}
\* ---- exhaustive race generation: close || subscribe on one stream, a second stream holding the same pattern
R_StreamAcct == <<"A", "B">>
R_StreamPeer == <<"pA", "pB">>
R_SubFrames  == {<<>>, <<pA>>}
R_Unsub      == {{}}
R_Topics     == {<<"a">>}
R_Member     == {<<"A", "X">>, <<"B", "X">>}
R_Acts       == {"OpenStream", "RemoveStream", "OnStreamClose", "SubCheck", "Sub1", "Sub2", "Sub3", "Unsub1", "CloseSpace", "EvictMember", "RemoveMember"}
\* close || subscribe of stream 2 while stream 1 holds the same pattern (prelude "holder"): the refcount of the pattern is shared
Rh_Acts      == {"OpenStream", "RemoveStream", "OnStreamClose", "SubCheck", "Sub1", "Sub2", "Sub3"}
Rh_SubFrames == {<<pA>>}
\* a pattern shared by two streams (prelude "holder"): stream 2 subscribes the pattern stream 1 holds, withdraws it (by name / empty = all)
\* and publishes before / after - the withdrawal of one holder must strip exactly that stream's routing tag while the refcount stays > 0
Rs_Acts      == {"OpenStream", "SubCheck", "Sub1", "Sub2", "Sub3", "Unsub1", "Publish"}
Rs_Unsub     == {{}, {pA}}
R1_StreamAcct == <<"A">>
R1_StreamPeer == <<"pA">>
R1_Acts       == {"OpenStream", "RemoveStream", "OnStreamClose", "SubCheck", "Sub1", "Sub2", "Sub3", "Unsub1"}
\* exhaustive generation around the membership check of a subscribe: removal / eviction / re-admission in between
Rv_Acts       == {"OpenStream", "SubCheck", "Sub1", "Sub2", "Sub3", "RemoveMember", "AddMember", "EvictMember", "Revalidate"}
Rvq_Acts      == {"OpenStream", "SubCheck", "Sub1", "Sub2", "Sub3", "RemoveMember", "EvictMember"}
Rv_SubFrames  == {<<pA>>}
G_DrawStreams == <<1, 1, 2, 2, 3, 3, 4>>
G_DrawSpaces  == <<"X", "X", "X", "X", "Y", "Y", "Z", "bad/sp">>
R_DrawStreams == <<1, 2>>
R_DrawSpaces  == <<"X">>
\* ---- exhaustive generation around the dedup ring: three genuine fresh frames, every order and repetition
Rz_LocalPats == {<<"X", pA>>}
Rz_Msgs == {[id |-> i, src |-> "A", sig |-> TRUE, ts |-> (IF i = 3 THEN "absent" ELSE "fresh"), space |-> "X", topic |-> <<"a">>, idOk |-> TRUE] : i \in 1..3}
           \cup {[id |-> i, src |-> "A", sig |-> FALSE, ts |-> "fresh", space |-> "X", topic |-> <<"a">>, idOk |-> TRUE] : i \in {1, 4}}   \* an altered copy of frame 1; a forged frame with an id of its own
Rz_Acts == {"LSubscribe", "Receive"}
G_AllClient  == {"LSubscribe", "LUnsubscribe", "CloseSpace", "AddMember", "RemoveMember", "Receive", "LPublish"}
=============================================================================
