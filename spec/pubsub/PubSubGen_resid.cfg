INIT GInit
NEXT GNext
CONSTANTS
  GenRole = "client"
  GenActs <- Rz_Acts
  MaxSteps = 5
  DrainMax = 0
  Prelude = "none"
  GenStreams = {1}
  UseCls = FALSE
  DrawStreams <- R_DrawStreams
  DrawSpaces <- R_DrawSpaces
  NStreams = 1
  StreamAcct <- Nq_StreamAcct
  StreamPeer <- Nq_StreamPeer
  NodePeers = {}
  Accounts = {"A", "B"}
  Spaces = {"X"}
  BadSpaces = {}
  NotResp = {}
  InitMember <- Nq_Member
  SubFrames = {}
  UnsubFrames = {}
  Topics = {}
  MaxPerSpace = 100
  MaxPerStream = 100
  Burst <- NoLimit
  BroadcastDedup = TRUE
  FIX_PruneEmpty = TRUE
  FIX_Recheck = TRUE
  AllowLate = TRUE
  TrackEvicted = FALSE
  AtomicCheck = FALSE
  FlipAccounts = {"A", "B"}
  Self = "B"
  LocalPats <- Rz_LocalPats
  Msgs <- Rz_Msgs
  OwnIds = {}
  RingSize = 1
INVARIANT Emit
CHECK_DEADLOCK FALSE
