------------------------------ MODULE PubSubGen ------------------------------
(* Behaviour generation for the replay harness: PubSub.tla with a history variable.       *)
(* Every step appends [a |-> action record, out |-> emissions, exp |-> projected state].  *)
(* Used with -simulate (random behaviours, one JSON file each) or exhaustively (all        *)
(* histories of a small race configuration).                                               *)
(*                                                                                         *)
(* Replay granularity: the two critical sections of an unsubscribe are replayed back to    *)
(* back (the harness cannot stop the real call between them without a hook), so Unsub2     *)
(* is forced right after Unsub1 here (and Sub2 right after a Sub1 that accepted nothing:   *)
(* that call never reaches the AddTagsCtx gate); their interleavings are covered by the exhaustive *)
(* model only. SubCheck/Sub1/Sub2 and RemoveStream/OnStreamClose are forced by harness gates.*)
EXTENDS PubSubMC, VerifEmit

CONSTANTS GenRole,    \* "node" | "client"
          GenActs,    \* names of the actions that may be generated
          MaxSteps,   \* free steps; afterwards only finishing / tear-down steps
          DrainMax,   \* bound of the tear-down phase
          DrawStreams, DrawSpaces,  \* sequences (repetition = weight) the simulation draws the stream / space from
          Prelude,    \* "none" | "holder": start from the state in which stream 1 is open and holds pattern <<"a">> of space "X"
                      \* (the harness brings the engine there before the first step) - gives refcounts something to lose
          GenStreams, \* streams that act in the generated behaviours
          UseCls      \* TRUE: pick the action class first (keeps Publish from crowding out the rest in simulation)

VARIABLES init0,  \* projection of the initial state (constant)
          hist,   \* the steps taken so far
          sel,    \* simulation only: the class / stream / space drawn for the next step ("choose" = draw now)
          done    \* TRUE in the single successor of a terminal state: the behaviour is emitted there, so that
                  \* -simulate writes one file per trace (invariants are evaluated on every generated successor)
gvars == <<vars, init0, hist, sel, done>>

ASSUME EmitReset

RefTriples == {<<sp, p, refs[sp][p]>> : sp \in GoodSpaces, p \in PatU}
Proj == [st |-> st, tags |-> tags, hasRec |-> hasRec, recSp |-> recSp, recPat |-> recPat, total |-> total,
         remoteDom |-> remoteDom,
         refs |-> {x \in RefTriples : x[3] > 0},
         member |-> member, busy |-> busy, pendU |-> pendU, want |-> want,
         tokens |-> [s \in Sids |-> tokens[StreamPeer[s]]],
         muFree |-> MuFree, lpats |-> lpats, ring |-> ring, hid |-> hid]

Rec(a) == hist' = Append(hist, [a |-> a, out |-> out', exp |-> Proj'])
On(n) == n \in GenActs

\* drawn uniformly; a name with a suffix counts for its class (weights)
Classes == IF GenRole = "node" THEN {"stream", "sub", "subgood", "subgood#2", "finish", "unsub", "admin", "pub", "pubgood", "pubgood#2", "pubgood#3"}
           ELSE {"local", "local#2", "recv", "recvgood", "recvgood#2", "recvgood#3", "admin"}
Choose == [c |-> "choose", s |-> 0, sp |-> ""]
AnySel == [c |-> "any", s |-> 0, sp |-> ""]
InCls(c) == ~UseCls \/ sel.c \in {c, c \o "#2", c \o "#3"}
SelS(s)  == s \in GenStreams /\ (~UseCls \/ sel.s = s)
SelSp(sp) == ~UseCls \/ sel.sp = sp
Free == Len(hist) < MaxSteps

HolderTag == <<"X", <<"a">>>>
InitHolder ==
    /\ st = [s \in Sids |-> IF s = 1 THEN "open" ELSE "new"] /\ tags = [s \in Sids |-> IF s = 1 THEN {HolderTag} ELSE {}]
    /\ hasRec = [s \in Sids |-> s = 1] /\ recSp = [s \in Sids |-> IF s = 1 THEN {"X"} ELSE {}]
    /\ recPat = [s \in Sids |-> IF s = 1 THEN {HolderTag} ELSE {}]
    /\ total = [s \in Sids |-> IF s = 1 THEN 1 ELSE 0] /\ remoteDom = {"X"}
    /\ refs = [sp \in GoodSpaces |-> [p \in PatU |-> IF sp = "X" /\ p = <<"a">> THEN 1 ELSE 0]]
    /\ member = InitMember
    /\ pend = NoPend /\ busy = [s \in Sids |-> "idle"] /\ pendU = [s \in Sids |-> {}]
    /\ chk = [s \in Sids |-> NoChk] /\ rchk = [s \in Sids |-> NoRchk] /\ evicted = {}
    /\ late = [s \in Sids |-> FALSE]
    /\ tokens = [p \in Peers |-> Burst]
    /\ want = [s \in Sids |-> IF s = 1 THEN {HolderTag} ELSE {}]
    /\ lpats = {} /\ ring = <<>> /\ hid = {}
    /\ out = NoOut

GInit == (IF Prelude = "holder" THEN InitHolder ELSE Init)
         /\ init0 = Proj /\ hist = <<>> /\ done = FALSE /\ sel = (IF UseCls THEN Choose ELSE AnySel)

UnsubPending == \E s \in Sids : busy[s] = "unsub"
\* a subscribe that accepts nothing does not call AddTagsCtx: the real call cannot be stopped between Sub1 and Sub2
EmptySubPending == pend # NoPend /\ pend.acc = <<>>
AllWithdrawn == \A s \in Sids : want[s] = {}
ActorsDone == ~UseCls /\ GenRole = "node" /\ Quiescent /\ \A s \in GenStreams : st[s] = "gone"
Terminal == \/ /\ Len(hist) >= MaxSteps
               /\ \/ (GenRole = "node" /\ Quiescent /\ AllWithdrawn)
                  \/ GenRole = "client"
                  \/ Len(hist) >= MaxSteps + DrainMax
            \/ ActorsDone     \* exhaustive generation: every acting stream is closed - the history is complete

NodeG ==
    \/ InCls("stream") /\ Free /\ On("OpenStream") /\ \E s \in GenStreams : OpenStream(s) /\ Rec([act |-> "OpenStream", s |-> s])
    \/ InCls("stream") /\ On("RemoveStream") /\ \E s \in Sids : SelS(s) /\ (Free \/ want[s] # {} \/ hasRec[s]) /\ RemoveStream(s) /\ Rec([act |-> "RemoveStream", s |-> s])
    \/ (InCls("stream") \/ InCls("finish")) /\ On("OnStreamClose") /\ \E s \in GenStreams : OnStreamClose(s) /\ Rec([act |-> "OnStreamClose", s |-> s])
    \/ InCls("sub") /\ Free /\ On("SubReject") /\ \E s \in Sids, sp \in Spaces, f \in SubFrames :
            SelS(s) /\ SelSp(sp) /\ SubReject(s, sp, f) /\ Rec([act |-> "SubReject", s |-> s, sp |-> sp, f |-> f])
    \/ (InCls("sub") \/ InCls("subgood")) /\ Free /\ On("SubCheck") /\ \E s \in Sids, sp \in Spaces, f \in SubFrames :
            SelS(s) /\ SelSp(sp) /\ SubCheck(s, sp, f) /\ Rec([act |-> "SubCheck", s |-> s, sp |-> sp, f |-> f])
    \/ (InCls("sub") \/ InCls("subgood") \/ InCls("finish")) /\ On("Sub1") /\ \E s \in Sids : Sub1(s) /\ Rec([act |-> "Sub1", s |-> s])
    \/ (InCls("sub") \/ InCls("subgood") \/ InCls("finish")) /\ On("Sub2") /\ Sub2 /\ Rec([act |-> "Sub2"])
    \/ (InCls("sub") \/ InCls("subgood") \/ InCls("finish")) /\ On("Sub3") /\ \E s \in Sids : Sub3(s) /\ Rec([act |-> "Sub3", s |-> s])
    \/ InCls("unsub") /\ On("Unsub1") /\ \E s \in Sids, sp \in GoodSpaces, P \in UnsubFrames :
            /\ SelS(s) /\ SelSp(sp)
            /\ Free \/ (P = {} /\ OfSpace(want[s], sp) # {})
            /\ Unsub1(s, sp, P) /\ Rec([act |-> "Unsub1", s |-> s, sp |-> sp, P |-> P])
    \/ InCls("admin") /\ On("EvictMember") /\ \E sp \in GoodSpaces, a \in Accounts :
            /\ SelSp(sp)
            /\ Free \/ (\E s \in Sids : StreamAcct[s] = a /\ OfSpace(want[s], sp) # {})
            /\ EvictMember(sp, a) /\ Rec([act |-> "EvictMember", sp |-> sp, acct |-> a])
    \/ InCls("admin") /\ Free /\ On("Revalidate") /\ \E sp \in GoodSpaces : SelSp(sp) /\ Revalidate(sp) /\ Rec([act |-> "Revalidate", sp |-> sp])
    \/ InCls("admin") /\ On("CloseSpace") /\ \E sp \in GoodSpaces :
            /\ SelSp(sp)
            /\ Free \/ (\E s \in Sids : OfSpace(want[s], sp) # {})
            /\ CloseSpace(sp) /\ Rec([act |-> "CloseSpace", sp |-> sp])
    \/ InCls("admin") /\ Free /\ On("AddMember") /\ \E a \in Accounts, sp \in GoodSpaces :
            SelSp(sp) /\ AddMember(a, sp) /\ Rec([act |-> "AddMember", acct |-> a, sp |-> sp])
    \/ InCls("admin") /\ Free /\ On("RemoveMember") /\ \E a \in Accounts, sp \in GoodSpaces :
            SelSp(sp) /\ RemoveMember(a, sp) /\ Rec([act |-> "RemoveMember", acct |-> a, sp |-> sp])
    \/ (InCls("pub") \/ InCls("pubgood")) /\ Free /\ On("Publish") /\
            \E s \in Sids, c \in Accounts \cup {"none"}, sp \in Spaces, t \in Topics, r \in Bools, k \in Bools :
                /\ SelS(s) /\ SelSp(sp)
                /\ UseCls => (~k => (c = "none" /\ ~r /\ t = <<"a">>))      \* one representative of the malformed-id class
                /\ (UseCls /\ InCls("pubgood")) => PubCode(s, c, sp, t, r, k) \in {"fanout", "relayed-fanout"}
                /\ ~UseCls => PubCode(s, c, sp, t, r, k) \in {"fanout", "relayed-fanout"}   \* exhaustive generation: accepted publishes only
                /\ Publish(s, c, sp, t, r, k)
                /\ Rec([act |-> "Publish", s |-> s, claimed |-> c, sp |-> sp, t |-> t, relayed |-> r, idOk |-> k])

ClientG ==
    \/ InCls("local") /\ On("LSubscribe") /\ \E x \in LocalPats : LSubscribe(x[1], x[2]) /\ Rec([act |-> "LSubscribe", sp |-> x[1], p |-> x[2]])
    \/ InCls("local") /\ On("LUnsubscribe") /\ \E x \in LocalPats : LUnsubscribe(x[1], x[2]) /\ Rec([act |-> "LUnsubscribe", sp |-> x[1], p |-> x[2]])
    \/ InCls("admin") /\ On("CloseSpace") /\ \E sp \in GoodSpaces : CloseSpace(sp) /\ Rec([act |-> "CloseSpace", sp |-> sp])
    \/ InCls("admin") /\ On("AddMember") /\ \E a \in Accounts, sp \in GoodSpaces : AddMember(a, sp) /\ Rec([act |-> "AddMember", acct |-> a, sp |-> sp])
    \/ InCls("admin") /\ On("RemoveMember") /\ \E a \in Accounts, sp \in GoodSpaces : RemoveMember(a, sp) /\ Rec([act |-> "RemoveMember", acct |-> a, sp |-> sp])
    \/ (InCls("recv") \/ InCls("recvgood")) /\ On("Receive") /\ \E m \in Msgs :
            /\ (UseCls /\ InCls("recvgood")) => RecvCode(m) \in {"handled", "duplicate"}
            /\ Receive(m) /\ Rec([act |-> "Receive", m |-> m])
    \/ (InCls("recv") \/ InCls("recvgood")) /\ On("LPublish") /\ \E m \in Msgs : LPublish(m) /\ Rec([act |-> "LPublish", m |-> m])

\* the draw is made in three small steps (class, stream, space) to keep the number of generated states low
Drawing == sel.c = "choose" \/ sel.s = 0 \/ sel.sp = ""
Draw == IF sel.c = "choose" THEN \E c \in Classes : sel' = [sel EXCEPT !.c = c]
        ELSE IF sel.s = 0 THEN \E i \in 1..Len(DrawStreams) : sel' = [sel EXCEPT !.s = DrawStreams[i]]
        ELSE \E i \in 1..Len(DrawSpaces) : sel' = [sel EXCEPT !.sp = DrawSpaces[i]]

GNext ==
    /\ ~done
    /\ IF Terminal THEN done' = TRUE /\ UNCHANGED <<vars, init0, hist, sel>>
       ELSE /\ done' = FALSE /\ init0' = init0
            /\ IF UnsubPending
                 THEN (\E s \in Sids : Unsub2(s) /\ Rec([act |-> "Unsub2", s |-> s])) /\ sel' = sel
               ELSE IF EmptySubPending
                 THEN Sub2 /\ Rec([act |-> "Sub2"]) /\ sel' = sel
               ELSE IF ~UseCls
                 THEN (IF GenRole = "node" THEN NodeG ELSE ClientG) /\ sel' = sel
               ELSE IF Drawing
                 THEN Draw /\ UNCHANGED <<vars, hist>>
               ELSE \/ (IF GenRole = "node" THEN NodeG ELSE ClientG) /\ sel' = Choose
                    \/ sel' = Choose /\ UNCHANGED <<vars, hist>>     \* nothing (or nothing wanted) for this draw

Behaviour == [cfg |-> [role |-> GenRole, nstreams |-> NStreams, streamAcct |-> StreamAcct, streamPeer |-> StreamPeer,
                       nodePeers |-> NodePeers, accounts |-> Accounts, badSpaces |-> BadSpaces, notResp |-> NotResp,
                       initMember |-> InitMember, maxPerSpace |-> MaxPerSpace, maxPerStream |-> MaxPerStream,
                       burst |-> Burst, ringSize |-> RingSize, self |-> Self, spaces |-> Spaces,
                       fixPruneEmpty |-> FIX_PruneEmpty, prelude |-> Prelude],
              init |-> init0,
              steps |-> hist]
Emit == EmitWhen(done, Behaviour)
=============================================================================
