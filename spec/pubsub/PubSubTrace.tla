----------------------------- MODULE PubSubTrace -----------------------------
(* Trace validation: operation sequences recorded from the real engine (random driver in    *)
(* harness/inpkg/pubsub, TestVerifRecord) must be behaviours of PubSub.tla. One NDJSON line  *)
(* per spec action with its arguments (a), what the engine emitted (out) and the projected   *)
(* real state after the step (st); a line without st is a step whose post-state cannot be    *)
(* observed (Sub1: remoteMu .. AddTagsCtx is one piece of the real call; Unsub1 of a call that *)
(* goes on to remove tags). The first line carries the constants; "reset" starts a new run.  *)
(* All invariants and step properties of PubSub.tla are checked on the recorded steps.       *)
EXTENDS PubSub, VerifEmit, PubSubTraceConsts

(* PubSubTraceConsts.tla is written by checks/C17.py for the trace at hand (the constants of the   *)
(* recorded configuration and the frames / local patterns / own ids that occur in the trace): TLC  *)
(* re-evaluates a definition that depends on a Java-overridden operator at every use, so nothing   *)
(* at constant level may be derived from the parsed file. The parsed file itself is kept in a TLC  *)
(* register, filled once by an ASSUME.                                                             *)
ASSUME HwReset
ASSUME TLCSet(3, ndJsonDeserialize(TraceFileName))
Trace == TLCGet(3)
ToSet(q) == {q[i] : i \in 1..Len(q)}

VARIABLE l
tvars == <<vars, l>>

Has(x, f) == f \in DOMAIN x

Do(a) ==
    CASE a.act = "OpenStream"    -> OpenStream(a.s)
      [] a.act = "RemoveStream"  -> RemoveStream(a.s)
      [] a.act = "OnStreamClose" -> OnStreamClose(a.s)
      [] a.act = "SubReject"     -> SubReject(a.s, a.sp, a.f)
      [] a.act = "SubCheck"      -> SubCheck(a.s, a.sp, a.f)
      [] a.act = "Sub1"          -> Sub1(a.s)
      [] a.act = "Sub2"          -> Sub2
      [] a.act = "Sub3"          -> Sub3(a.s)
      [] a.act = "Unsub1"        -> Unsub1(a.s, a.sp, ToSet(a.P))
      [] a.act = "Unsub2"        -> Unsub2(a.s)
      [] a.act = "EvictMember"   -> EvictMember(a.sp, a.acct)
      [] a.act = "Revalidate"    -> Revalidate(a.sp)
      [] a.act = "CloseSpace"    -> CloseSpace(a.sp)
      [] a.act = "AddMember"     -> AddMember(a.acct, a.sp)
      [] a.act = "RemoveMember"  -> RemoveMember(a.acct, a.sp)
      [] a.act = "Publish"       -> Publish(a.s, a.claimed, a.sp, a.t, a.relayed, a.idOk)
      [] a.act = "LSubscribe"    -> LSubscribe(a.sp, a.p)
      [] a.act = "LUnsubscribe"  -> LUnsubscribe(a.sp, a.p)
      [] a.act = "Receive"       -> Receive(a.m)
      [] a.act = "LPublish"      -> LPublish(a.m)

RefOf(rs, sp, p) == LET hit == {i \in 1..Len(rs) : rs[i][1] = sp /\ rs[i][2] = p}
                    IN IF hit = {} THEN 0 ELSE rs[CHOOSE i \in hit : TRUE][3]

\* the projected real state after the step binds the primed variables
BindState(x) ==
    ~Has(x, "st") \/
    LET r == x.st IN
    /\ \A s \in Sids : (st'[s] = "open") = r.inPool[s]
    /\ \A s \in Sids : tags'[s] = ToSet(r.tags[s])
    /\ Has(r, "hasRec") =>
         /\ \A s \in Sids : /\ hasRec'[s] = r.hasRec[s]
                            /\ recSp'[s] = ToSet(r.recSp[s])
                            /\ recPat'[s] = ToSet(r.recPat[s])
                            /\ (r.hasRec[s] => total'[s] = r.total[s])
         /\ remoteDom' = ToSet(r.remoteDom)
         /\ \A sp \in GoodSpaces : \A p \in PatU : refs'[sp][p] = RefOf(r.refs, sp, p)
         /\ \A i \in 1..Len(r.refs) : r.refs[i][1] \in GoodSpaces /\ r.refs[i][2] \in PatU
    /\ Has(r, "ring") => (ring' = r.ring /\ lpats' = ToSet(r.lpats))

\* what the engine emitted binds out'
BindOut(x) ==
    ~Has(x, "out") \/
    LET o == x.out IN
    /\ out'.deliver = o.deliver
    /\ out'.fwd = ToSet(o.fwd)
    /\ out'.to = o.to
    /\ o.to # 0 => (out'.code = o.code /\ out'.topics = o.topics)
    /\ out'.handled = ToSet(o.handled)

IsLine(e) == l <= Len(Trace) /\ Trace[l].ev = e /\ l' = l + 1

TrStep  == IsLine("step") /\ Do(Trace[l].a) /\ BindState(Trace[l]) /\ BindOut(Trace[l])
TrReset == IsLine("reset") /\
           /\ st' = [s \in Sids |-> "new"] /\ tags' = [s \in Sids |-> {}]
           /\ hasRec' = [s \in Sids |-> FALSE] /\ recSp' = [s \in Sids |-> {}] /\ recPat' = [s \in Sids |-> {}]
           /\ total' = [s \in Sids |-> 0] /\ remoteDom' = {}
           /\ refs' = [sp \in GoodSpaces |-> [p \in PatU |-> 0]]
           /\ member' = InitMember
           /\ pend' = NoPend /\ busy' = [s \in Sids |-> "idle"] /\ pendU' = [s \in Sids |-> {}]
           /\ chk' = [s \in Sids |-> NoChk] /\ rchk' = [s \in Sids |-> NoRchk] /\ evicted' = {}
           /\ late' = [s \in Sids |-> FALSE]
           /\ tokens' = [p \in Peers |-> Burst]
           /\ want' = [s \in Sids |-> {}]
           /\ lpats' = {} /\ ring' = <<>> /\ hid' = {}
           /\ out' = NoOut

TraceInit == Init /\ l = 2
TraceNext == TrStep \/ TrReset
TraceSpec == TraceInit /\ [][TraceNext]_tvars

Mark == HwMark(l)
TraceAccepted == HwAccepted(Len(Trace))

TraceInv == NodeInv /\ RingOK
=============================================================================
