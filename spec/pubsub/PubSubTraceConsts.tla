-------------------------- MODULE PubSubTraceConsts --------------------------
(* Default constants for PubSubTrace.tla (manual runs). checks/C17.py overwrites this module in   *)
(* its scratch copy with the constants of the recorded configuration.                             *)
Tr_NStreams   == 1
Tr_StreamAcct == <<"A">>
Tr_StreamPeer == <<"pA">>
Tr_NodePeers  == {}
Tr_Accounts   == {"A", "B"}
Tr_Spaces     == {"X"}
Tr_BadSpaces  == {}
Tr_NotResp    == {}
Tr_InitMember == {<<"A", "X">>, <<"B", "X">>}
Tr_MaxPerSpace  == 100
Tr_MaxPerStream == 100
Tr_Burst      == 3
Tr_RingSize   == 2
Tr_Self       == "B"
Tr_SubFrames  == {}
Tr_LocalPats  == {}
Tr_OwnIds     == {}
Tr_FixRecheck == TRUE
=============================================================================
