INIT Init0
NEXT Next0
CONSTANTS
  NStreams = 1
  StreamAcct <- Nq_StreamAcct
  StreamPeer <- Nq_StreamPeer
  NodePeers = {}
  Accounts = {"A", "B"}
  Spaces = {"X"}
  BadSpaces = {}
  NotResp = {}
  InitMember <- Nq_Member
  SubFrames = {}
  UnsubFrames = {}
  Topics = {}
  MaxPerSpace = 100
  MaxPerStream = 100
  Burst <- NoLimit
  BroadcastDedup = TRUE
  FIX_PruneEmpty = TRUE
  FIX_Recheck = TRUE
  AllowLate = TRUE
  TrackEvicted = FALSE
  AtomicCheck = FALSE
  FlipAccounts = {"A", "B"}
  Self = "A"
  LocalPats = {}
  Msgs = {}
  OwnIds = {}
  RingSize = 1
INVARIANT Emit
INVARIANT Facts
CHECK_DEADLOCK FALSE
