---------------------------- MODULE TreeOrderGen ----------------------------
(* Behaviour generation for the replay on real object trees: TreeOrder with a history      *)
(* variable; every step records the action, its arguments and the state the specification  *)
(* predicts for the acting replica (stored order, presented order, root, heads, mode).      *)
(* Exhaustive mode: VIEW = state + last step, so every transition of the state graph is the *)
(* last step of one emitted behaviour.  Simulation mode: one behaviour per trace, emitted   *)
(* at depth GenDepth.                                                                        *)
EXTENDS TreeOrder, VerifEmit

CONSTANTS GenDepth,     \* simulation: emit at this depth (0 = exhaustive mode: emit every node)
          GenHistory,   \* emit history-tree expectations for every set of <= 2 stored heads
          GenReject,    \* generate rejected deliveries (DeliverRejected) and the step that follows them
          GenOnlyAfterReject \* exhaustive mode: emit only behaviours that end with <rejected delivery to a tree
                        \* with several heads, next step> (the rollback has to restore more than a single head)

VARIABLES hist,
          rj            \* [ph, r]: ph = 1 right after a rejected delivery to tree r, 2 one step later, else 0.
                        \* A rejected delivery leaves the state as it was, so without rj (part of the
                        \* views) the exhaustive generation would never continue a behaviour after it.
gvars == <<vars, hist, rj>>

NoRj == [ph |-> 0, r |-> 0, mh |-> FALSE]
\* after a rejected delivery the next step is taken by the same tree (other continuations are
\* those of the unchanged state)
After(r) == rj.ph # 1 \/ rj.r = r
Step == rj' = IF rj.ph = 1 THEN [rj EXCEPT !.ph = 2] ELSE NoRj

ASSUME EmitReset

HistExp(st) ==
    IF ~GenHistory THEN <<>>
    ELSE LET Hs == HistSets(StoreSet(st))
             seqHs == SetToSeq(Hs)
         IN [i \in 1..Len(seqHs) |->
               LET h == HistoryOf(st, seqHs[i])
               IN [heads |-> AscSeq(seqHs[i]), root |-> h.root, iter |-> CanonOrder(h.root, h.att)]]

ExpOf(st) == [store |-> st.store, iter |-> Iter(st), root |-> st.root,
              heads |-> AscSeq(TreeHeads(st)), mode |-> st.mode]

\* (expectations are computed from the unprimed state: TLC does not cache LET definitions when it
\* evaluates a primed expression, which makes primed recursive operators exponentially slow)
GAdd(w, id, s, sz) ==
    /\ After(w) /\ Step
    /\ Add(w, id, s, sz)
    /\ hist' = Append(hist, [act |-> "Add", r |-> w, id |-> id, isSnap |-> s, size |-> sz,
                             prev |-> AscSeq(TreeHeads(rep[w])), base |-> rep[w].root,
                             exp |-> [store |-> Append(rep[w].store, id),
                                      iter |-> IF s THEN <<id>> ELSE Append(rep[w].iter, id),
                                      root |-> IF s THEN id ELSE rep[w].root,
                                      heads |-> <<id>>,
                                      mode |-> IF s THEN "Rebuild" ELSE "Append"]])

GDeliver(dst, src, B, p) ==
    /\ After(dst) /\ Step
    /\ Deliver(dst, src, B, p)
    /\ hist' = Append(hist, [act |-> "Deliver", r |-> dst, src |-> src, batch |-> B,
                             heads |-> AscSeq(TreeHeads(rep[src])),
                             path |-> IF p THEN PathOf(rep[src]) ELSE <<>>,
                             exp |-> ExpOf(DeliverTo(rep[dst], B, TreeHeads(rep[src]),
                                                     IF p THEN PathOf(rep[src]) ELSE <<>>))])

\* a delivery whose change `bad` is refused by the receiver's validator after it was attached
GReject(dst, src, B, p, bad) ==
    /\ GenReject /\ rj.ph # 1
    /\ DeliverRejected(dst, src, B, p, bad)
    /\ rj' = [ph |-> 1, r |-> dst, mh |-> Cardinality(TreeHeads(rep[dst])) > 1]
    /\ hist' = Append(hist, [act |-> "Reject", r |-> dst, src |-> src, batch |-> B, bad |-> bad,
                             heads |-> AscSeq(TreeHeads(rep[src])),
                             path |-> IF p THEN PathOf(rep[src]) ELSE <<>>,
                             exp |-> ExpOf(RejectTo(rep[dst], B, TreeHeads(rep[src]),
                                                    IF p THEN PathOf(rep[src]) ELSE <<>>))])

GReopen(r) ==
    /\ After(r) /\ Step
    /\ hist # <<>> /\ hist[Len(hist)].act \notin {"Reopen", "Pad"}
    /\ Reopen(r)
    /\ hist' = Append(hist, [act |-> "Reopen", r |-> r, exp |-> ExpOf(ReopenOf(rep[r]))])

\* simulation only (TLC evaluates invariants on every candidate successor, so the last step of a
\* trace is forced to be the single action Done, which is where the behaviour is emitted; a
\* behaviour may idle once the universe is complete so that every trace gets there)
More == GenDepth = 0 \/ Len(hist) < GenDepth - 1
GPad  == GenDepth > 0 /\ More /\ Cardinality(Used) = MaxC + 1 /\ Step
         /\ hist' = Append(hist, [act |-> "Pad"]) /\ UNCHANGED vars
GDone == GenDepth > 0 /\ Len(hist) = GenDepth - 1 /\ Step
         /\ hist' = Append(hist, [act |-> "Done"]) /\ UNCHANGED vars

GenInit == Init /\ hist = <<>> /\ rj = NoRj
GenNext ==
    \/ /\ More
       /\ \/ \E w \in Writers, id \in Ids, s \in BOOLEAN, sz \in Sizes : GAdd(w, id, s, sz)
          \/ \E dst, src \in Replicas : \E B \in BatchesOf(rep[src].store, MaxBatch) :
                 \E p \in BOOLEAN : \/ GDeliver(dst, src, B, p)
                                    \/ \E bad \in SeqSet(B) : GReject(dst, src, B, p, bad)
          \/ \E r \in Replicas : GReopen(r)
    \/ GPad
    \/ GDone
GenSpec == GenInit /\ [][GenNext]_gvars

\* one behaviour per distinct state (its breadth-first path)
StateView == <<vars, rj>>
GenView == <<vars, rj, IF hist = <<>> THEN <<>> ELSE [hist[Len(hist)] EXCEPT !.exp = 0]>>

Universe == [c \in Used |-> [prev |-> AscSeq(Prev(c)), snap |-> Snap(c), isSnap |-> IsSnap(c), size |-> Size(c)]]
Behaviour == [spec |-> "TreeOrder", fix |-> FixCommonSnapshot,
              replicas |-> SetToSeq(Replicas),
              ids |-> AscSeq(Used), universe |-> [i \in 1..Cardinality(Used) |-> [id |-> AscSeq(Used)[i]] @@ Universe[AscSeq(Used)[i]]],
              steps |-> hist,
              final |-> [i \in 1..Cardinality(Replicas) |->
                           [r |-> SetToSeq(Replicas)[i], hist |-> HistExp(rep[SetToSeq(Replicas)[i]])]]]

EmitNow == /\ hist # <<>>
           /\ (GenDepth = 0 \/ hist[Len(hist)].act = "Done")
           /\ (GenOnlyAfterReject => rj.ph = 2 /\ rj.mh)
Emit == EmitWhen(EmitNow, Behaviour)
=============================================================================
