SPECIFICATION TraceSpec
CONSTANTS
  Replicas = {"w0", "w1", "w2", "o0", "o1", "o2", "o3"}
  Writers = {"w0", "w1", "w2"}
  MaxC = 99
  MaxSnap = 99
  MaxBatch = 1
  AllowDup = TRUE
  AllowNoPath = TRUE
  AllowStale = TRUE
  WholeOnly = FALSE
  Sizes = {1}
  FixCommonSnapshot = TRUE
  Dev_StalePathReuse = FALSE
INVARIANT TraceInv
INVARIANT TraceHistoryIsRestriction
PROPERTY TraceStepProp
CONSTRAINT Mark
POSTCONDITION TraceAccepted
CHECK_DEADLOCK FALSE
