SPECIFICATION GenSpec
CONSTANTS
  Replicas = {a, b}
  Writers = {a, b}
  MaxC = 3
  MaxSnap = 2
  MaxBatch = 3
  AllowDup = FALSE
  AllowNoPath = TRUE
  AllowStale = TRUE
  WholeOnly = FALSE
  Sizes = {1}
  FixCommonSnapshot = TRUE
  Dev_StalePathReuse = FALSE
  GenDepth = 0
  GenHistory = TRUE
  GenReject = FALSE
  GenOnlyAfterReject = FALSE
VIEW StateView
INVARIANT Emit
CHECK_DEADLOCK FALSE
