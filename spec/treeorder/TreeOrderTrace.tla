--------------------------- MODULE TreeOrderTrace ---------------------------
(* Trace validation for TreeOrder.tla: NDJSON events recorded from real object trees        *)
(* (harness/treeorder TestRandomOrder): Reset | Add | Deliver | Reject | Reopen | History.  *)
(* Every event carries the arguments of the call and the projected state of the acting tree *)
(* after it (stored order, presented order, root, heads, mode).  Each event is replayed with *)
(* the action of the design spec; if the predicted state differs from the recorded one the   *)
(* recorded state is adopted and the step counted as drift, so that the invariants and step  *)
(* properties are always evaluated on states recorded from the implementation.               *)
EXTENDS TreeOrder, VerifEmit

ASSUME HwReset /\ TLCSet(3, 0)
Trace == ndJsonDeserialize(TraceFileName)

VARIABLES l,         \* next line of the trace
          drift,     \* number of adopted (unpredicted) states so far
          lastHist   \* the history tree observed by the last event (<<>> if none)
tvars == <<vars, l, drift, lastHist>>


Matches(st, x) ==
    /\ st.store = x.store /\ st.iter = x.iter /\ st.root = x.root
    /\ AscSeq(TreeHeads(st)) = x.heads /\ st.mode = x.mode
Adopt(x) == [store |-> x.store, root |-> x.root, att |-> ToSet(x.iter), iter |-> x.iter,
             mode |-> x.mode, amb |-> FALSE, cpath |-> <<>>]

TraceInit == Init /\ l = 1 /\ drift = 0 /\ lastHist = <<>>

IsEvent(e) == l <= Len(Trace) /\ Trace[l].ev = e /\ l' = l + 1

TrReset ==
    /\ IsEvent("Reset")
    /\ ch' = (Root :> RootRec) /\ rep' = [r \in Replicas |-> FreshRep]
    /\ UNCHANGED drift /\ lastHist' = <<>>

\* a writer added a change on its heads: the universe grows by the recorded change
TrAdd ==
    /\ IsEvent("Add")
    /\ LET x   == Trace[l]
           st  == rep[x.r]
           hs  == ToSet(x.prev)
           rec == [prev |-> hs, snap |-> x.snap, isSnap |-> x.isSnap, anc |-> AncOfSet(hs),
                   sc |-> SC(x.snap) + 1, size |-> 1]
           st2 == [store |-> Append(st.store, x.id),
                   root  |-> IF x.isSnap THEN x.id ELSE st.root,
                   att   |-> IF x.isSnap THEN {x.id} ELSE st.att \cup {x.id},
                   iter  |-> IF x.isSnap THEN <<x.id>> ELSE Append(st.iter, x.id),
                   mode  |-> IF x.isSnap THEN "Rebuild" ELSE "Append",
                   amb   |-> st.amb, cpath |-> <<>>]
           \* the writer is honest: parents = its heads, snapshot base = its root (as Add)
           ok  == /\ hs = TreeHeads(st) /\ x.snap = st.root
                  /\ st2.store = x.st.store /\ st2.iter = x.st.iter /\ st2.root = x.st.root
                  /\ x.st.heads = <<x.id>> /\ st2.mode = x.st.mode
       IN /\ x.id \notin Used
          /\ ch' = ch @@ (x.id :> rec)
          /\ rep' = [rep EXCEPT ![x.r] = IF ok THEN st2 ELSE Adopt(x.st)]
          /\ drift' = drift + (IF ok THEN 0 ELSE 1)
    /\ lastHist' = <<>>

TrDeliver ==
    /\ IsEvent("Deliver")
    /\ LET x   == Trace[l]
           st2 == DeliverTo(rep[x.r], x.batch, ToSet(x.heads), x.path)
           ok  == Matches(st2, x.st)
       IN /\ rep' = [rep EXCEPT ![x.r] = IF ok THEN st2 ELSE Adopt(x.st)]
          /\ drift' = drift + (IF ok THEN 0 ELSE 1)
    /\ UNCHANGED ch /\ lastHist' = <<>>

\* a payload the tree refused after attaching the change `bad` (DeliverRejected): the tree is what it was
TrReject ==
    /\ IsEvent("Reject")
    /\ LET x   == Trace[l]
           st  == rep[x.r]
           st2 == RejectTo(st, x.batch, ToSet(x.heads), x.path)
           ok  == RejectedBy(st, x.batch, ToSet(x.heads), x.path, x.bad) /\ Matches(st2, x.st)
       IN /\ rep' = [rep EXCEPT ![x.r] = IF ok THEN st2 ELSE Adopt(x.st)]
          /\ drift' = drift + (IF ok THEN 0 ELSE 1)
    /\ UNCHANGED ch /\ lastHist' = <<>>

TrReopen ==
    /\ IsEvent("Reopen")
    /\ LET x   == Trace[l]
           st2 == ReopenOf(rep[x.r])
           ok  == Matches(st2, x.st)
       IN /\ rep' = [rep EXCEPT ![x.r] = IF ok THEN st2 ELSE Adopt(x.st)]
          /\ drift' = drift + (IF ok THEN 0 ELSE 1)
    /\ UNCHANGED ch /\ lastHist' = <<>>

TrHistory ==
    /\ IsEvent("History")
    /\ LET x  == Trace[l]
           h  == HistoryOf(rep[x.r], ToSet(x.heads))
           ok == h.root = x.hroot /\ CanonOrder(h.root, h.att) = x.hiter
       IN /\ drift' = drift + (IF ok THEN 0 ELSE 1)
          /\ lastHist' = [r |-> x.r, heads |-> ToSet(x.heads), root |-> x.hroot, iter |-> x.hiter]
    /\ UNCHANGED vars

TraceNext == TrReset \/ TrAdd \/ TrDeliver \/ TrReject \/ TrReopen \/ TrHistory
TraceSpec == TraceInit /\ [][TraceNext]_tvars

(* ---- properties, evaluated on recorded states ---- *)
TraceInv ==
    /\ TypeOK /\ Closed /\ PathIsActual /\ StoreOrderIsCanon /\ IterIsCanonRestricted /\ CausalOrder
    /\ ArrivalIndependent /\ SnapshotDominates

TraceHistoryIsRestriction ==
    lastHist # <<>> =>
        LET st == rep[lastHist.r] IN
        /\ lastHist.iter = RestrictSeq(st.store, ToSet(lastHist.iter))
        /\ ToSet(lastHist.iter) = AncOfSet(lastHist.heads) \ Anc(lastHist.root)

\* Append => prefix; stored order never renumbered; a reopened tree equals the live one
TraceStep ==
    (l <= Len(Trace) /\ Trace[l].ev \in {"Add", "Deliver", "Reject", "Reopen"}) =>
        /\ AppendImpliesPrefixStep
        /\ Trace[l].ev \in {"Reopen", "Reject"} =>
             LET r == Trace[l].r IN rep'[r].iter = rep[r].iter /\ rep'[r].root = rep[r].root
TraceStepProp == [][TraceStep]_tvars

Mark == HwMark(l) /\ TLCSet(3, drift)
TraceAccepted == /\ PrintT(<<"TRACE-DRIFT", TLCGet(3)>>)
                 /\ HwAccepted(Len(Trace))
=============================================================================
