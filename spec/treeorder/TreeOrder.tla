------------------------------ MODULE TreeOrder ------------------------------
(* Order of changes in an any-sync object tree (property C06).                          *)
(*                                                                                       *)
(* A universe DAG `ch` is grown by replicas.  Every replica is an object tree with its  *)
(* storage, modelled from objecttree.go / tree.go:                                       *)
(*   store : the stored changes as a sequence = the order of their OrderIds              *)
(*           (Storage.GetAfterOrder)                                                     *)
(*   root  : root of the in-memory tree (a snapshot; also the persisted common snapshot) *)
(*   att   : changes attached in memory                                                  *)
(*   iter  : the sequence the tree presents (IterateRoot); a function of root and att    *)
(*           (invariant IterMatches), kept explicitly so that properties about steps     *)
(*           read it from both states                                                    *)
(*   mode  : AddResult.Mode of the last addition                                         *)
(*   cpath : the snapshot path cached by ObjectTree.SnapshotPath(), kept only while it is *)
(*           STALE (<<>> = nothing cached or the cache is the path of the current root -  *)
(*           both answer the same).  The cache is reused only while it starts at the      *)
(*           current root (snapshotPathIsActual); a rebuild that moves the root back to   *)
(*           an older snapshot leaves a stale cache behind until the next call            *)
(*   amb   : sticky flag, see ObjTree!ForeignBetween                                     *)
(* Writers (replicas in Writers) are the honest writers of the design: they add changes  *)
(* on their heads (AddContent), optionally as snapshots.  Every replica (writers and pure*)
(* observers) receives arbitrary batches: any sub-sequence of what the sender stores, in *)
(* any order, with duplicates, together with the sender's heads and (optionally) its     *)
(* snapshot path; trees are reduced as the code does it (FlushAfterBuild) and can be     *)
(* closed and reopened.                                                                  *)
(*                                                                                       *)
(* One action per entry point: Add = ObjectTree.AddContent, Deliver =                    *)
(* ObjectTree.AddRawChanges, DeliverRejected = AddRawChanges whose batch attaches and is  *)
(* then refused by the validator (rolled back), Reopen = BuildObjectTree on the same      *)
(* storage.                                                                               *)
EXTENDS ObjTree

CONSTANTS Replicas,     \* all trees
          Writers,      \* subset of Replicas that create changes
          MaxC,         \* number of non-root changes (ids 1..MaxC; every unused id can be taken: all id orders)
          MaxSnap,      \* max number of snapshots among them
          MaxBatch,     \* max length of a delivered batch
          AllowDup,     \* batches may repeat an id
          AllowNoPath,  \* payloads without snapshot path (the response-collector path)
          AllowStale,   \* batches may contain changes the receiver already holds
          WholeOnly,    \* deliveries carry everything the sender stores, in stored order (larger universes)
          Sizes,        \* abstract sizes a new change can have (C09)
          Dev_StalePathReuse \* deviation (FALSE = the code): reuse the cached snapshot path while it merely
                        \* contains the current root

VARIABLES rep           \* replica state
vars == <<ch, rep>>

Ids == 1..MaxC

RootRec == [prev |-> {}, snap |-> Root, isSnap |-> TRUE, anc |-> {}, sc |-> 1, size |-> 1]
FreshRep == [store |-> <<Root>>, root |-> Root, att |-> {Root}, iter |-> <<Root>>,
             mode |-> "Nothing", amb |-> FALSE, cpath |-> <<>>]

Init == /\ ch = (Root :> RootRec)
        /\ rep = [r \in Replicas |-> FreshRep]

StoreSet(st) == SeqSet(st.store)
Iter(st)     == st.iter                             \* IterateRoot
TreeSet(st)  == SeqSet(st.iter)
TreeHeads(st) == HeadsOf(TreeSet(st))               \* ObjectTree.Heads()
LastIter(st) == st.iter[Len(st.iter)]               \* Tree.lastIteratedHeadId
\* ObjectTree.SnapshotPath(): the cached path if it is actual (snapshotPathIsActual), else the chain
\* of snapshot ids read from storage starting at the tree root
PathIsCachedActual(st) ==
    st.cpath # <<>> /\ (IF Dev_StalePathReuse THEN st.root \in SeqSet(st.cpath) ELSE st.cpath[1] = st.root)
PathOf(st)   == IF PathIsCachedActual(st) THEN st.cpath ELSE SPath(st.root)
\* ... and it caches what it returns; a cache that is the path of the current root is written <<>>
NormPath(root, p) == IF p # <<>> /\ p[1] = root THEN <<>> ELSE p
Touch(st)    == [st EXCEPT !.cpath = NormPath(st.root, PathOf(st))]
StalePath(st) == st.cpath # <<>> /\ st.cpath[1] # st.root

(* ------------------------------ AddContent ------------------------------ *)
\* objecttree.go AddContentWithValidator: parents = heads, snapshot base = tree root, order id =
\* Next(order id of the last iterated head): the change goes to the end of the stored order.
\* A snapshot replaces the in-memory tree by the single new change.
Add(w, id, snapshot, sz) ==
    LET st == rep[w]
        hs == TreeHeads(st)
        rec == [prev |-> hs, snap |-> st.root, isSnap |-> snapshot,
                anc |-> AncOfSet(hs), sc |-> SC(st.root) + 1, size |-> sz]
        \* Next(order of last) is larger than every stored order id iff the last iterated head
        \* is stored last; otherwise the position depends on id values (flagged)
        atEnd == st.store[Len(st.store)] = LastIter(st)
    IN /\ w \in Writers
       /\ id \in Ids \ Used
       /\ snapshot => Cardinality({c \in Used : c # Root /\ IsSnap(c)}) < MaxSnap
       /\ ch' = ch @@ (id :> rec)
       /\ rep' = [rep EXCEPT ![w] =
                    [store |-> Append(st.store, id),
                     root  |-> IF snapshot THEN id ELSE st.root,
                     att   |-> IF snapshot THEN {id} ELSE st.att \cup {id},
                     iter  |-> IF snapshot THEN <<id>> ELSE Append(st.iter, id),
                     mode  |-> IF snapshot THEN "Rebuild" ELSE "Append",
                     amb   |-> st.amb \/ ~atEnd,
                     \* syncTree.AddContent: CreateHeadUpdate calls SnapshotPath() on the new tree
                     cpath |-> LET nr == IF snapshot THEN id ELSE st.root
                                   IN IF Dev_StalePathReuse /\ st.cpath # <<>> /\ nr \in SeqSet(st.cpath)
                                      THEN st.cpath ELSE <<>>]]

(* ------------------------------ AddRawChanges ------------------------------ *)
\* objecttree.go addChangesToTree + AddRawChangesWithUpdater, as an operator on a replica state
\* (ch is read, not changed).  B = the raw changes of the payload in order.
DeliverTo(st, B, theirHeads, theirPath) ==
    LET storeSet == StoreSet(st)
        fresh    == SeqSet(B) \ st.att                   \* not attached in memory: unmarshalled
        newSnaps == {c \in fresh : IsSnap(c)}
        NotInTree(c) == c = Root \/ (Snap(c) # st.root /\ Snap(c) \notin newSnaps)
        oldIter  == st.iter
        oldHeads == HeadsOf(SeqSet(oldIter))
        L        == oldIter[Len(oldIter)]
        dupObj(added) == \E i, j \in 1..Len(B) : i < j /\ B[i] = B[j] /\ B[i] \in added
    IN
    IF fresh = {} THEN [st EXCEPT !.mode = "Nothing"]
    ELSE IF \E c \in fresh : NotInTree(c) THEN
        \* ---- rebuildFromStorage(theirHeads, theirPath, newChanges)
        LET snapshot == IF theirPath # <<>> THEN CommonTwoPaths(PathOf(st), theirPath)
                        ELSE SnapshotForHeads(fresh, theirHeads, st.root, storeSet)
            att1   == BuildFrom(snapshot, st.store, fresh \ {Root})
            iter1  == CanonOrder(snapshot, att1)
            heads1 == HeadsOf(SeqSet(iter1))
            \* "their heads were actually below our heads": reduce back to the old root
            back   == heads1 = oldHeads /\ st.root \in att1 /\ snapshot # st.root
        IN [store |-> InsertNew(st.store, iter1),
            root  |-> IF back THEN st.root ELSE snapshot,
            att   |-> IF back THEN att1 \ Anc(st.root) ELSE att1,
            iter  |-> IF back THEN CanonOrder(st.root, att1 \ Anc(st.root)) ELSE iter1,
            mode  |-> "Rebuild",
            amb   |-> st.amb \/ ForeignBetween(st.store, iter1),
            \* SnapshotPath() was called (and cached) before the rebuild: stale if the root moved
            cpath |-> NormPath(IF back THEN st.root ELSE snapshot, PathOf(st))]
    ELSE
        \* ---- Tree.Add + FlushAfterBuild (reduceTree)
        LET att1  == AttachClosure(st.att, fresh)
            added == att1 \ st.att
        IN IF added = {} THEN [st EXCEPT !.mode = "Nothing"]
           ELSE
           LET iter1  == CanonOrder(st.root, att1)
               heads1 == HeadsOf(SeqSet(iter1))
               \* Append iff every added change is reachable from the last iterated head (dfsNext)
               modeA  == IF added \subseteq DescEqIn(L, att1) /\ ~dupObj(added)
                         THEN "Append" ELSE "Rebuild"
               root2  == ReduceRoot(st.root, att1, heads1)
               att2   == IF root2 = st.root THEN att1 ELSE att1 \ Anc(root2)
           IN [store |-> InsertNew(st.store, iter1),
               root  |-> root2,
               att   |-> att2,
               iter  |-> IF root2 = st.root THEN iter1 ELSE CanonOrder(root2, att2),
               mode  |-> IF L \notin att2 THEN "Rebuild" ELSE modeA,
               amb   |-> st.amb \/ ForeignBetween(st.store, iter1),
               cpath |-> st.cpath]

\* the batches a sender can produce from what it stores
BatchesOf(store, n) ==
    LET S == SeqSet(store) \ {Root} IN
    IF WholeOnly THEN (IF S = {} THEN {} ELSE {Tail(store)})
    ELSE {b \in UNION {[1..k -> S] : k \in 1..n} :
             AllowDup \/ \A i, j \in 1..Len(b) : i # j => b[i] # b[j]}

Deliver(dst, src, B, withPath) ==
    LET st  == rep[dst]
        snd == rep[src]
        st2 == DeliverTo(st, B, TreeHeads(snd), IF withPath THEN PathOf(snd) ELSE <<>>)
    IN /\ dst # src
       /\ withPath \/ AllowNoPath
       /\ AllowStale \/ SeqSet(B) \cap StoreSet(st) = {}
       /\ SeqSet(B) \ st.att # {}                \* something the tree does not hold in memory
       /\ rep' = [rep EXCEPT ![dst] = st2, ![src] = IF withPath THEN Touch(snd) ELSE snd]
       /\ UNCHANGED ch

(* ------------------------------ rejected batches ------------------------------ *)
\* objecttree.go addChangesToTree when validateTree fails (e.g. a change citing an acl record the
\* receiver does not know yet, or refused by the content validator): only the changes that got
\* attached are validated, so the payload is refused iff the offending change `bad` attaches.
\*  - in-memory path: the rollback closure detaches what was attached and restores heads and
\*    lastIteratedHeadId: the tree is exactly what it was;
\*  - rebuild path: the tree built with the new changes is dropped and rebuilt from storage.
\* Nothing is written to storage.
WouldAttach(st, B, theirHeads, theirPath) ==
    LET fresh    == SeqSet(B) \ st.att
        newSnaps == {c \in fresh : IsSnap(c)}
        NotInTree(c) == c = Root \/ (Snap(c) # st.root /\ Snap(c) \notin newSnaps)
    IN IF fresh = {} THEN [rebuild |-> FALSE, new |-> {}]
       ELSE IF \E c \in fresh : NotInTree(c) THEN
            LET snapshot == IF theirPath # <<>> THEN CommonTwoPaths(PathOf(st), theirPath)
                            ELSE SnapshotForHeads(fresh, theirHeads, st.root, StoreSet(st))
            IN [rebuild |-> TRUE,
                new |-> BuildFrom(snapshot, st.store, fresh \ {Root}) \ StoreSet(st)]
       ELSE [rebuild |-> FALSE, new |-> AttachClosure(st.att, fresh) \ st.att]

ReopenOf(st) ==
    LET att1 == BuildFrom(st.root, st.store, {})
    IN [st EXCEPT !.att = att1, !.iter = CanonOrder(st.root, att1)]

RejectedBy(st, B, theirHeads, theirPath, bad) == bad \in WouldAttach(st, B, theirHeads, theirPath).new
RejectTo(st, B, theirHeads, theirPath) ==
    IF WouldAttach(st, B, theirHeads, theirPath).rebuild THEN Touch(ReopenOf(st)) ELSE st

DeliverRejected(dst, src, B, withPath, bad) ==
    LET st   == rep[dst]
        snd  == rep[src]
        path == IF withPath THEN PathOf(snd) ELSE <<>>
    IN /\ dst # src
       /\ withPath \/ AllowNoPath
       /\ AllowStale \/ SeqSet(B) \cap StoreSet(st) = {}
       /\ RejectedBy(st, B, TreeHeads(snd), path, bad)
       /\ rep' = [rep EXCEPT ![dst] = RejectTo(st, B, TreeHeads(snd), path),
                            ![src] = IF withPath THEN Touch(snd) ELSE snd]
       /\ UNCHANGED ch

(* ------------------------------ close + reopen ------------------------------ *)
\* BuildObjectTree on the same storage: buildWithAdded with the persisted common snapshot (ReopenOf)
Reopen(r) ==
    /\ rep' = [rep EXCEPT ![r] = [ReopenOf(rep[r]) EXCEPT !.cpath = <<>>]]   \* a new objectTree: nothing cached
    /\ UNCHANGED ch

Next ==
    \/ \E w \in Writers, id \in Ids, s \in BOOLEAN, sz \in Sizes : Add(w, id, s, sz)
    \/ \E dst, src \in Replicas : \E B \in BatchesOf(rep[src].store, MaxBatch) :
           \E p \in BOOLEAN : \/ Deliver(dst, src, B, p)
                              \/ \E bad \in SeqSet(B) : DeliverRejected(dst, src, B, p, bad)
    \/ \E r \in Replicas : Reopen(r)

Spec == Init /\ [][Next]_vars

\* writers are interchangeable (ids are not: their order matters)
WriterSym == Permutations(Writers)

(* ------------------------------ history trees ------------------------------ *)
\* historytree.go rebuild: BuildHistoryTree(Heads = H, IncludeBeforeId = TRUE), H # {} stored.
\* (IncludeBeforeId = FALSE with one head h is the same with H = Prev(h); H = {} loops forever in
\* commonSnapshot([]) and is excluded, see design.d/C06.md)
HistoryOf(st, H) ==
    LET snaps    == {IF h = Root THEN Root ELSE Snap(h) : h \in H}
        snapshot == IF Cardinality(snaps) = 1 THEN CHOOSE s \in snaps : TRUE
                    ELSE CommonSnapshotOf(snaps, StoreSet(st))
        maxPos   == MaxOf({Pos(st.store, h) : h \in H})
        loaded   == {st.store[i] : i \in Pos(st.store, snapshot)..maxPos}
        att1     == AttachClosure({snapshot}, loaded)
    IN [root |-> snapshot, att |-> att1 \cap AncOfSet(H \cap att1)]        \* LeaveOnlyBefore

(* -------------------------------- properties -------------------------------- *)
TypeOK ==
    /\ \A c \in Used : Prev(c) \subseteq Used /\ Snap(c) \in Used /\ Anc(c) \subseteq Used
    /\ \A r \in Replicas : /\ StoreSet(rep[r]) \subseteq Used
                           /\ rep[r].att \subseteq StoreSet(rep[r])
                           /\ rep[r].root \in rep[r].att
                           /\ Len(rep[r].store) = Cardinality(StoreSet(rep[r]))

\* what is stored is closed under parents; what is attached is exactly the stored descendants of the root
Closed ==
    \A r \in Replicas :
        /\ DownClosed(StoreSet(rep[r]))
        /\ TreeSet(rep[r]) = rep[r].att
        /\ rep[r].iter = CanonOrder(rep[r].root, rep[r].att)        \* IterMatches
        /\ rep[r].att = DescEqIn(rep[r].root, StoreSet(rep[r]))

\* the snapshot path a tree reports (and uses to find common snapshots) is the one of its root
PathIsActual == \A r \in Replicas : PathOf(rep[r]) = SPath(rep[r].root)

\* the placement of new order ids never depended on the numeric value of the ids
Unambiguous == \A r \in Replicas : ~rep[r].amb

\* stored order = canonical order of the stored set from the real root: a function of the set
StoreOrderIsCanon ==
    \A r \in Replicas : rep[r].store = CanonOrder(Root, StoreSet(rep[r]))

\* the presented order is the full order restricted to what the tree contains
IterIsCanonRestricted ==
    \A r \in Replicas :
        Iter(rep[r]) = RestrictSeq(CanonOrder(Root, StoreSet(rep[r])), TreeSet(rep[r]))

\* Storage.GetAfterAddSeq(n) / ObjectTree.IterateAfterAddSeq(n): the view of a consumer that remembers
\* the last addition it processed = the changes stored by later additions, sorted by order id.  Which
\* changes those are depends on the arrival history (deliberately not part of the state); whatever
\* set S it is, the view is the stored sequence restricted to S
AddSeqView(st, S) == RestrictSeq(st.store, S)
\* ... hence, like every other view, the full canonical order restricted to what it contains
AddSeqViewIsRestriction ==
    \A r \in Replicas :
        LET full == CanonOrder(Root, StoreSet(rep[r]))
        IN \A S \in SUBSET StoreSet(rep[r]) :
               /\ AddSeqView(rep[r], S) = RestrictSeq(full, S)
               /\ IsLinearExtension(AddSeqView(rep[r], S))

\* both orders respect causality
CausalOrder ==
    \A r \in Replicas : IsLinearExtension(rep[r].store) /\ IsLinearExtension(Iter(rep[r]))

\* replicas holding the same set store it in the same order and present consistent orders
ArrivalIndependent ==
    \A r, q \in Replicas :
        StoreSet(rep[r]) = StoreSet(rep[q]) =>
            /\ rep[r].store = rep[q].store
            /\ RestrictSeq(Iter(rep[r]), TreeSet(rep[q])) = RestrictSeq(Iter(rep[q]), TreeSet(rep[r]))

\* reopening from storage gives the live tree
ReopenEqualsLive ==
    \A r \in Replicas :
        LET o == ReopenOf(rep[r])
        IN o.root = rep[r].root /\ Iter(o) = Iter(rep[r]) /\ TreeHeads(o) = TreeHeads(rep[r])

\* heads persisted with the changes are the maximal stored changes
HeadsAreMaximal ==
    \A r \in Replicas : TreeHeads(rep[r]) = HeadsOf(StoreSet(rep[r]))

HistSets(S) == {{a} : a \in S} \cup {{a, b} : a, b \in S}
\* a history tree presents the full order restricted to its content, and its content is
\* everything at or below the requested heads that is not below its root
HistoryTreeIsRestriction ==
    \A r \in Replicas : \A H \in HistSets(StoreSet(rep[r])) :
        LET h == HistoryOf(rep[r], H)
            it == CanonOrder(h.root, h.att)
        IN /\ it = RestrictSeq(rep[r].store, SeqSet(it))
           /\ SeqSet(it) = h.att
           /\ h.att = AncOfSet(H) \ Anc(h.root)
           /\ HeadsOf(h.att) = HeadsOf(AncOfSet(H))

\* honest structure the implementation relies on (documented, checked): the ancestors of a
\* change are descendants of, equal to, or ancestors of the snapshot it cites
SnapshotDominates ==
    \A c \in Used \ {Root} :
        /\ Snap(c) \in Anc(c) /\ IsSnap(Snap(c))
        /\ \A a \in Anc(c) : Snap(c) \in AncEq(a) \/ a \in Anc(Snap(c))

Inv == TypeOK /\ Closed /\ PathIsActual /\ Unambiguous /\ StoreOrderIsCanon /\ IterIsCanonRestricted /\ AddSeqViewIsRestriction
       /\ CausalOrder /\ ArrivalIndependent /\ ReopenEqualsLive /\ HeadsAreMaximal /\ SnapshotDominates

\* when an addition reports Append, the previously presented sequence is a prefix of the new one;
\* stored order ids are never renumbered (the old stored order is a sub-sequence of the new one)
AppendImpliesPrefixStep ==
    \A r \in Replicas :
        /\ (rep'[r] # rep[r] /\ rep'[r].mode = "Append") => IsPrefixOf(rep[r].iter, rep'[r].iter)
        /\ RestrictSeq(rep'[r].store, StoreSet(rep[r])) = rep[r].store
AppendImpliesPrefix == [][AppendImpliesPrefixStep]_vars
=============================================================================
