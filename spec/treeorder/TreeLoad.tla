------------------------------ MODULE TreeLoad ------------------------------
(* Full-sync responses (property C09): what loaditerator.go streams in answer to a request  *)
(* (requester heads + requester snapshot path) with a batch size limit.                     *)
(*                                                                                           *)
(* The states are those of TreeOrder.tla (replicas that add, exchange arbitrary batches,     *)
(* reduce, reopen): every ordered pair of replicas of every reachable state is a             *)
(* (responder, requester) pair - diverged, one ahead, responder reduced to a later snapshot, *)
(* concurrent snapshots, requester heads unknown / partly known to the responder - and is    *)
(* combined with every limit from 1 to more than the size of the responder's tree.           *)
EXTENDS TreeOrder

(* ---- loaditerator.go ---- *)
\* load(): marks the known requester heads and their ancestors (inside the cache) as not-to-send
RECURSIVE ClosureIn(_, _)
ClosureIn(R, cache) ==
    LET n == (UNION {Prev(c) : c \in R}) \cap cache
    IN IF n \subseteq R THEN R ELSE ClosureIn(R \cup n, cache)

EmptyBatch == [ids |-> <<>>, size |-> 0, heads |-> {}]

\* NextBatch(): walk the stored order from the cursor; removed entries only update the running
\* heads; a batch closes when adding the next change would reach the limit, unless it is empty
RECURSIVE Walk(_, _, _, _, _, _)
Walk(tail, i, removed, limit, cur, done) ==
    IF i > Len(tail) THEN Append(done, cur)
    ELSE LET c  == tail[i]
             hs == (cur.heads \ Prev(c)) \cup {c}
         IN IF c \in removed
              THEN Walk(tail, i + 1, removed, limit, [cur EXCEPT !.heads = hs], done)
            ELSE IF cur.size + Size(c) >= limit /\ cur.ids # <<>>
              THEN Walk(tail, i, removed, limit, EmptyBatch, Append(done, cur))
            ELSE Walk(tail, i + 1, removed, limit,
                      [ids |-> Append(cur.ids, c), size |-> cur.size + Size(c), heads |-> hs], done)

\* ObjectTree.ChangesAfterCommonSnapshotLoader(theirPath, theirHeads) + NextBatch(limit) until exhausted
CommonFor(resp, theirPath) ==
    IF theirPath = <<>> THEN Root ELSE CommonTwoPaths(PathOf(resp), theirPath)
LoadPlan(resp, theirHeads, theirPath, limit) ==
    LET common  == CommonFor(resp, theirPath)
        tail    == SubSeq(resp.store, Pos(resp.store, common), Len(resp.store))
        cache   == SeqSet(tail)
        removed == ClosureIn(theirHeads \cap cache, cache)
    IN Walk(tail, 1, removed, limit, EmptyBatch, <<>>)

\* synchandler.go HandleStreamRequest sends batches until the first one without changes
Sent(plan) == SelectSeq(plan, LAMBDA b : b.ids # <<>>)
RECURSIVE Concat(_, _)
Concat(bs, i) == IF i > Len(bs) THEN <<>> ELSE bs[i].ids \o Concat(bs, i + 1)
AllIds(plan) == Concat(plan, 1)

TotalSize(st) == LET RECURSIVE Sum(_)
                     Sum(i) == IF i = 0 THEN 0 ELSE Size(st.store[i]) + Sum(i - 1)
                 IN Sum(Len(st.store))
Limits(st) == 1..(TotalSize(st) + 1)

(* ---- requester side ---- *)
\* synctree.go AddRawChangesFromPeer: a payload whose heads the tree already has is skipped
ApplyFromPeer(st, b, path) ==
    IF b.heads = TreeHeads(st) \/ b.heads \subseteq st.att THEN st
    ELSE DeliverTo(st, b.ids, b.heads, path)
RECURSIVE ApplyAll(_, _, _, _)
ApplyAll(st, bs, i, path) ==
    IF i > Len(bs) THEN st ELSE ApplyAll(ApplyFromPeer(st, bs[i], path), bs, i + 1, path)
\* every batch is held by the requester once it has been applied
RECURSIVE AppliedOk(_, _, _, _)
AppliedOk(st, bs, i, path) ==
    IF i > Len(bs) THEN TRUE
    ELSE LET st2 == ApplyFromPeer(st, bs[i], path)
         IN SeqSet(bs[i].ids) \subseteq StoreSet(st2) /\ AppliedOk(st2, bs, i + 1, path)
\* responsecollector.go + ValidateRawTreeDefault: a peer without the tree builds it from the
\* first batch (whose announced heads must be the resulting heads) and adds the others
\* without snapshot path
RECURSIVE FreshOk(_, _, _)
FreshOk(st, bs, i) ==
    IF i > Len(bs) THEN TRUE
    ELSE LET st2 == DeliverTo(st, bs[i].ids, bs[i].heads, <<>>)
         IN /\ SeqSet(bs[i].ids) \subseteq StoreSet(st2)
            /\ i = 1 => TreeHeads(st2) = bs[i].heads
            /\ FreshOk(st2, bs, i + 1)

(* -------------------------------- properties -------------------------------- *)
Pairs == {p \in Replicas \X Replicas : p[1] # p[2]}

\* Q(resp, req, limit, sent plan)
ForAllPlans(Q(_, _, _, _)) ==
    \A p \in Pairs :
        LET resp == rep[p[1]]
            req  == rep[p[2]]
        IN \A limit \in Limits(resp) :
               Q(resp, req, limit, Sent(LoadPlan(resp, TreeHeads(req), PathOf(req), limit)))

\* every change the responder holds and the requester lacks is sent, none twice
Complete ==
    ForAllPlans(LAMBDA resp, req, limit, bs :
        LET all == AllIds(bs)
        IN /\ StoreSet(resp) \ StoreSet(req) \subseteq SeqSet(all)
           /\ Cardinality(SeqSet(all)) = Len(all)
           /\ SeqSet(all) \subseteq StoreSet(resp))

\* nothing at or below a requester head the responder knows is sent again
NothingKnownResent ==
    ForAllPlans(LAMBDA resp, req, limit, bs :
        SeqSet(AllIds(bs)) \cap AncOfSet(TreeHeads(req) \cap StoreSet(resp)) = {})

\* a change comes after all of its parents that the requester does not already have
CausalPerBatch ==
    ForAllPlans(LAMBDA resp, req, limit, bs :
        LET all == AllIds(bs)
        IN \A i \in 1..Len(all) :
               \A q \in Prev(all[i]) \ StoreSet(req) : \E j \in 1..(i - 1) : all[j] = q)

WithinLimitOrSingleton ==
    ForAllPlans(LAMBDA resp, req, limit, bs :
        \A k \in 1..Len(bs) : Len(bs[k].ids) = 1 \/ bs[k].size <= limit)

\* announced heads: held by the responder; sent so far or at/below a requester head; pairwise
\* unrelated; above every change of the batch; not all known to the requester if the batch brings
\* something new (the receiver skips payloads whose heads it has)
HeadsConsistent ==
    ForAllPlans(LAMBDA resp, req, limit, bs :
        \A k \in 1..Len(bs) :
            LET b      == bs[k]
                sofar  == UNION {SeqSet(bs[j].ids) : j \in 1..k}
            IN /\ b.heads \subseteq StoreSet(resp)
               /\ \A h \in b.heads : h \in sofar \/ h \in AncOfSet(TreeHeads(req))
               /\ \A h, g \in b.heads : h # g => h \notin Anc(g)
               /\ \A c \in SeqSet(b.ids) : \E h \in b.heads : c \in AncEq(h)
               /\ (SeqSet(b.ids) \ StoreSet(req) # {}) => ~(b.heads \subseteq StoreSet(req)))

\* applying the batches in order (HandleResponse: heads + responder path) attaches all of them
AppliesCleanly ==
    ForAllPlans(LAMBDA resp, req, limit, bs : AppliedOk(req, bs, 1, PathOf(resp)))

\* an empty-heads request returns the whole tree in stored order, and a peer without the tree
\* can build it from the batches
EmptyHeadsReturnsAll ==
    \A r \in Replicas : \A limit \in Limits(rep[r]) :
        LET bs == Sent(LoadPlan(rep[r], {}, <<>>, limit))
        IN /\ AllIds(bs) = rep[r].store
           /\ FreshOk(FreshRep, bs, 1)

LoadInv == Complete /\ NothingKnownResent /\ CausalPerBatch /\ WithinLimitOrSingleton /\ HeadsConsistent
           /\ AppliesCleanly /\ EmptyHeadsReturnsAll
=============================================================================
