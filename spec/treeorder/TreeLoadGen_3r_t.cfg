SPECIFICATION GenSpec
CONSTANTS
  Replicas = {a, b, c}
  Writers = {a, b}
  MaxC = 2
  MaxSnap = 2
  MaxBatch = 2
  AllowDup = FALSE
  AllowNoPath = TRUE
  AllowStale = FALSE
  WholeOnly = FALSE
  Sizes = {1}
  FixCommonSnapshot = TRUE
  Dev_StalePathReuse = FALSE
  GenDepth = 0
  GenHistory = FALSE
  GenReject = FALSE
  GenOnlyAfterReject = FALSE
  GenOnlyStale = FALSE
VIEW LoadView
INVARIANT EmitLoad
CHECK_DEADLOCK FALSE
