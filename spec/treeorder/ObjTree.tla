------------------------------- MODULE ObjTree -------------------------------
(* Pure operators over a universe of changes (the change DAG of one object tree of       *)
(* any-sync), written from commonspace/object/tree/objecttree:                          *)
(*   tree.go (attach / updateHeads / Add), treeiterator.go (topSort), treereduce.go,    *)
(*   treebuilder.go (buildWithAdded, lowestSnapshots, commonSnapshot), util.go          *)
(*   (commonSnapshotForTwoPaths), loaditerator.go (load / NextBatch).                   *)
(*                                                                                       *)
(* Ids are naturals; their numeric order stands for the lexical order of the real ids   *)
(* (content ids).  Root = 0.  The universe `ch` maps an id to                            *)
(*   [prev : set of ids, snap : id of the snapshot the change is based on,               *)
(*    isSnap : BOOLEAN, anc : set of strict ancestors (derived, kept to make Anc O(1)),  *)
(*    sc : snapshot counter (depth of the change in the snapshot chain, root = 1),       *)
(*    size : abstract byte size (C09)].                                                  *)
EXTENDS Integers, Sequences, FiniteSets, TLC, SequencesExt

CONSTANT FixCommonSnapshot  \* TRUE: treebuilder.commonSnapshot compares snapshots by id (repaired);
                            \* FALSE: compares by *parent* snapshot id (the code before the repair)

VARIABLE ch

Root == 0
Used == DOMAIN ch

Prev(c)   == ch[c].prev
Snap(c)   == ch[c].snap
IsSnap(c) == ch[c].isSnap
Anc(c)    == ch[c].anc
AncEq(c)  == ch[c].anc \cup {c}
Size(c)   == ch[c].size
SC(c)     == ch[c].sc
AncOfSet(S)   == UNION {AncEq(c) : c \in S}
DescEqIn(r, S) == {c \in S : r \in AncEq(c)}
\* maximal elements of a set of changes
HeadsOf(S) == {c \in S : \A d \in S : c \notin Prev(d)}
DownClosed(S) == \A c \in S : Prev(c) \subseteq S

MaxOf(S) == CHOOSE x \in S : \A y \in S : y <= x
MinOf(S) == CHOOSE x \in S : \A y \in S : x <= y
SeqSet(s) == {s[i] : i \in 1..Len(s)}
AscSeq(S)  == SetToSortSeq(S, LAMBDA a, b : a < b)
DescSeq(S) == SetToSortSeq(S, LAMBDA a, b : a > b)
Pos(s, x) == CHOOSE i \in 1..Len(s) : s[i] = x
RestrictSeq(s, S) == SelectSeq(s, LAMBDA x : x \in S)
IsPrefixOf(s, t) == Len(s) <= Len(t) /\ \A i \in 1..Len(s) : s[i] = t[i]

(* ------------------------------ snapshot paths ------------------------------ *)
\* ObjectTree.SnapshotPath(): from a tree root (a snapshot) down the SnapshotId chain to the root
RECURSIVE SPath(_)
SPath(s) == IF s = Root THEN <<Root>> ELSE <<s>> \o SPath(Snap(s))

\* util.go commonSnapshotForTwoPaths (both paths end in Root for honest trees); "none" = ErrNoCommonSnapshot
CommonTwoPaths(our, their) ==
    LET Matches == {i \in 1..Len(our) : \E j \in 1..Len(their) : our[i] = their[j]}
    IN IF Matches = {} THEN -1
       ELSE LET i0 == MaxOf(Matches)
                j0 == MaxOf({j \in 1..Len(their) : their[j] = our[i0]})
                \* walk to the left while equal
                Run == {k \in 0..(IF i0 < j0 THEN i0 ELSE j0) - 1 :
                           \A m \in 0..k : our[i0 - m] = their[j0 - m]}
            IN our[i0 - MaxOf(Run)]

\* treebuilder.go commonSnapshot(snapshots): snapshots not in `have` (storage) are skipped.
\* Equalise snapshot counters, then walk all branches down in lock step until one is left.
RECURSIVE DownTo(_, _)
DownTo(s, k) == IF SC(s) > k THEN DownTo(Snap(s), k) ELSE s
RECURSIVE CsLoop(_)
CsLoop(cur) ==
    \* repaired: duplicates are identical snapshots; a single survivor is the answer
    IF Cardinality(cur) = 1 THEN CHOOSE s \in cur : TRUE
    ELSE CsLoop({Snap(s) : s \in cur})
\* the code before the repair sorted and de-duplicated by the *parent* snapshot id and returned the
\* survivor: with two sibling snapshots it answers one of the siblings (the sort is not stable,
\* the smaller id is what pdqsort leaves first for the sizes that occur; modelled as Min)
RECURSIVE CsLoopOld(_)
CsLoopOld(cur) ==
    LET parents == {Snap(s) : s \in cur}
        survivors == {MinOf({s \in cur : Snap(s) = p}) : p \in parents}
    IN IF Cardinality(survivors) = 1 THEN CHOOSE s \in survivors : TRUE
       ELSE CsLoopOld({Snap(s) : s \in survivors})
CommonSnapshotOf(snaps, have) ==
    LET cur0 == snaps \cap have
        low  == MinOf({SC(s) : s \in cur0})
        cur  == {DownTo(s, low) : s \in cur0}
    IN IF FixCommonSnapshot THEN CsLoop(cur) ELSE CsLoopOld(cur)

\* mathematical definition used by the properties: the deepest snapshot lying on the snapshot
\* chain of every element of hs (an element that is a snapshot starts its chain at itself)
ChainOf(c) == SeqSet(SPath(IF IsSnap(c) THEN c ELSE Snap(c)))
DeepestCommon(hs) ==
    LET common == {s \in Used : \A h \in hs : s \in ChainOf(h)}
    IN CHOOSE s \in common : \A t \in common : SC(t) <= SC(s)

(* ------------------------------ canonical order ------------------------------ *)
Children(c, S) == {d \in S : c \in Prev(d)}
\* treeiterator.go topSort: iterative DFS, children pushed in Next order (ascending id), so the
\* largest id is visited first; a change is emitted after all its children (post-order);
\* iterate() walks the buffer backwards.  Hence: reverse post-order, smaller-id subtrees first.
\* stack = work stack, vis = visited flags, fin = branchesFinished flags, res = resBuf
RECURSIVE TopSort(_, _, _, _, _)
TopSort(stack, vis, fin, res, S) ==
    IF stack = <<>> THEN res
    ELSE LET c    == stack[Len(stack)]
             rest == SubSeq(stack, 1, Len(stack) - 1)
         IN IF c \in fin THEN TopSort(rest, vis, fin \ {c}, Append(res, c), S)   \* second visit: emit
            ELSE IF c \in vis THEN TopSort(rest, vis, fin, res, S)
            ELSE TopSort(Append(rest, c) \o AscSeq({d \in Children(c, S) : d \notin vis}),
                         vis \cup {c}, fin \cup {c}, res, S)
\* the sequence a tree with root r and attached set S presents (IterateRoot)
CanonOrder(r, S) == Reverse(TopSort(<<r>>, {}, {}, <<>>, S))
Reachable(r, S) == SeqSet(CanonOrder(r, S))

IsLinearExtension(s) ==
    \A i, j \in 1..Len(s) : (s[i] \in Anc(s[j])) => i < j

(* ------------------------------ attaching ------------------------------ *)
\* tree.go add / canAttachOrRemove / attach (wait list): a change is attached once all its
\* parents and the snapshot it cites are attached; what cannot be attached at the end of an Add
\* is forgotten (clearUnattached)
RECURSIVE AttachClosure(_, _)
AttachClosure(att, B) ==
    LET new == {c \in B \ att : Prev(c) \subseteq att /\ Snap(c) \in att}
    IN IF new = {} THEN att ELSE AttachClosure(att \cup new, B)

\* treereduce.go reduceTree: the new root of a tree (root, att) with the given heads
\* (result = root when nothing changes)
RECURSIVE UpToPath(_, _, _)
UpToPath(s, pathSet, att) ==       \* first snapshot of the chain of s that lies on the path
    IF s \in pathSet THEN s
    ELSE IF s \notin att \/ s = Root THEN -1
    ELSE UpToPath(Snap(s), pathSet, att)
RECURSIVE TreePath(_, _, _)
TreePath(s, root, att) ==          \* chain from s down to the tree root, inside the tree
    IF s = root THEN <<root>>
    ELSE IF s \notin att \/ s = Root THEN <<-1>>
    ELSE <<s>> \o TreePath(Snap(s), root, att)
ReduceRoot(root, att, heads) ==
    LET first == MinOf(heads) IN
    IF Cardinality(heads) = 1 /\ IsSnap(first) THEN first
    ELSE IF Snap(first) \notin att THEN root
    ELSE IF Cardinality(heads) = 1 THEN Snap(first)
    ELSE LET path == TreePath(Snap(first), root, att)
             hits == {UpToPath(Snap(h), SeqSet(path), att) : h \in heads \ {first}}
         IN IF -1 \in SeqSet(path) \/ -1 \in hits THEN root
            ELSE path[MaxOf({Pos(path, x) : x \in hits} \cup {1})]

(* ------------------------------ order ids ------------------------------ *)
\* tree.go updateHeads: walking the presented sequence, every run of changes without an order id
\* gets ids strictly between its ordered neighbours (after the last ordered one at the end);
\* existing ids are never touched.  The stored order is modelled as a sequence: the run is put
\* right after its left neighbour.  (ForeignBetween says whether that is well defined.)
RECURSIVE InsertRuns(_, _, _, _)
InsertRuns(store, iter, i, lastOrdered) ==
    IF i > Len(iter) THEN store
    ELSE IF iter[i] \in SeqSet(store) THEN InsertRuns(store, iter, i + 1, iter[i])
    ELSE LET p == Pos(store, lastOrdered)
         IN InsertRuns(SubSeq(store, 1, p) \o <<iter[i]>> \o SubSeq(store, p + 1, Len(store)),
                       iter, i + 1, iter[i])
InsertNew(store, iter) == InsertRuns(store, iter, 1, iter[1])

\* TRUE iff some run of new changes would be placed between two ordered neighbours that have a
\* stored change outside the presented tree between them (the placement would then depend on the
\* numeric values of the order ids)
ForeignBetween(store, iter) ==
    \E i \in 1..Len(iter) - 1 :
        /\ iter[i] \in SeqSet(store) /\ iter[i+1] \notin SeqSet(store)
        /\ \E j \in i+2..Len(iter) :
             /\ iter[j] \in SeqSet(store)
             /\ \A k \in i+1..j-1 : iter[k] \notin SeqSet(store)
             /\ \E m \in Pos(store, iter[i]) + 1..Pos(store, iter[j]) - 1 : store[m] \notin SeqSet(iter)

(* ------------------------------ building from storage ------------------------------ *)
\* treebuilder.go buildWithAdded: everything stored from the snapshot on (in stored order) plus the
\* new changes, attached starting from the snapshot
BuildFrom(snapshot, store, new) ==
    LET loaded == {store[i] : i \in Pos(store, snapshot)..Len(store)}
    IN AttachClosure({snapshot}, loaded \cup new)

\* treebuilder.go lowestSnapshots(cache, theirHeads, ourRoot) followed by commonSnapshot
RECURSIVE LowestOf(_, _)
LowestOf(s, cache) == IF s \in cache /\ s # Root THEN LowestOf(Snap(s), cache) ELSE s
SnapshotForHeads(cache, theirHeads, ourRoot, have) ==
    LET lowest == {LowestOf(Snap(h), cache) : h \in (theirHeads \cap cache) \ {Root}} \cup {ourRoot}
    IN IF Cardinality(lowest) = 1 THEN ourRoot ELSE CommonSnapshotOf(lowest, have)

=============================================================================
