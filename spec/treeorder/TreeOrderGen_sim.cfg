SPECIFICATION GenSpec
CONSTANTS
  Replicas = {a, b, c}
  Writers = {a, b}
  MaxC = 5
  MaxSnap = 3
  MaxBatch = 3
  AllowDup = TRUE
  AllowNoPath = TRUE
  AllowStale = TRUE
  WholeOnly = FALSE
  Sizes = {1}
  FixCommonSnapshot = TRUE
  Dev_StalePathReuse = FALSE
  GenDepth = 11
  GenHistory = TRUE
  GenReject = TRUE
  GenOnlyAfterReject = FALSE
INVARIANT Emit
CHECK_DEADLOCK FALSE
