SPECIFICATION GenSpec
CONSTANTS
  Replicas = {a, b}
  Writers = {a, b}
  MaxC = 4
  MaxSnap = 0
  MaxBatch = 1
  AllowDup = FALSE
  AllowNoPath = FALSE
  AllowStale = FALSE
  WholeOnly = FALSE
  Sizes = {1}
  FixCommonSnapshot = TRUE
  Dev_StalePathReuse = FALSE
  GenDepth = 0
  GenHistory = FALSE
  GenReject = TRUE
  GenOnlyAfterReject = TRUE
VIEW GenView
INVARIANT Emit
CHECK_DEADLOCK FALSE
