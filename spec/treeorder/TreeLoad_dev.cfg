SPECIFICATION Spec
CONSTANTS
  Replicas = {a, b, c}
  Writers = {a, b}
  MaxC = 2
  MaxSnap = 2
  MaxBatch = 3
  AllowDup = FALSE
  AllowNoPath = TRUE
  AllowStale = FALSE
  WholeOnly = FALSE
  Sizes = {1}
  FixCommonSnapshot = TRUE
  Dev_StalePathReuse = TRUE
INVARIANT TypeOK
INVARIANT Complete
INVARIANT NothingKnownResent
INVARIANT CausalPerBatch
INVARIANT WithinLimitOrSingleton
INVARIANT HeadsConsistent
INVARIANT AppliesCleanly
INVARIANT EmptyHeadsReturnsAll
CHECK_DEADLOCK FALSE
SYMMETRY WriterSym
