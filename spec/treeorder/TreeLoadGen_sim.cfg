SPECIFICATION GenSpec
CONSTANTS
  Replicas = {a, b}
  Writers = {a, b}
  MaxC = 4
  MaxSnap = 2
  MaxBatch = 3
  AllowDup = FALSE
  AllowNoPath = TRUE
  AllowStale = FALSE
  WholeOnly = FALSE
  Sizes = {1, 2}
  FixCommonSnapshot = TRUE
  Dev_StalePathReuse = FALSE
  GenDepth = 9
  GenHistory = FALSE
  GenReject = FALSE
  GenOnlyAfterReject = FALSE
INVARIANT EmitLoad
CHECK_DEADLOCK FALSE
