---------------------------- MODULE TreeLoadGen ----------------------------
(* Behaviour generation for the C09 replay: the steps that build the replicas (as in        *)
(* TreeOrderGen) plus, for the state reached, the response plan the specification predicts   *)
(* for every (responder, requester) pair and every limit, and for a requester without the    *)
(* tree.  One behaviour per distinct state (VIEW = state) in exhaustive mode.                *)
EXTENDS TreeOrderGen, TreeLoad

CONSTANT GenOnlyStale   \* emit only states in which some tree holds a stale cached snapshot path (it was
                        \* reduced to a snapshot and then rebuilt back to an older one by a concurrent branch)

MaxLimit == (MaxC + 1) * MaxOf(Sizes) + 1
PlanExp(bs) == [k \in 1..Len(bs) |-> [ids |-> bs[k].ids, heads |-> AscSeq(bs[k].heads), size |-> bs[k].size]]

PairLoads ==
    {[resp |-> p[1], req |-> p[2], limit |-> limit,
      heads |-> AscSeq(TreeHeads(rep[p[2]])), path |-> PathOf(rep[p[2]]),
      batches |-> PlanExp(Sent(LoadPlan(rep[p[1]], TreeHeads(rep[p[2]]), PathOf(rep[p[2]]), limit)))]
        : p \in Pairs, limit \in 1..MaxLimit}
FreshLoads ==
    {[resp |-> r, req |-> "fresh", limit |-> limit, heads |-> <<>>, path |-> <<>>,
      batches |-> PlanExp(Sent(LoadPlan(rep[r], {}, <<>>, limit)))]
        : r \in Replicas, limit \in 1..MaxLimit}

LoadBehaviour == [loads |-> SetToSeq({l \in PairLoads : l.limit <= TotalSize(rep[l.resp]) + 1}) \o SetToSeq({l \in FreshLoads : l.limit <= TotalSize(rep[l.resp]) + 1})] @@ Behaviour

LoadView == <<vars, rj>>
EmitLoad == EmitWhen(EmitNow /\ (GenOnlyStale => \E r \in Replicas : StalePath(rep[r])), LoadBehaviour)
=============================================================================
