SPECIFICATION Spec
CONSTANTS
  Replicas = {a, b, c}
  Writers = {a, b}
  MaxC = 3
  MaxSnap = 2
  MaxBatch = 2
  AllowDup = TRUE
  AllowNoPath = TRUE
  AllowStale = TRUE
  WholeOnly = FALSE
  Sizes = {1}
  FixCommonSnapshot = TRUE
  Dev_StalePathReuse = FALSE
INVARIANT Inv
INVARIANT HistoryTreeIsRestriction
PROPERTY AppendImpliesPrefix
CHECK_DEADLOCK FALSE
SYMMETRY WriterSym
