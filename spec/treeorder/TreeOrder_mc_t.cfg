SPECIFICATION Spec
CONSTANTS
  Replicas = {a, b}
  Writers = {a, b}
  MaxC = 4
  MaxSnap = 2
  MaxBatch = 3
  AllowDup = FALSE
  AllowNoPath = TRUE
  AllowStale = TRUE
  WholeOnly = FALSE
  Sizes = {1}
  FixCommonSnapshot = TRUE
  Dev_StalePathReuse = FALSE
INVARIANT Inv
INVARIANT HistoryTreeIsRestriction
PROPERTY AppendImpliesPrefix
CHECK_DEADLOCK FALSE
SYMMETRY WriterSym
