SPECIFICATION GenSpec
CONSTANTS
  Replicas = {a, b}
  Writers = {a, b}
  MaxC = 2
  MaxSnap = 2
  MaxBatch = 2
  AllowDup = TRUE
  AllowNoPath = TRUE
  AllowStale = TRUE
  WholeOnly = FALSE
  Sizes = {1}
  FixCommonSnapshot = TRUE
  GenDepth = 0
  GenHistory = TRUE
  GenReject = TRUE
VIEW GenView
INVARIANT Emit
CHECK_DEADLOCK FALSE
