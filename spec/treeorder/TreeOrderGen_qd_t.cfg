SPECIFICATION GenSpec
CONSTANTS
  Replicas = {a, b}
  Writers = {a, b}
  MaxC = 2
  MaxSnap = 2
  MaxBatch = 2
  AllowDup = TRUE
  AllowNoPath = TRUE
  AllowStale = TRUE
  WholeOnly = FALSE
  Sizes = {1}
  FixCommonSnapshot = TRUE
  Dev_StalePathReuse = FALSE
  GenDepth = 0
  GenHistory = TRUE
  GenReject = TRUE
  GenOnlyAfterReject = FALSE
VIEW GenView
INVARIANT Emit
CHECK_DEADLOCK FALSE
