------------------------------- MODULE AclCex -------------------------------
(* "As-is" instances: Acl with one FIX_* deviation switched off (the validator as it was    *)
(* found).  TLC is expected to VIOLATE a property here; the counterexample (dumped with      *)
(* -dumpTrace json) is executed on the real list by the harness: on an unrepaired tree it    *)
(* reproduces (VIOLATION), on a repaired tree the real list refuses the offending record.    *)
(* meta.json gives the harness the account set and the start-state prefix.                   *)
EXTENDS AclMC, VerifEmit
MetaLite == [ accSeq |-> AccSeq, invIds |-> InvIds, initPerm |-> InitPerm, initRemoved |-> InitRemoved,
              initPrefix |-> InitPrefix, init |-> InitState, alphabet |-> <<>>,
              fix |-> [accept_kind |-> FIX_ACCEPT_KIND, accept_noperm |-> FIX_ACCEPT_NOPERM,
                       owner_not_guest |-> FIX_OWNER_NOT_GUEST, permchange_member |-> FIX_PERMCHANGE_MEMBER,
                       one_rotation |-> FIX_ONE_ROTATION] ]
ASSUME JsonSerialize(EmitDir \o "/meta.json", MetaLite)
=============================================================================
