SPECIFICATION GSpec
CONSTANTS
  AccSeq <- SeqA
  InitPerm <- PermA
  InitRemoved <- RemA
  InvIds <- Inv2
  MaxDepth = 9
  Honest = FALSE
  FIX_ACCEPT_KIND = TRUE
  FIX_ACCEPT_NOPERM = TRUE
  FIX_OWNER_NOT_GUEST = TRUE
  FIX_PERMCHANGE_MEMBER = TRUE
  FIX_ONE_ROTATION = TRUE
  GenDepth = 1
  FullDepth = 1
  BatchDepth = 0
  SimDepth = 0
  SimSample = 1
CONSTRAINT GBound
VIEW GView
INVARIANT Emit
CHECK_DEADLOCK FALSE
