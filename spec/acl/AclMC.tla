------------------------------- MODULE AclMC -------------------------------
(* Model-checking instances of Acl: account sets / start states.                  *)
EXTENDS Acl

\* A: owner, two admins, writer, outsider         (admin-vs-admin routes)
SeqA  == <<"o", "a1", "a2", "w", "x">>
PermA == [o |-> "owner", a1 |-> "admin", a2 |-> "admin", w |-> "writer", x |-> "none"]
RemA  == {}
\* B: owner, admin, reader, guest, outsider, removed member
SeqB  == <<"o", "a1", "r", "g", "x", "z">>
PermB == [o |-> "owner", a1 |-> "admin", r |-> "reader", g |-> "guest", x |-> "none", z |-> "none"]
RemB  == {"z"}
\* C: owner, admin, writer, guest, outsider, removed member (key-layer histories)
SeqC  == <<"o", "a1", "w", "x", "z">>
PermC == [o |-> "owner", a1 |-> "admin", w |-> "writer", x |-> "none", z |-> "none"]
RemC  == {"z"}
\* D: small: owner, admin, outsider, removed
SeqD  == <<"o", "a1", "x", "z">>
PermD == [o |-> "owner", a1 |-> "admin", x |-> "none", z |-> "none"]
RemD  == {"z"}
\* E: minimal: owner, admin, outsider (deep as-is counterexamples)
SeqE  == <<"o", "a1", "x">>
PermE == [o |-> "owner", a1 |-> "admin", x |-> "none"]
RemE  == {}
Inv2 == <<"i1", "i2">>
Inv3 == <<"i1", "i2", "i3">>
=============================================================================
