------------------------------- MODULE AclGen -------------------------------
(* Behaviour generation for the replay on the real AclList (C04/C05 binding).               *)
(* One JSON file per emitted model state: a witness path (records accepted from the start   *)
(* state), the state, every accepted single-content record with the predicted post-state,   *)
(* for "full" states the verdict (first failing guard) of EVERY record of the alphabet, and *)
(* for states near the root every accepted 2-content batch.  meta.json carries the alphabet *)
(* (index-aligned with the verdict arrays), the start-state prefix and the constants.       *)
(* Exhaustive mode (VIEW s): every state reachable by <= GenDepth records, shortest path.   *)
(* Simulation mode (-simulate): the state at the end of each random behaviour of SimDepth   *)
(* records.  Run with -workers 1.                                                           *)
EXTENDS AclMC, VerifEmit, SequencesExt

CONSTANTS GenDepth,    \* exhaustive mode: states reachable by at most GenDepth records are emitted
          FullDepth,   \* emitted states at depth <= FullDepth carry the verdict of the whole alphabet
          BatchDepth,  \* emitted states at depth <= BatchDepth carry every accepted 2-content batch
          SimDepth,    \* simulation mode: emit states reached after exactly SimDepth records (0: exhaustive mode)
          SimSample    \* simulation mode: emit one in SimSample of them (TLC evaluates the invariant on every
                       \* successor of the last-but-one state of a behaviour, not only on the chosen one)

VARIABLE hist          \* the records accepted so far
gvars == <<s, last, hist>>

GInit == Init /\ hist = <<>>
GNext == Next /\ hist' = Append(hist, [a |-> last'.a, cs |-> last'.cs])
GSpec == GInit /\ [][GNext]_gvars
GView == s
GBound == ReqInvCanon(s) /\ Len(hist) <= (IF SimDepth > 0 THEN SimDepth ELSE GenDepth)

Alpha == SetToSeq(Accounts \X Contents)       \* fixed enumeration of (author, content)

Post(x) == [ent |-> x.ent, perm |-> x.perm, status |-> x.status, req |-> x.req, rgen |-> x.rgen,
            inv |-> x.inv, opts |-> x.opts, ng |-> Len(x.cf)]

Whys(x) == [k \in 1..Len(Alpha) |-> Run(x, Alpha[k][1], <<Alpha[k][2]>>).why]

AccFull(x, w) ==       \* accepted single-content records, from the verdict array
  LET idx == {k \in 1..Len(Alpha) : w[k] = "ok"} IN
  {[a |-> Alpha[k][1], cs |-> <<Alpha[k][2]>>, post |-> Post(Run(x, Alpha[k][1], <<Alpha[k][2]>>).s)] : k \in idx}
AccCand(x) ==          \* accepted single-content records, from the candidate sets
  UNION {{[a |-> a, cs |-> <<c>>, post |-> Post(Run(x, a, <<c>>).s)] :
            c \in {c \in Cand(x, a) \cap Contents : Run(x, a, <<c>>).why = "ok"}} : a \in Accounts}
AccBatch(x) ==         \* accepted 2-content batches
  UNION {UNION {{[a |-> a, cs |-> <<c1, c2>>, post |-> Post(Run(x, a, <<c1, c2>>).s)] :
                  c2 \in {c2 \in Cand(Run(x, a, <<c1>>).s, a) \cap Contents : Run(x, a, <<c1, c2>>).why = "ok"}} :
                c1 \in {c1 \in Cand(x, a) \cap Contents : Run(x, a, <<c1>>).why = "ok"}} : a \in Accounts}

PruneOK(x, w) ==
  \A k \in {k \in 1..Len(Alpha) : w[k] = "ok"} :
     LET a == Alpha[k][1]  c == Alpha[k][2]  r == Run(x, a, <<c>>) IN
     \E c2 \in Cand(x, a) \cap Contents : c2.k = c.k /\ c2.i = c.i /\ Run(x, a, <<c2>>).s = r.s

StateRec ==
  LET d == Len(hist)
      full == SimDepth > 0 \/ d <= FullDepth
      w == IF full THEN Whys(s) ELSE <<>>
  IN [ depth |-> d, path |-> hist, s |-> s, full |-> full,
       whys |-> w,
       acc |-> IF full THEN AccFull(s, w) ELSE AccCand(s),
       batches |-> d <= BatchDepth,
       accB |-> IF d <= BatchDepth THEN AccBatch(s) ELSE {},
       pruneOK |-> IF full THEN PruneOK(s, w) ELSE TRUE ]

\* (TLC also evaluates invariants on successors it then discards by the CONSTRAINT)
EmitCond == ReqInvCanon(s) /\ (IF SimDepth > 0 THEN Len(hist) = SimDepth /\ RandomElement(1..SimSample) = 1 ELSE Len(hist) <= GenDepth)
Emit == EmitWhen(EmitCond, StateRec)

Meta == [ accSeq |-> AccSeq, invIds |-> InvIds, initPerm |-> InitPerm, initRemoved |-> InitRemoved,
          initPrefix |-> InitPrefix, init |-> InitState,
          alphabet |-> [k \in 1..Len(Alpha) |-> [a |-> Alpha[k][1], c |-> Alpha[k][2]]],
          fix |-> [accept_kind |-> FIX_ACCEPT_KIND, accept_noperm |-> FIX_ACCEPT_NOPERM,
                   owner_not_guest |-> FIX_OWNER_NOT_GUEST, permchange_member |-> FIX_PERMCHANGE_MEMBER,
                   one_rotation |-> FIX_ONE_ROTATION] ]
ASSUME EmitReset
ASSUME JsonSerialize(EmitDir \o "/meta.json", Meta)
=============================================================================
