"""Shared orchestration for the acl-rules family (C04, C05): TLC runs on spec/acl and the Go binding
harness/acl. Loaded by checks/C04.py and checks/C05.py."""
import concurrent.futures
import glob
import json
import os
import re
import shutil
import subprocess
import threading
import time
import uuid

import sys

import vf as _vf

# lib/vf.py runs as __main__: use ITS CheckBroken class so that the orchestrator recognises it
CheckBroken = getattr(sys.modules.get("__main__"), "CheckBroken", None) or _vf.CheckBroken

SPEC = "acl"
HERE = os.path.dirname(os.path.abspath(__file__))
FIXES = ["FIX_ACCEPT_KIND", "FIX_ACCEPT_NOPERM", "FIX_OWNER_NOT_GUEST", "FIX_PERMCHANGE_MEMBER", "FIX_ONE_ROTATION"]

# account sets / start states defined in AclMC.tla
SETS = {"A": ("SeqA", "PermA", "RemA"), "B": ("SeqB", "PermB", "RemB"), "C": ("SeqC", "PermC", "RemC"), "D": ("SeqD", "PermD", "RemD"),
        "E": ("SeqE", "PermE", "RemE")}


def variant(cfg, **subst):
    """Text of a registered .cfg with some constants / keywords replaced.
    subst: NAME=value for 'NAME = value' lines, SET='A' for the account set, SPECIFICATION=..., add=[lines], drop=[regex]."""
    txt = open(os.path.join(HERE, cfg)).read()
    st = subst.pop("SET", None)
    if st:
        seq, perm, rem = SETS[st]
        txt = re.sub(r"AccSeq <- \w+", "AccSeq <- " + seq, txt)
        txt = re.sub(r"InitPerm <- \w+", "InitPerm <- " + perm, txt)
        txt = re.sub(r"InitRemoved <- \w+", "InitRemoved <- " + rem, txt)
    spec = subst.pop("SPECIFICATION", None)
    if spec:
        txt = re.sub(r"SPECIFICATION \w+", "SPECIFICATION " + spec, txt)
    for rx in subst.pop("drop", []):
        txt = "\n".join(l for l in txt.splitlines() if not re.search(rx, l)) + "\n"
    add = subst.pop("add", [])
    for k, v in subst.items():
        if isinstance(v, bool):
            v = "TRUE" if v else "FALSE"
        txt, n = re.subn(r"(?m)^(\s*)%s = \S+" % re.escape(k), r"\g<1>%s = %s" % (k, v), txt)
        if n == 0:
            raise CheckBroken("constant %s not found in %s" % (k, cfg))
    if add:
        txt += "\n".join(add) + "\n"
    return txt


_lock = threading.Lock()
_vfm = sys.modules.get("__main__") if hasattr(sys.modules.get("__main__"), "TlcResult") else _vf


def _tlc(ctx, module, cfgname, cfgtext, name, workers=2, env=None, extra=None, simulate=None, depth=None,
         timeout=1800, count=True, heap="3g"):
    """ctx.tlc with a private scratch directory, so that several TLC jobs can run at the same time
    (ctx.tlc numbers its directories by the length of the run list, which races)."""
    src = os.path.join(_vfm.VERIF, "spec", SPEC)
    wd = os.path.join(ctx.scratch, "ptlc-" + uuid.uuid4().hex[:10])
    os.makedirs(wd)
    for f in os.listdir(src):
        if os.path.isfile(os.path.join(src, f)) and not f.endswith(".py"):
            shutil.copy(os.path.join(src, f), wd)
    for f in glob.glob(os.path.join(_vfm.VERIF, "lib", "tla", "*.tla")):
        shutil.copy(f, wd)
    with open(os.path.join(wd, cfgname), "w") as fh:
        fh.write(cfgtext)
    cmd = ["java", "-XX:+UseParallelGC", "-Xmx" + heap, "-Xss64m", "-cp",
           "/opt/veriftools/tla/tla2tools.jar:/opt/veriftools/tla/CommunityModules-deps.jar", "tlc2.TLC",
           "-metadir", os.path.join(wd, "meta"), "-config", cfgname, "-workers", str(workers)]
    if simulate is not None:
        cmd += ["-simulate", "num=%d" % simulate, "-seed", str(ctx.seed)]
    if depth is not None:
        cmd += ["-depth", str(depth)]
    cmd += list(extra or []) + [module]
    e = dict(os.environ)
    e.update(env or {})
    res = _vfm.TlcResult()
    res.workdir = wd
    t0 = time.time()
    try:
        p = subprocess.run(cmd, cwd=wd, env=e, stdout=subprocess.PIPE, stderr=subprocess.STDOUT, timeout=timeout,
                           text=True, errors="replace")
        res.exit, res.out = p.returncode, p.stdout
    except subprocess.TimeoutExpired as ex:
        res.timed_out, res.exit = True, -1
        res.out = ex.stdout.decode("utf8", "replace") if isinstance(ex.stdout, bytes) else (ex.stdout or "")
        subprocess.run(["pkill", "-f", wd], check=False)
    res.wall = time.time() - t0
    _vfm.parse_tlc(res.out, res)
    run = {"name": name, "generated": res.generated, "distinct": res.distinct, "depth": res.depth,
           "wall_s": round(res.wall, 2), "mode": "simulate" if simulate is not None else "exhaustive",
           "error": res.error, "error_name": res.error_name, "timed_out": res.timed_out}
    with _lock:
        ctx.cov["tlc_runs"].append(run)
        if count:
            ctx.cov["states"] += res.distinct
            ctx.cov["transitions"] += res.generated
    ctx.log("tlc %s: %d generated / %d distinct, depth %d, %.1fs, error=%s %s%s" % (
        name, res.generated, res.distinct, res.depth, res.wall, res.error, res.error_name or "",
        " TIMEOUT" if res.timed_out else ""))
    return res


def parallel(ctx, jobs, width=None):
    """Run thunks concurrently (TLC jobs are independent processes); the first failure is re-raised."""
    width = width or max(2, min(len(jobs), ctx.cores // 2))
    with concurrent.futures.ThreadPoolExecutor(max_workers=width) as ex:
        futs = [ex.submit(j) for j in jobs]
        errs = []
        for f in futs:
            try:
                f.result()
            except BaseException as e:  # noqa
                errs.append(e)
        if errs:
            raise errs[0]


def mc(ctx, name, cfg, module="AclMC", timeout=1800, workers=2, **subst):
    """Exhaustive run that must pass."""
    res = _tlc(ctx, module, "gen_%s.cfg" % name, variant(cfg, **subst), "acl/%s" % name, workers=workers, timeout=timeout)
    if res.timed_out:
        raise CheckBroken("TLC timed out: acl/%s" % name)
    if not res.ok:
        raise CheckBroken("MODEL-ERROR: TLC reported %s %s on the specification alone (acl/%s)\n%s" % (
            res.error, res.error_name, name, "\n".join(res.out.splitlines()[-60:])))
    return res


def emit(ctx, name, cfg, simulate=None, depth=None, timeout=1800, **subst):
    """Behaviour generation: returns the directory with meta.json + b*.json."""
    out = os.path.join(ctx.scratch, "emit", name)
    os.makedirs(out)
    res = _tlc(ctx, "AclGen", "gen_%s.cfg" % name, variant(cfg, **subst), "acl/gen-%s" % name, workers=1,
               env={"VERIF_EMIT_DIR": out}, timeout=timeout, count=False, simulate=simulate, depth=depth)
    if res.timed_out or not res.ok:
        raise CheckBroken("behaviour generation %s failed: %s %s\n%s" % (name, res.error, res.error_name, res.out[-3000:]))
    n = len([f for f in os.listdir(out) if f.startswith("b")])
    if n == 0 or not os.path.exists(os.path.join(out, "meta.json")):
        raise CheckBroken("behaviour generation %s emitted nothing" % name)
    ctx.log("emitted %d model states for %s" % (n, name))
    return out


def asis(ctx, name, expect, cfg="Acl_asis.cfg", timeout=900, workers=2, **subst):
    """An instance with one validator gap left open: TLC must find a counterexample of property
    `expect` (list of acceptable names). Returns the directory holding meta.json + cex.json for the harness."""
    out = os.path.join(ctx.scratch, "cex", name)
    os.makedirs(out)
    consts = {f: True for f in FIXES}
    consts.update(subst)
    tracefile = os.path.join(out, "trace.json")
    res = _tlc(ctx, "AclCex", "asis_%s.cfg" % name, variant(cfg, **consts), "acl/asis-%s" % name, workers=workers,
               env={"VERIF_EMIT_DIR": out}, timeout=timeout, count=False, extra=["-dumpTrace", "json", tracefile])
    if res.timed_out:
        raise CheckBroken("as-is instance %s timed out" % name)
    if res.error not in ("invariant", "action_property") or res.error_name not in expect:
        raise CheckBroken("as-is instance %s: expected TLC to violate %s, got %s %s\n%s" % (
            name, expect, res.error, res.error_name, res.out[-2000:]))
    try:
        tr = json.load(open(tracefile))["counterexample"]["state"]
    except Exception as ex:  # noqa
        raise CheckBroken("as-is instance %s: cannot read the dumped trace: %s" % (name, ex))
    path = []
    for idx, st in tr:
        rec = st["last"]
        if rec["a"] == "-":
            continue
        path.append({"a": rec["a"], "cs": rec["cs"]})
    if not path:
        raise CheckBroken("as-is instance %s: empty counterexample" % name)
    json.dump({"name": name, "prop": res.error_name, "path": path}, open(os.path.join(out, "cex.json"), "w"))
    os.remove(tracefile)
    ctx.log("as-is %s: TLC violates %s after %d records: %s" % (name, res.error_name, len(path), json.dumps(path[-1])[:200]))
    with _lock:
        ctx.cov.setdefault("asis_counterexamples", {})[name] = {"property": res.error_name, "records": len(path)}
    return out


def replay(ctx, run, timeout=3000, **env):
    return ctx.go_test("./acl", run=run, env=env, timeout=timeout)


ALL_KINDS = ["PermChange", "OwnerChange", "AccountsAdd", "AccountRemove", "ReadKeyChange", "RequestJoin", "InviteJoin",
             "RequestAccept", "RequestDecline", "RequestCancel", "RequestRemove", "Invite", "InviteChange", "InviteRevoke", "Options"]


def nonvacuous(ctx, emit_root, need_batches=False):
    """Non-vacuity from the generator's output: every content kind is accepted somewhere in the model states
    that are replayed, and the guards of Step that were seen to fire are listed (guard cover of the replay)."""
    guards_spec = set(re.findall(r'"([A-Z]{2}\.[a-z]+)/[A-Za-z]+"', open(os.path.join(HERE, "Acl.tla")).read()))
    kinds, guards, states, full = set(), set(), 0, 0
    for d in sorted(os.listdir(emit_root)):
        for f in sorted(os.listdir(os.path.join(emit_root, d))):
            if not f.startswith("b"):
                continue
            sf = json.load(open(os.path.join(emit_root, d, f)))
            states += 1
            if not sf.get("pruneOK", True):
                raise CheckBroken("MODEL-ERROR: candidate pruning lost an accepted record (PruneSound) in %s/%s" % (d, f))
            for e in sf["acc"]:
                kinds.add(e["cs"][0]["k"])
            for e in sf.get("accB", []):
                kinds.add("batch")
            if sf.get("full"):
                full += 1
                for w in sf["whys"]:
                    if w != "ok":
                        guards.add(w.split("/")[0])
    missing = [k for k in ALL_KINDS if k not in kinds]
    if missing:
        raise CheckBroken("vacuous: content kinds never accepted in the emitted model states: %s" % missing)
    if need_batches and "batch" not in kinds:
        raise CheckBroken("vacuous: no accepted batch in the emitted model states")
    ctx.cov["model_states_emitted"] = states
    ctx.cov["model_states_with_full_alphabet_verdicts"] = full
    ctx.cov["content_kinds_accepted_in_model"] = sorted(kinds)
    ctx.cov["guards_fired_in_emitted_states"] = len(guards & guards_spec)
    ctx.cov["guards_in_spec"] = len(guards_spec)
    ctx.cov["guards_never_fired"] = sorted(guards_spec - guards)
    ctx.log("non-vacuity: %d states, kinds %d/%d, guards fired %d/%d (never: %s)" % (
        states, len(kinds - {"batch"}), len(ALL_KINDS), len(guards & guards_spec), len(guards_spec), sorted(guards_spec - guards)))
