-------------------------------- MODULE Acl --------------------------------
(* Access-control list of an any-sync space: commonspace/object/acl/list.               *)
(*                                                                                      *)
(* System part  = what a fully validating AclList (recordverifier.NewValidateFull) does *)
(*                with one record: every content of the record is validated against the *)
(*                evolving state (validator.go, the Validate functions) and then applied *)
(*                (aclstate.go, the apply functions); the first failing content rejects  *)
(*                the whole record.                                                      *)
(*                Step(s, a, c, ctx) is a transcription of that pair of functions for    *)
(*                one content c authored by a: it returns the first failing guard       *)
(*                ("<check id>/<error>") or "ok" and the successor state.                *)
(* Alphabet     = every content kind with every author / target / permission / invite   *)
(*                id / request id, well- and ill-matched, single and in 2-content        *)
(*                batches -- not only what the client-side builder would emit.           *)
(* Properties   = C04 (privilege rules, predicates over one accepted content step) and  *)
(*                C05 (key layer: who can derive which read-key generation).             *)
(* Deviations   = the validator gaps of the unrepaired code are kept as switchable      *)
(*                constants FIX_* (FALSE = behaviour of the code as it was found).       *)
EXTENDS Naturals, Sequences, FiniteSets, TLC

CONSTANTS
  AccSeq,        \* sequence of account names; its order is the canonical order for "first ..." choices
  InitPerm,      \* [account -> permission] in the start state ("none" = holds no permission)
  InitRemoved,   \* accounts that were members (reader) and have been removed before the start state
  InvIds,        \* sequence of invite ids; consumed in order, never reused
  MaxDepth,      \* behaviours of at most MaxDepth records (CONSTRAINT on TLCGet("level"))
  Honest,        \* TRUE = only records the client builder can emit (key-layer histories, deeper)
  FIX_ACCEPT_KIND,        \* RequestAccept only for *join* requests            (FALSE: AcceptAnyRequestKind)
  FIX_ACCEPT_NOPERM,      \* RequestAccept only for accounts without permission (FALSE: AcceptStaleRequest)
  FIX_OWNER_NOT_GUEST,    \* OwnershipChange refuses a guest                    (FALSE: GuestMayOwn)
  FIX_PERMCHANGE_MEMBER,  \* PermissionChange only for accounts holding one     (FALSE: GrantWithoutKey)
  FIX_ONE_ROTATION        \* at most one read-key rotation per record           (FALSE: DoubleRotation)

VARIABLES s,     \* the abstract AclState (record, see InitState)
          last   \* the record accepted last, with the intermediate states of its contents (history)
vars == <<s, last>>

Accounts == {AccSeq[k] : k \in 1..Len(AccSeq)}
InvSet   == {InvIds[k] : k \in 1..Len(InvIds)}
Principals == Accounts \cup InvSet        \* who can hold key ciphertexts: accounts and open-invite keys
Perms    == {"none", "owner", "admin", "writer", "reader", "guest"}
Statuses == {"none", "joining", "active", "removed", "declined", "removing", "canceled"}

Mgr(p) == p \in {"owner", "admin"}                                  \* AclPermissions.CanManageAccounts
LE(p, q) == CASE p = "none"   -> TRUE                               \* AclPermissions.IsLessOrEqual
              [] p = "reader" -> q # "none"
              [] p = "writer" -> q \in {"writer", "admin"}
              [] p = "admin"  -> q = "admin"
              [] OTHER        -> FALSE

MinOf(S) == CHOOSE k \in S : \A j \in S : k <= j
First(S) == LET idx == {k \in 1..Len(AccSeq) : AccSeq[k] \in S} IN IF idx = {} THEN "-" ELSE AccSeq[MinOf(idx)]
FirstInv(S) == LET idx == {k \in 1..Len(InvIds) : InvIds[k] \in S} IN IF idx = {} THEN "-" ELSE InvIds[MinOf(idx)]
Other(a) == First(Accounts \ {a})

(* ------------------------------------------------------------------------------------ *)
(* State                                                                                *)
(* ------------------------------------------------------------------------------------ *)
(* an invite carries, independently: its type, the Permissions field and whether an EncryptedReadKey is   *)
(* present - the validator looks at the last two only for anyone-can-join invites, a hand-made            *)
(* request-to-join invite may carry any of them                                                         *)
NoInv == [st |-> "unused", type |-> "-", perm |-> "none", key |-> FALSE]

ActiveAcc(x) == {t \in Accounts : x.perm[t] # "none"}
Owners(x) == {t \in Accounts : x.perm[t] = "owner"}
LiveAny(x)   == {i \in InvSet : x.inv[i].st = "live" /\ x.inv[i].type = "any"}
Standing(x, p) == IF p \in Accounts THEN x.perm[p] # "none" ELSE p \in LiveAny(x)
Gens(x) == 1..Len(x.cf)
(* p can obtain generation g: a ciphertext of some generation h >= g exists for p, and every *)
(* generation carries its predecessor encrypted under itself (EncryptedOldReadKey)          *)
Der(x, p, g) == \E h \in g..Len(x.cf) : p \in x.cf[h]

Fin(x) == [x EXCEPT !.held = [p \in Principals |-> IF Standing(x, p) THEN Len(x.cf) ELSE x.held[p]]]

RootState ==
  LET o == First({t \in Accounts : InitPerm[t] = "owner"}) IN
  [ ent    |-> [t \in Accounts |-> t = o],
    perm   |-> [t \in Accounts |-> IF t = o THEN "owner" ELSE "none"],
    status |-> [t \in Accounts |-> IF t = o THEN "active" ELSE "none"],
    req    |-> [t \in Accounts |-> "none"],                      \* pending request of t: none | join | remove
    rgen   |-> [t \in Accounts |-> 0],                           \* key generation a pending join request was filed under (RequestRecord.KeyRecordId)
    inv    |-> [i \in InvSet |-> NoInv],
    opts   |-> "unset",
    cf     |-> << {o} >>,                                        \* per generation: principals a ciphertext exists for
    held   |-> [p \in Principals |-> IF p = o THEN 1 ELSE 0],     \* newest generation while p had standing
    dbl    |-> FALSE ]                                           \* the log contains a record with two rotations

(* ------------------------------------------------------------------------------------ *)
(* Record alphabet                                                                      *)
(* ------------------------------------------------------------------------------------ *)
C(k, t, p, i, q, v) == [k |-> k, t |-> t, p |-> p, i |-> i, q |-> q, v |-> v]
InvRef == IF Honest THEN InvSet ELSE InvSet \cup {"bogus"}
ReqRef == IF Honest THEN Accounts ELSE Accounts \cup {"bogus"}
RotV   == IF Honest THEN {"exact"} ELSE {"exact", "minus", "plus", "swap", "noinv", "plusinv", "swapinv", "noold"}
JoinV  == IF Honest THEN {"ok"} ELSE {"ok", "badident", "badsig"}
IJoinV == IF Honest THEN {"ok"} ELSE {"ok", "badident", "badsig", "nokey"}
AccV   == IF Honest THEN {"match"} ELSE {"match", "mismatch"}
InvV   == IF Honest THEN {"req", "any"} ELSE {"req", "reqkey", "any", "anynokey"}   \* type x {without, with} read key ciphertext

Contents ==
       {C("PermChange",    t,   p,   "-", "-", "-") : t \in Accounts, p \in Perms}
  \cup {C("OwnerChange",   t,   p,   "-", "-", "-") : t \in Accounts, p \in Perms}
  \cup {C("AccountsAdd",   t,   p,   "-", "-", "-") : t \in Accounts, p \in Perms}
  \cup {C("AccountRemove", t,   "-", "-", "-", v)   : t \in Accounts \cup {"-"}, v \in RotV}
  \cup {C("ReadKeyChange", "-", "-", "-", "-", v)   : v \in RotV}
  \cup {C("RequestJoin",   "-", "-", i,   "-", v)   : i \in InvRef, v \in JoinV}
  \cup {C("InviteJoin",    "-", p,   i,   "-", v)   : p \in Perms, i \in InvRef, v \in IJoinV}
  \cup {C("RequestAccept", "-", p,   "-", q,   v)   : p \in Perms, q \in ReqRef, v \in AccV}
  \cup {C("RequestDecline","-", "-", "-", q,   "-") : q \in ReqRef}
  \cup {C("RequestCancel", "-", "-", "-", q,   "-") : q \in ReqRef}
  \cup {C("RequestRemove", "-", "-", "-", "-", "-")}
  \cup {C("Invite",        "-", p,   "-", "-", v)   : p \in Perms, v \in InvV}
  \cup {C("InviteChange",  "-", p,   i,   "-", "-") : p \in Perms, i \in InvRef}
  \cup {C("InviteRevoke",  "-", "-", i,   "-", "-") : i \in InvRef}
  \cup {C("Options",       "-", "-", "-", "-", v)   : v \in {"v0", "v1"}}

(* ------------------------------------------------------------------------------------ *)
(* Read-key rotation: recipients named by a rotation content                            *)
(* ------------------------------------------------------------------------------------ *)
Rcp(x, R, v) ==        \* R = accounts removed by the same content
  LET exA == ActiveAcc(x) \ R
      exI == LiveAny(x)
      extra == IF R # {} THEN First(R) ELSE First(Accounts \ exA)
      extraI == FirstInv(InvSet \ exI)
  IN CASE v = "minus"   -> [A |-> exA \ {First(exA)}, I |-> exI]
       [] v = "plus"    -> [A |-> IF extra = "-" THEN exA ELSE exA \cup {extra}, I |-> exI]
       [] v = "swap"    -> [A |-> IF extra = "-" \/ exA = {} THEN exA ELSE (exA \ {First(exA)}) \cup {extra}, I |-> exI]
       [] v = "swapinv" -> [A |-> exA, I |-> IF extraI = "-" \/ exI = {} THEN exI ELSE (exI \ {FirstInv(exI)}) \cup {extraI}]
       [] v = "noinv"   -> [A |-> exA, I |-> exI \ {FirstInv(exI)}]
       [] v = "plusinv" -> [A |-> exA, I |-> IF extraI = "-" THEN exI ELSE exI \cup {extraI}]
       [] OTHER         -> [A |-> exA, I |-> exI]

(* validator.go validateReadKeyChange; rot = a rotation was already applied in this record *)
RotWhy(x, R, v, rot) ==
  IF v = "noold" THEN "RK.noold/BadKey"
  ELSE IF Rcp(x, R, v) # Rcp(x, R, "exact") THEN "RK.recipients/NAcc"
  ELSE IF FIX_ONE_ROTATION /\ rot THEN "RK.second/NotAlone"
  ELSE "ok"

(* aclstate.go applyReadKeyChange: keys[record id] is (over)written, readKeyChanges grows *)
NewGen(x, rcp, rot) ==
  IF rot THEN [x EXCEPT !.cf[Len(x.cf)] = rcp.A \cup rcp.I, !.dbl = TRUE]
         ELSE [x EXCEPT !.cf = Append(x.cf, rcp.A \cup rcp.I)]

(* an admitted account receives the current key (unpackAllKeys walks readKeyChanges back; it  *)
(* fails for the joiner once some record id occurs twice in readKeyChanges)                   *)
(* being handed the current key by a manager counts as standing at that moment (held)          *)
GiveKey(x, t) == IF x.dbl THEN x ELSE [x EXCEPT !.cf[Len(x.cf)] = @ \cup {t}, !.held[t] = Len(x.cf)]

(* ------------------------------------------------------------------------------------ *)
(* One content of a record: guard (validator.go) and effect (aclstate.go)               *)
(* ctx = [slot |-> invite id this record would create, rot |-> rotation already applied,  *)
(*        fi |-> the record has created its invite, fr |-> the author has filed a request  *)
(*        in this record].  Invite and request ids are the id (hash) of the record that    *)
(*        created them, so a later content of the same record cannot name them.            *)
(* ------------------------------------------------------------------------------------ *)
R3(why, x, ctx) == [why |-> why, s |-> x, ctx |-> ctx]

StepPermChange(x, a, c, ctx) ==           \* ValidatePermissionChange / applyPermissionChange
  LET pa == x.perm[a]  t == c.t  pt == x.perm[c.t]
      why == IF ~Mgr(pa) THEN "PC.author/Insuff"
             ELSE IF ~x.ent[t] THEN "PC.noentry/NoAcc"
             ELSE IF pt = "guest" THEN "PC.guest/Insuff"
             ELSE IF pt = "owner" THEN "PC.owner/Insuff"
             ELSE IF pt = "admin" /\ pa # "owner" THEN "PC.revokeadmin/Insuff"
             ELSE IF c.p = "owner" THEN "PC.toowner/Insuff"
             ELSE IF c.p = "admin" /\ pa # "owner" THEN "PC.grantadmin/Insuff"
             ELSE IF c.p = "guest" /\ pt # "reader" THEN "PC.toguest/Insuff"
             ELSE IF FIX_PERMCHANGE_MEMBER /\ pt = "none" THEN "PC.nomember/NoAcc"
             ELSE "ok"
  IN R3(why, IF why = "ok" THEN [x EXCEPT !.perm[t] = c.p] ELSE x, ctx)

StepOwnerChange(x, a, c, ctx) ==          \* ValidateOwnershipChange / applyOwnershipChange
  LET pa == x.perm[a]  t == c.t  pt == x.perm[c.t]
      why == IF pa # "owner" THEN "OC.author/Insuff"
             ELSE IF pt = "none" THEN "OC.nomember/NoAcc"
             ELSE IF x.status[t] # "active" \/ pt = "owner" \/ c.p = "owner" \/ c.p = "none"
                     \/ (FIX_OWNER_NOT_GUEST /\ pt = "guest") THEN "OC.bad/Insuff"
             ELSE "ok"
  IN R3(why, IF why = "ok" THEN [x EXCEPT !.perm[a] = c.p, !.perm[t] = "owner"] ELSE x, ctx)

StepAccountsAdd(x, a, c, ctx) ==          \* ValidateAccountsAdd / applyAccountsAdd (one addition)
  LET pa == x.perm[a]  t == c.t
      why == IF ~Mgr(pa) THEN "AA.author/Insuff"
             ELSE IF x.perm[t] # "none" THEN "AA.member/Dup"
             ELSE IF c.p = "owner" THEN "AA.owner/IsOwner"
             ELSE IF c.p = "none" THEN "AA.none/Insuff"
             ELSE IF c.p = "admin" /\ pa # "owner" THEN "AA.admin/Insuff"
             ELSE "ok"
  IN R3(why, IF why = "ok"
             THEN GiveKey([x EXCEPT !.ent[t] = TRUE, !.perm[t] = c.p, !.status[t] = "active"], t)
             ELSE x, ctx)

StepAccountRemove(x, a, c, ctx) ==        \* ValidateAccountRemove / applyAccountRemove (0 or 1 identity)
  LET pa == x.perm[a]  t == c.t
      R == IF t = "-" THEN {} ELSE {t}
      why == IF ~Mgr(pa) THEN "AR.author/Insuff"
             ELSE IF t # "-" /\ t = a THEN "AR.self/Insuff"
             ELSE IF t # "-" /\ x.perm[t] = "none" THEN "AR.nomember/NoAcc"
             ELSE IF t # "-" /\ x.perm[t] = "owner" THEN "AR.owner/Insuff"
             ELSE IF t # "-" /\ x.perm[t] = "admin" /\ pa # "owner" THEN "AR.admin/Insuff"
             ELSE RotWhy(x, R, c.v, ctx.rot)
      y == IF t = "-" THEN x
           ELSE [x EXCEPT !.perm[t] = "none", !.status[t] = "removed", !.req[t] = "none", !.rgen[t] = 0]
  IN R3(why, IF why = "ok" THEN NewGen(y, Rcp(x, R, c.v), ctx.rot) ELSE x, IF why = "ok" THEN [ctx EXCEPT !.rot = TRUE] ELSE ctx)

StepReadKeyChange(x, a, c, ctx) ==        \* ValidateReadKeyChange / applyReadKeyChange
  LET why == IF ~Mgr(x.perm[a]) THEN "RK.author/Insuff" ELSE RotWhy(x, {}, c.v, ctx.rot)
  IN R3(why, IF why = "ok" THEN NewGen(x, Rcp(x, {}, c.v), ctx.rot) ELSE x, IF why = "ok" THEN [ctx EXCEPT !.rot = TRUE] ELSE ctx)

StepRequestJoin(x, a, c, ctx) ==          \* ValidateRequestJoin / applyRequestJoin
  LET live == c.i \in InvSet /\ x.inv[c.i].st = "live" /\ ~(ctx.fi /\ c.i = ctx.slot)
      ident == IF c.v = "badident" THEN Other(a) ELSE a      \* ch.InviteIdentity
      why == IF ~live THEN "RJ.noinvite/NoInv"
             ELSE IF x.perm[a] # "none" THEN "RJ.member/Insuff"
             ELSE IF x.inv[c.i].type # "req" THEN "RJ.type/NoInv"
             ELSE IF x.req[ident] # "none" THEN "RJ.pending/Pending"
             ELSE IF c.v = "badident" THEN "RJ.ident/BadId"
             ELSE IF c.v = "badsig" THEN "RJ.sig/BadSig"
             ELSE "ok"
  IN R3(why, IF why = "ok"
             THEN [x EXCEPT !.ent[a] = TRUE, !.perm[a] = "none", !.status[a] = "joining", !.req[a] = "join", !.rgen[a] = Len(x.cf)]
             ELSE x, IF why = "ok" THEN [ctx EXCEPT !.fr = TRUE] ELSE ctx)

StepInviteJoin(x, a, c, ctx) ==           \* ValidateInviteJoin / applyInviteJoinWithoutApprove
  LET live == c.i \in InvSet /\ x.inv[c.i].st = "live" /\ ~(ctx.fi /\ c.i = ctx.slot)
      why == IF x.perm[a] # "none" THEN "IJ.member/Insuff"
             ELSE IF ~live THEN "IJ.noinvite/NoInv"
             ELSE IF x.inv[c.i].type # "any" THEN "IJ.type/NoInv"
             ELSE IF ~LE(c.p, x.inv[c.i].perm) THEN "IJ.perm/Insuff"
             ELSE IF c.v = "badident" THEN "IJ.ident/BadId"
             ELSE IF c.v = "badsig" THEN "IJ.sig/BadSig"
             ELSE IF c.v = "nokey" THEN "IJ.nokey/BadKey"
             ELSE "ok"
      np == IF c.p = "none" THEN x.inv[c.i].perm ELSE c.p
      y == [x EXCEPT !.ent[a] = TRUE, !.perm[a] = np, !.status[a] = "active", !.req[a] = "none", !.rgen[a] = 0]
  IN R3(why, IF why = "ok"
             THEN (IF Der(x, c.i, Len(x.cf)) THEN GiveKey(y, a) ELSE y)   \* the joiner re-encrypts the key the invite gives
             ELSE x, ctx)

StepRequestAccept(x, a, c, ctx) ==        \* ValidateRequestAccept / applyRequestAccept
  LET pa == x.perm[a]  q == c.q
      exists == q \in Accounts /\ x.req[q] # "none" /\ ~(ctx.fr /\ q = a)
      why == IF ~Mgr(pa) THEN "RA.author/Insuff"
             ELSE IF ~exists THEN "RA.norequest/NoReq"
             ELSE IF c.v = "mismatch" THEN "RA.ident/BadId"
             ELSE IF FIX_ACCEPT_KIND /\ x.req[q] # "join" THEN "RA.kind/NoReq"
             ELSE IF FIX_ACCEPT_NOPERM /\ x.perm[q] # "none" THEN "RA.member/Dup"
             ELSE IF c.p = "owner" THEN "RA.owner/Insuff"
             ELSE IF c.p = "admin" /\ pa # "owner" THEN "RA.admin/Insuff"
             ELSE "ok"
  IN R3(why, IF why = "ok"
             THEN GiveKey([x EXCEPT !.ent[q] = TRUE, !.perm[q] = c.p, !.status[q] = "active", !.req[q] = "none", !.rgen[q] = 0], q)
             ELSE x, ctx)

StepRequestDecline(x, a, c, ctx) ==       \* ValidateRequestDecline / applyRequestDecline
  LET q == c.q
      why == IF ~Mgr(x.perm[a]) THEN "RD.author/Insuff"
             ELSE IF ~(q \in Accounts /\ x.req[q] = "join" /\ ~(ctx.fr /\ q = a)) THEN "RD.norequest/NoReq"
             ELSE "ok"
  IN R3(why, IF why = "ok" THEN [x EXCEPT !.status[q] = "declined", !.req[q] = "none", !.rgen[q] = 0] ELSE x, ctx)

StepRequestCancel(x, a, c, ctx) ==        \* ValidateRequestCancel / applyRequestCancel
  LET q == c.q
      why == IF ~(q \in Accounts /\ x.req[q] # "none" /\ ~(ctx.fr /\ q = a)) THEN "RC.norequest/NoReq"
             ELSE IF q # a THEN "RC.notmine/Insuff"
             ELSE "ok"
  IN R3(why, IF why = "ok"
             THEN [x EXCEPT !.status[a] = IF x.req[a] = "join" THEN "canceled" ELSE "active", !.req[a] = "none", !.rgen[a] = 0]
             ELSE x, ctx)

StepRequestRemove(x, a, c, ctx) ==        \* ValidateRequestRemove / applyRequestRemove
  LET pa == x.perm[a]
      why == IF pa = "none" THEN "RR.nomember/Insuff"
             ELSE IF pa = "owner" THEN "RR.owner/IsOwner"
             ELSE IF x.req[a] # "none" THEN "RR.pending/Pending"
             ELSE IF pa = "guest" THEN "RR.guest/Insuff"
             ELSE "ok"
  IN R3(why, IF why = "ok" THEN [x EXCEPT !.status[a] = "removing", !.req[a] = "remove"] ELSE x,
        IF why = "ok" THEN [ctx EXCEPT !.fr = TRUE] ELSE ctx)

StepInvite(x, a, c, ctx) ==               \* ValidateInvite / applyInvite
  LET pa == x.perm[a]
      any == c.v \in {"any", "anynokey"}
      why == IF ~Mgr(pa) THEN "IN.author/Insuff"
             ELSE IF any /\ c.p \in {"owner", "none", "guest"} THEN "IN.perm/Insuff"
             ELSE IF any /\ c.p = "admin" /\ pa # "owner" THEN "IN.admin/Insuff"
             ELSE IF c.v = "anynokey" THEN "IN.nokey/BadKey"
             ELSE IF ctx.slot = "-" THEN "IN.bound/OutOfModel"          \* model bound, not a code rule
             ELSE "ok"
      hasKey == c.v \in {"any", "reqkey"}
      \* applyInvite stores type, Permissions and the ciphertext as they come
      y == [x EXCEPT !.inv[ctx.slot] = [st |-> "live", type |-> IF any THEN "any" ELSE "req", perm |-> c.p, key |-> hasKey]]
  IN R3(why, IF why = "ok"
             THEN (IF hasKey THEN [y EXCEPT !.cf[Len(x.cf)] = @ \cup {ctx.slot}, !.held[ctx.slot] = Len(x.cf)] ELSE y)   \* invite carries the current key
             ELSE x, IF why = "ok" THEN [ctx EXCEPT !.fi = TRUE] ELSE ctx)

StepInviteChange(x, a, c, ctx) ==         \* ValidateInviteChange / applyInviteChange
  LET pa == x.perm[a]
      live == c.i \in InvSet /\ x.inv[c.i].st = "live" /\ ~(ctx.fi /\ c.i = ctx.slot)
      why == IF ~Mgr(pa) THEN "IC.author/Insuff"
             ELSE IF ~live THEN "IC.noinvite/NoInv"
             ELSE IF x.inv[c.i].type # "any" THEN "IC.type/NoInv"
             ELSE IF x.inv[c.i].perm = c.p THEN "IC.same/Insuff"
             ELSE IF c.p \in {"owner", "none", "guest"} THEN "IC.perm/Insuff"
             ELSE IF c.p = "admin" /\ pa # "owner" THEN "IC.admin/Insuff"
             ELSE "ok"
  IN R3(why, IF why = "ok" THEN [x EXCEPT !.inv[c.i].perm = c.p] ELSE x, ctx)

StepInviteRevoke(x, a, c, ctx) ==         \* ValidateInviteRevoke / applyInviteRevoke
  LET live == c.i \in InvSet /\ x.inv[c.i].st = "live" /\ ~(ctx.fi /\ c.i = ctx.slot)
      why == IF ~Mgr(x.perm[a]) THEN "IR.author/Insuff"
             ELSE IF ~live THEN "IR.noinvite/NoInv"
             ELSE "ok"
  IN R3(why, IF why = "ok" THEN [x EXCEPT !.inv[c.i] = [st |-> "revoked", type |-> "-", perm |-> "none", key |-> FALSE]] ELSE x, ctx)

StepOptions(x, a, c, ctx) ==              \* ValidateSpaceOptionsChange / applySpaceOptionsChange
  LET why == IF x.perm[a] # "owner" THEN "OP.author/Insuff" ELSE "ok"
  IN R3(why, IF why = "ok" THEN [x EXCEPT !.opts = c.v] ELSE x, ctx)

Step(x, a, c, ctx) ==
  LET r == CASE c.k = "PermChange"     -> StepPermChange(x, a, c, ctx)
             [] c.k = "OwnerChange"    -> StepOwnerChange(x, a, c, ctx)
             [] c.k = "AccountsAdd"    -> StepAccountsAdd(x, a, c, ctx)
             [] c.k = "AccountRemove"  -> StepAccountRemove(x, a, c, ctx)
             [] c.k = "ReadKeyChange"  -> StepReadKeyChange(x, a, c, ctx)
             [] c.k = "RequestJoin"    -> StepRequestJoin(x, a, c, ctx)
             [] c.k = "InviteJoin"     -> StepInviteJoin(x, a, c, ctx)
             [] c.k = "RequestAccept"  -> StepRequestAccept(x, a, c, ctx)
             [] c.k = "RequestDecline" -> StepRequestDecline(x, a, c, ctx)
             [] c.k = "RequestCancel"  -> StepRequestCancel(x, a, c, ctx)
             [] c.k = "RequestRemove"  -> StepRequestRemove(x, a, c, ctx)
             [] c.k = "Invite"         -> StepInvite(x, a, c, ctx)
             [] c.k = "InviteChange"   -> StepInviteChange(x, a, c, ctx)
             [] c.k = "InviteRevoke"   -> StepInviteRevoke(x, a, c, ctx)
             [] c.k = "Options"        -> StepOptions(x, a, c, ctx)
  IN [r EXCEPT !.s = IF r.why = "ok" THEN Fin(r.s) ELSE r.s]

(* the invite id a record creates = its record id: one slot per record, the next unused one *)
Ctx0(x) == [slot |-> FirstInv({i \in InvSet : x.inv[i].st = "unused"}), rot |-> FALSE, fi |-> FALSE, fr |-> FALSE]

(* a whole record: contents applied in order to the evolving state; mids = <<pre, after c1, ...>> *)
RECURSIVE RunFrom(_, _, _, _, _, _)
RunFrom(x, a, cs, k, ctx, mids) ==
  IF k > Len(cs) THEN [why |-> "ok", s |-> x, mids |-> mids, at |-> 0]
  ELSE LET r == Step(x, a, cs[k], ctx) IN
       IF r.why # "ok" THEN [why |-> r.why, s |-> mids[1], mids |-> mids, at |-> k]
       ELSE RunFrom(r.s, a, cs, k + 1, r.ctx, Append(mids, r.s))
Run(x, a, cs) == RunFrom(x, a, cs, 1, Ctx0(x), <<x>>)

(* ------------------------------------------------------------------------------------ *)
(* Start state: the prefix every harness run executes on the real list                  *)
(*   record 1 (owner): AccountsAdd of every initial member and of the accounts that      *)
(*   will be removed;  record 2 (owner): AccountRemove of InitRemoved with a rotation    *)
(* ------------------------------------------------------------------------------------ *)
Owner0 == First({t \in Accounts : InitPerm[t] = "owner"})
InitAdds == LET idx == {k \in 1..Len(AccSeq) : AccSeq[k] # Owner0 /\ (InitPerm[AccSeq[k]] # "none" \/ AccSeq[k] \in InitRemoved)}
                RECURSIVE mk(_)
                mk(S) == IF S = {} THEN <<>>
                         ELSE LET k == MinOf(S) t == AccSeq[k] IN
                              <<C("AccountsAdd", t, IF t \in InitRemoved THEN "reader" ELSE InitPerm[t], "-", "-", "-")>> \o mk(S \ {k})
            IN mk(idx)
InitRemoves == LET idx == {k \in 1..Len(AccSeq) : AccSeq[k] \in InitRemoved}
                   RECURSIVE mk(_)
                   mk(S) == IF S = {} THEN <<>>
                            ELSE LET k == MinOf(S) IN <<C("AccountRemove", AccSeq[k], "-", "-", "-", "exact")>> \o mk(S \ {k})
               IN mk(idx)
(* one record per removal (a record may carry only one rotation) *)
InitPrefix == (IF InitAdds = <<>> THEN <<>> ELSE << [a |-> Owner0, cs |-> InitAdds] >>)
              \o [k \in 1..Len(InitRemoves) |-> [a |-> Owner0, cs |-> <<InitRemoves[k]>>]]
RECURSIVE Replay(_, _, _)
Replay(x, recs, k) == IF k > Len(recs) THEN x ELSE Replay(Run(x, recs[k].a, recs[k].cs).s, recs, k + 1)
InitState == Replay(RootState, InitPrefix, 1)

NoRecord == [a |-> "-", cs |-> <<>>, mids |-> <<InitState>>]
Init == s = InitState /\ last = NoRecord

Accept1(a, c1) ==
  LET r == Run(s, a, <<c1>>) IN
  /\ r.why = "ok"
  /\ s' = r.s
  /\ last' = [a |-> a, cs |-> <<c1>>, mids |-> r.mids]
Accept2(a, c1, c2) ==
  LET r == Run(s, a, <<c1, c2>>) IN
  /\ r.why = "ok"
  /\ s' = r.s
  /\ last' = [a |-> a, cs |-> <<c1, c2>>, mids |-> r.mids]
(* Rejected records leave the state unchanged, so the exhaustive search only has to enumerate a  *)
(* superset of the accepted ones: Cand(x, a) drops contents whose first guards cannot pass     *)
(* (wrong author role, dead reference, always-rejected variant) and variants that coincide     *)
(* with the exact one.  PruneSound (checked by TLC, and on every state the generator emits,    *)
(* where the whole alphabet is evaluated) states that nothing accepted is lost.                *)
Ents(x)    == {t \in Accounts : x.ent[t]}
Live(x)    == {i \in InvSet : x.inv[i].st = "live"}
Pending(x) == {q \in Accounts : x.req[q] # "none"}
Kinds == {"PermChange", "OwnerChange", "AccountsAdd", "AccountRemove", "ReadKeyChange", "RequestJoin", "InviteJoin",
          "RequestAccept", "RequestDecline", "RequestCancel", "RequestRemove", "Invite", "InviteChange", "InviteRevoke", "Options"}
CandK(x, a, k) ==
  LET pa == x.perm[a] IN
  CASE k = "PermChange" ->
         IF Mgr(pa) THEN {C("PermChange", t, p, "-", "-", "-") : t \in Ents(x) \ Owners(x), p \in Perms \ {"owner"}} ELSE {}
    [] k = "AccountsAdd" ->
         IF Mgr(pa) THEN {C("AccountsAdd", t, p, "-", "-", "-") : t \in Accounts \ ActiveAcc(x), p \in Perms \ {"owner", "none"}} ELSE {}
    [] k = "AccountRemove" ->
         IF Mgr(pa) THEN {C("AccountRemove", t, "-", "-", "-", "exact") : t \in (ActiveAcc(x) \ {a}) \cup {"-"}} ELSE {}
    [] k = "ReadKeyChange" ->
         IF Mgr(pa) THEN {C("ReadKeyChange", "-", "-", "-", "-", "exact")} ELSE {}
    [] k = "RequestAccept" ->
         IF Mgr(pa) THEN {C("RequestAccept", "-", p, "-", q, "match") : p \in Perms \ {"owner"}, q \in Pending(x)} ELSE {}
    [] k = "RequestDecline" ->
         IF Mgr(pa) THEN {C("RequestDecline", "-", "-", "-", q, "-") : q \in Pending(x)} ELSE {}
    [] k = "Invite" ->
         IF Mgr(pa) THEN {C("Invite", "-", p, "-", "-", v) : p \in Perms, v \in {"req", "reqkey"} \cap InvV}
                         \cup {C("Invite", "-", p, "-", "-", "any") : p \in {"reader", "writer", "admin"}} ELSE {}
    [] k = "InviteChange" ->
         IF Mgr(pa) THEN {C("InviteChange", "-", p, i, "-", "-") : p \in {"reader", "writer", "admin"}, i \in LiveAny(x)} ELSE {}
    [] k = "InviteRevoke" ->
         IF Mgr(pa) THEN {C("InviteRevoke", "-", "-", i, "-", "-") : i \in Live(x)} ELSE {}
    [] k = "OwnerChange" ->
         IF pa = "owner" THEN {C("OwnerChange", t, p, "-", "-", "-") : t \in ActiveAcc(x) \ {a}, p \in Perms \ {"owner", "none"}} ELSE {}
    [] k = "Options" ->
         IF pa = "owner" THEN {C("Options", "-", "-", "-", "-", v) : v \in {"v0", "v1"}} ELSE {}
    [] k = "RequestJoin" ->
         IF pa = "none" THEN {C("RequestJoin", "-", "-", i, "-", "ok") : i \in Live(x)} ELSE {}
    [] k = "InviteJoin" ->
         IF pa = "none" THEN {C("InviteJoin", "-", p, i, "-", "ok") : p \in Perms, i \in LiveAny(x)} ELSE {}
    [] k = "RequestRemove" ->
         IF pa \notin {"none", "owner"} THEN {C("RequestRemove", "-", "-", "-", "-", "-")} ELSE {}
    [] k = "RequestCancel" ->
         IF x.req[a] # "none" THEN {C("RequestCancel", "-", "-", "-", a, "-")} ELSE {}
Cand(x, a) == UNION {CandK(x, a, k) : k \in Kinds}

CandInAlphabet == \A a \in Accounts : Cand(s, a) \subseteq Contents
PruneSoundIn(x) ==
  \A a \in Accounts, c \in Contents :
     LET r == Run(x, a, <<c>>) IN
     r.why = "ok" => \E c2 \in Cand(x, a) :
                        c2.k = c.k /\ c2.i = c.i /\ Run(x, a, <<c2>>).s = r.s
PruneSound == CandInAlphabet /\ PruneSoundIn(s)

(* one named action per content kind (TLC coverage then shows that every kind was accepted somewhere) *)
PermChange     == \E a \in Accounts : \E c1 \in CandK(s, a, "PermChange") : Accept1(a, c1)
OwnerChange    == \E a \in Accounts : \E c1 \in CandK(s, a, "OwnerChange") : Accept1(a, c1)
AccountsAdd    == \E a \in Accounts : \E c1 \in CandK(s, a, "AccountsAdd") : Accept1(a, c1)
AccountRemove  == \E a \in Accounts : \E c1 \in CandK(s, a, "AccountRemove") : Accept1(a, c1)
ReadKeyChange  == \E a \in Accounts : \E c1 \in CandK(s, a, "ReadKeyChange") : Accept1(a, c1)
RequestJoin    == \E a \in Accounts : \E c1 \in CandK(s, a, "RequestJoin") : Accept1(a, c1)
InviteJoin     == \E a \in Accounts : \E c1 \in CandK(s, a, "InviteJoin") : Accept1(a, c1)
RequestAccept  == \E a \in Accounts : \E c1 \in CandK(s, a, "RequestAccept") : Accept1(a, c1)
RequestDecline == \E a \in Accounts : \E c1 \in CandK(s, a, "RequestDecline") : Accept1(a, c1)
RequestCancel  == \E a \in Accounts : \E c1 \in CandK(s, a, "RequestCancel") : Accept1(a, c1)
RequestRemove  == \E a \in Accounts : \E c1 \in CandK(s, a, "RequestRemove") : Accept1(a, c1)
Invite         == \E a \in Accounts : \E c1 \in CandK(s, a, "Invite") : Accept1(a, c1)
InviteChange   == \E a \in Accounts : \E c1 \in CandK(s, a, "InviteChange") : Accept1(a, c1)
InviteRevoke   == \E a \in Accounts : \E c1 \in CandK(s, a, "InviteRevoke") : Accept1(a, c1)
Options        == \E a \in Accounts : \E c1 \in CandK(s, a, "Options") : Accept1(a, c1)
Single == \/ PermChange \/ OwnerChange \/ AccountsAdd \/ AccountRemove \/ ReadKeyChange \/ RequestJoin \/ InviteJoin
          \/ RequestAccept \/ RequestDecline \/ RequestCancel \/ RequestRemove \/ Invite \/ InviteChange \/ InviteRevoke \/ Options
Batch  == \E a \in Accounts : \E c1 \in Cand(s, a) :
               LET r1 == Step(s, a, c1, Ctx0(s)) IN
               /\ r1.why = "ok"
               /\ \E c2 \in Cand(r1.s, a) : Accept2(a, c1, c2)
(* CodeStep: some author submits some record of the alphabet and the validating list accepts it.   *)
(* Spec explores single-content records, SpecB also 2-content batches.                            *)
CodeStep  == Single
CodeStepB == Single \/ Batch
Next  == CodeStep
NextB == CodeStepB
Spec  == Init /\ [][Next]_vars
SpecB == Init /\ [][NextB]_vars

(* Ill-matched request-to-join invites: all 12 (permission x key) variants are generated and checked as     *)
(* transitions / successor states; only two are explored further - the one the client builder makes       *)
(* (none, no key) and the most hostile one (Admin, with key) - since the validator never reads the fields. *)
ReqInvCanon(x) == \A i \in InvSet : (x.inv[i].st = "live" /\ x.inv[i].type = "req") =>
                     (<<x.inv[i].perm, x.inv[i].key>> \in {<<"none", FALSE>>, <<"admin", TRUE>>})
DepthBound == ReqInvCanon(s) /\ TLCGet("level") <= MaxDepth + 1   \* evaluated for a successor: level of the successor

(* ------------------------------------------------------------------------------------ *)
(* C04: privilege rules, as predicates over one accepted content step x --(a, c)--> y   *)
(* ------------------------------------------------------------------------------------ *)
OneOwnerIn(x) == Cardinality(Owners(x)) = 1

(* the Admin role (and Admin-granting invites) appear or disappear only by the owner's hand; *)
(* exceptions: an account joining through a live Admin invite; an admin giving up its own role *)
AdminOnlyByOwner(x, a, c, y) ==
  /\ \A t \in Accounts : ((x.perm[t] = "admin") # (y.perm[t] = "admin")) =>
        \/ x.perm[a] = "owner"
        \/ (t = a /\ x.perm[a] = "none" /\ c.k = "InviteJoin" /\ c.i \in LiveAny(x) /\ x.inv[c.i].perm = "admin")
        \/ (t = a /\ x.perm[a] = "admin")                         \* an admin giving up its own role
  /\ \A i \in InvSet : (y.inv[i].st = "live" /\ y.inv[i].type = "any" /\ y.inv[i].perm = "admin"
                        /\ ~(x.inv[i].st = "live" /\ x.inv[i].type = "any" /\ x.inv[i].perm = "admin"))
                       => x.perm[a] = "owner"
OwnershipAndOptionsByOwner(x, a, c, y) ==
  (Owners(x) # Owners(y) \/ x.opts # y.opts) => x.perm[a] = "owner"
MembershipOpsByManagers(x, a, c, y) ==
  /\ \A t \in Accounts \ {a} :
        (x.perm[t] # y.perm[t] \/ x.status[t] # y.status[t] \/ x.req[t] # y.req[t] \/ x.ent[t] # y.ent[t]) => Mgr(x.perm[a])
  /\ x.inv # y.inv => Mgr(x.perm[a])
  /\ Len(y.cf) # Len(x.cf) => Mgr(x.perm[a])
GuestNeverRepermissioned(x, a, c, y) ==
  \A t \in Accounts : x.perm[t] = "guest" => y.perm[t] \in {"guest", "none"}
OwnerNeverDemotedOrRemovedByOthers(x, a, c, y) ==
  \A t \in Accounts : (x.perm[t] = "owner" /\ y.perm[t] # "owner") => t = a
OutsiderOnlyViaLiveInvite(x, a, c, y) ==
  \A t \in Accounts : (x.perm[t] = "none" /\ y.perm[t] # "none") =>
     \/ Mgr(x.perm[a])
     \/ /\ t = a /\ c.k = "InviteJoin" /\ c.i \in LiveAny(x)
        /\ y.perm[t] \in {"reader", "writer", "admin"} /\ LE(y.perm[t], x.inv[c.i].perm)
MemberOnlyAffectsSelf(x, a, c, y) ==
  ~Mgr(x.perm[a]) =>
     /\ \A t \in Accounts \ {a} : x.perm[t] = y.perm[t] /\ x.status[t] = y.status[t] /\ x.req[t] = y.req[t] /\ x.ent[t] = y.ent[t]
     /\ x.inv = y.inv /\ x.opts = y.opts /\ Len(x.cf) = Len(y.cf)
     /\ x.perm[a] # y.perm[a] => (x.perm[a] = "none" /\ c.k = "InviteJoin")
     /\ x.req[a] # y.req[a] => c.k \in {"RequestJoin", "RequestRemove", "RequestCancel", "InviteJoin"}

ContentProps(x, a, c, y) ==
  /\ OneOwnerIn(x) => OneOwnerIn(y)
  /\ AdminOnlyByOwner(x, a, c, y)
  /\ OwnershipAndOptionsByOwner(x, a, c, y)
  /\ MembershipOpsByManagers(x, a, c, y)
  /\ GuestNeverRepermissioned(x, a, c, y)
  /\ OwnerNeverDemotedOrRemovedByOthers(x, a, c, y)
  /\ OutsiderOnlyViaLiveInvite(x, a, c, y)
  /\ MemberOnlyAffectsSelf(x, a, c, y)

(* evaluated on the primed history: every content of the record just accepted *)
PropsOf(l) == \A k \in 1..Len(l.cs) : ContentProps(l.mids[k], l.a, l.cs[k], l.mids[k + 1])
Props == PropsOf(last')
(* Every non-stuttering step of Spec / SpecB is a CodeStep / CodeStepB, hence [][Props]_vars   *)
(* is [][CodeStep => Props]_vars; written without the antecedent because TLC would re-enumerate *)
(* the alphabet for every transition to decide it.                                            *)
Rules == [][Props]_vars                                  \* C04
OneOwner == OneOwnerIn(s)

(* ------------------------------------------------------------------------------------ *)
(* C05: key layer                                                                       *)
(* ------------------------------------------------------------------------------------ *)
MembersDeriveAllIn(x) == \A t \in ActiveAcc(x) : \A g \in Gens(x) : Der(x, t, g)
RemovedDeriveNoNewerIn(x) ==
  \A p \in Principals : ~Standing(x, p) => \A g \in Gens(x) : Der(x, p, g) => g <= x.held[p]
LiveInvitesHoldCurrentIn(x) == \A i \in LiveAny(x) : Der(x, i, Len(x.cf))
(* a record that introduced a generation: its ciphertexts are for exactly the principals with standing *)
RotationCoversExactlyActiveOf(l) ==
  \A k \in 1..Len(l.cs) :
     LET y == l.mids[k + 1] IN
     l.cs[k].k \in {"AccountRemove", "ReadKeyChange"} => y.cf[Len(y.cf)] = ActiveAcc(y) \cup LiveAny(y)

MembersDeriveAll == MembersDeriveAllIn(s)
RemovedDeriveNoNewer == RemovedDeriveNoNewerIn(s)
LiveInvitesHoldCurrent == LiveInvitesHoldCurrentIn(s)
RotationCoversExactlyActive == [][RotationCoversExactlyActiveOf(last')]_vars
KeyInv == MembersDeriveAll /\ RemovedDeriveNoNewer /\ LiveInvitesHoldCurrent

TypeOK ==
  /\ s.perm \in [Accounts -> Perms] /\ s.status \in [Accounts -> Statuses]
  /\ s.req \in [Accounts -> {"none", "join", "remove"}] /\ s.ent \in [Accounts -> BOOLEAN]
  /\ \A t \in Accounts : (s.perm[t] # "none" \/ s.req[t] # "none") => s.ent[t]
  /\ \A i \in InvSet : s.inv[i].st \in {"unused", "live", "revoked"}
  /\ s.opts \in {"unset", "v0", "v1"}
  /\ Len(s.cf) >= 1 /\ \A g \in Gens(s) : s.cf[g] \subseteq Principals

MCView == s
=============================================================================
