SPECIFICATION Spec
CONSTANTS
  AccSeq <- SeqA
  InitPerm <- PermA
  InitRemoved <- RemA
  InvIds <- Inv2
  MaxDepth = 2
  Honest = FALSE
  FIX_ACCEPT_KIND = TRUE
  FIX_ACCEPT_NOPERM = TRUE
  FIX_OWNER_NOT_GUEST = TRUE
  FIX_PERMCHANGE_MEMBER = TRUE
  FIX_ONE_ROTATION = TRUE
CONSTRAINT DepthBound
VIEW MCView
INVARIANT TypeOK OneOwner KeyInv
PROPERTY Rules RotationCoversExactlyActive
CHECK_DEADLOCK FALSE
