SPECIFICATION Spec
CONSTANTS
  AccSeq <- SeqB
  InitPerm <- PermB
  InitRemoved <- RemB
  InvIds <- Inv2
  MaxDepth = 4
  Honest = FALSE
  FIX_ACCEPT_KIND = FALSE
  FIX_ACCEPT_NOPERM = FALSE
  FIX_OWNER_NOT_GUEST = FALSE
  FIX_PERMCHANGE_MEMBER = FALSE
  FIX_ONE_ROTATION = FALSE
CONSTRAINT DepthBound
VIEW MCView
INVARIANT TypeOK OneOwner KeyInv
PROPERTY Rules RotationCoversExactlyActive
CHECK_DEADLOCK FALSE
