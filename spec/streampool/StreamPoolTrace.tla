--------------------------- MODULE StreamPoolTrace ---------------------------
(* Trace validation, action level. The harness' randomised driver steps a real pool through     *)
(* gates (one command = one action of StreamPool) and logs for every command                    *)
(*     {"a": <action>, <arguments and the results it observed>, "st": <projection of the real   *)
(*      pool taken under pool.mu once the pool was quiescent again>}.                           *)
(* The log must be a behaviour of StreamPool (EagerWriter = TRUE): each line is matched by the   *)
(* named action with the logged arguments and results, urgent steps (a consumer re-entering      *)
(* WaitOne, the end of an opening process, a worker's retry) are silent, and before the next     *)
(* line is consumed the specification state must project onto the logged real state. Every       *)
(* invariant and action property of StreamPool is evaluated on the way. A "Reset" line starts a  *)
(* new pool.                                                                                     *)
EXTENDS StreamPool, VerifEmit

ASSUME HwReset
Trace == ndJsonDeserialize(TraceFileName)
VARIABLE l
tvars == <<vars, l>>

Ev == Trace[l]
Has(r, f) == f \in DOMAIN r
SeqOrEmpty(r, f) == IF Has(r, f) THEN r[f] ELSE <<>>

\* the specification state projects onto the logged snapshot of the real pool
Matches(st) ==
    /\ \A p \in Peers : byPeer[p] = SeqOrEmpty(st.byPeer, p)
    /\ \A t \in Tags : byTag[t] = SeqOrEmpty(st.byTag, t)
    /\ DOMAIN st.byPeer \subseteq Peers /\ DOMAIN st.byTag \subseteq Tags
    /\ \A s \in Created :
         /\ S[s].live = Has(st.streams, ToString(s))
         /\ S[s].live => LET r == st.streams[ToString(s)] IN
                         /\ r.peer = S[s].peer /\ r.tags = S[s].tags
                         /\ r.qlen = Len(S[s].q) /\ r.qcap = S[s].qsize
    /\ \A k \in DOMAIN st.streams : \E s \in Created : ToString(s) = k

\* the next line is an event named e; the previous line's snapshot is matched first
IsEvent(e) == /\ l <= Len(Trace) /\ Ev.a = e
              /\ ~Urgent
              /\ (l > 1 => Matches(Trace[l-1].st))
              /\ l' = l + 1

InitVars == /\ S = [s \in Sids |-> NoStream] /\ nst = 0
            /\ byPeer = [p \in Peers |-> <<>>] /\ byTag = [t \in Tags |-> <<>>]
            /\ call = [c \in Callers |-> IdleCall]
            /\ dq = <<>> /\ wk = [w \in Workers |-> IdleWorker]
            /\ opening = [p \in Peers |-> "none"] /\ nmsg = 0
            /\ acc = [s \in Sids |-> <<>>] /\ snt = [s \in Sids |-> <<>>] /\ dlv = [s \in Sids |-> <<>>]
            /\ hook = [s \in Sids |-> <<"-">>]

TraceInit == /\ l = 2 /\ Trace[1].a = "Reset" /\ Init

TrReset == /\ IsEvent("Reset")
           /\ S' = [s \in Sids |-> NoStream] /\ nst' = 0
           /\ byPeer' = [p \in Peers |-> <<>>] /\ byTag' = [t \in Tags |-> <<>>]
           /\ call' = [c \in Callers |-> IdleCall]
           /\ dq' = <<>> /\ wk' = [w \in Workers |-> IdleWorker]
           /\ opening' = [p \in Peers |-> "none"] /\ nmsg' = 0
           /\ acc' = [s \in Sids |-> <<>>] /\ snt' = [s \in Sids |-> <<>>] /\ dlv' = [s \in Sids |-> <<>>]
           /\ hook' = [s \in Sids |-> <<"-">>]
           /\ last' = [a |-> "init"]

StreamParams(e) == [peer |-> e.peer, tags |-> e.tags, qsize |-> e.qsize, kind |-> e.kind]

TrAddStream == IsEvent("AddStream") /\ AddStreamP(Ev.c, StreamParams(Ev)) /\ nst' = Ev.sid
\* message ids are chosen by the driver in increasing order: nmsg + 1 = the logged id
TrSendById  == IsEvent("SendById") /\ nmsg + 1 = Ev.msg /\ StartSendByIdP(Ev.c, Ev.peers)
               /\ last'.ret = Ev.ret
TrBroadcast == IsEvent("Broadcast") /\ nmsg + 1 = Ev.msg /\ StartBroadcastP(Ev.c, Ev.tags)
               /\ last'.ret = Ev.ret
\* the logged outcome is adopted; DropBeyondBound / QueueBounded judge it
TrCallWrite == IsEvent("CallWrite") /\ call[Ev.c].op \in {"sendById", "broadcast"}
               /\ call[Ev.c].msg = Ev.msg /\ call[Ev.c].tg[call[Ev.c].i] = Ev.sid
               /\ CallWriteAs(Ev.c, Ev.res) /\ last'.ret = Ev.ret
TrAddTags    == IsEvent("AddTags") /\ AddTagsP(Ev.c, Ev.sid, Ev.tags) /\ last'.ret = Ev.ret
TrRemoveTags == IsEvent("RemoveTags") /\ RemoveTagsP(Ev.c, Ev.sid, Ev.tags, Ev.byId) /\ last'.ret = Ev.ret
TrWriterDone == IsEvent("WriterDone") /\ WriterDone(Ev.sid) /\ last'.msg = Ev.msg
TrWriterFail == IsEvent("WriterFail") /\ WriterFail(Ev.sid) /\ last'.closer = Ev.closer
TrReaderFail == IsEvent("ReaderFail") /\ ReaderFail(Ev.sid) /\ last'.closer = Ev.closer
TrQueueClose == IsEvent("QueueClose") /\ QueueClose(Ev.sid)
TrStreamClose == IsEvent("StreamClose") /\ StreamClose(Ev.sid)
TrRemoveStream == IsEvent("RemoveStream") /\ RemoveStream(Ev.sid) /\ last'.tags = Ev.tags
TrCloseHook == IsEvent("CloseHook") /\ CloseHook(Ev.sid) /\ last'.tags = Ev.tags /\ last'.peer = Ev.peer
TrSend == IsEvent("Send") /\ nmsg + 1 = Ev.msg /\ SendP(Ev.c, Ev.peers) /\ last'.res = Ev.res
\* peerGetter of the task of message msg returned: the worker's first getStreams
TrWorkerGetStreams == /\ IsEvent("WorkerGetStreams")
                      /\ \E w \in Workers : /\ wk[w].st = "run" /\ wk[w].ph = "start" /\ wk[w].msg = Ev.msg
                                            /\ WorkerGetStreams(w)
TrWorkerWrite == /\ IsEvent("WorkerWrite")
                 /\ \E w \in Workers : /\ wk[w].st = "run" /\ wk[w].ph = "write" /\ wk[w].msg = Ev.msg
                                       /\ wk[w].tg[wk[w].i] = Ev.sid
                                       /\ WorkerWriteAs(w, Ev.res)
TrOpenOk == IsEvent("OpenOk") /\ OpenOkP(Ev.peer, StreamParams(Ev)) /\ nst' = Ev.sid
TrOpenFail == IsEvent("OpenFail") /\ OpenFail(Ev.peer)
\* end of one run: only the snapshot of the previous line is matched
TrEnd == IsEvent("End") /\ UNCHANGED vars

\* steps the gated harness cannot hold back and does not log
Silent == /\ l <= Len(Trace) + 1
          /\ \/ \E s \in Sids : WriterTake(s)
             \/ \E w \in Workers : WorkerTake(w) \/ (wk[w].st = "run" /\ wk[w].ph = "get" /\ WorkerGetStreams(w))
             \/ \E p \in Peers : OpenEnd(p)
          /\ UNCHANGED l

TraceNext == \/ TrReset \/ TrAddStream \/ TrSendById \/ TrBroadcast \/ TrCallWrite \/ TrAddTags \/ TrRemoveTags
             \/ TrWriterDone \/ TrWriterFail \/ TrReaderFail \/ TrQueueClose \/ TrStreamClose \/ TrRemoveStream
             \/ TrCloseHook \/ TrSend \/ TrWorkerGetStreams \/ TrWorkerWrite \/ TrOpenOk \/ TrOpenFail \/ TrEnd
             \/ Silent
TraceSpec == TraceInit /\ [][TraceNext]_tvars

\* CallerNeverWaits is evaluated by the gated driver itself (every call returns while all writers are held);
\* ENABLED over the trace actions is not meaningful here
TraceInv == TypeOK /\ IndexesConsistent /\ QueueBounded /\ FifoPerStream /\ NoEntryAfterClose

Mark == HwMark(l)
TraceAccepted == HwAccepted(Len(Trace))
=============================================================================
