----------------------------- MODULE StreamPool -----------------------------
(* Outbound side of any-sync's stream pool (net/streampool/{streampool,stream,sendpool}.go) *)
(* written from the code: one action per lock section / linearisation point.              *)
(*                                                                                        *)
(*   pool.mu sections : AddStream, snapshot of SendById / Broadcast / getStreams,          *)
(*                      AddTags, RemoveTags, removeStream, end of an opening process       *)
(*   queue (mb) lock  : stream.write = queue.TryAdd (CallWrite / WorkerWrite), the write   *)
(*                      loop's WaitOne (WriterTake), queue.Close (QueueClose),              *)
(*                      dial.TryAdd (Send), the dial worker's WaitOne (WorkerTake)          *)
(*   stream calls     : MsgSend returns (WriterDone / WriterFail), MsgRecv fails           *)
(*                      (ReaderFail), stream.Close (StreamClose), closeHook (CloseHook)     *)
(*                                                                                        *)
(* A bounded queue is cheggaaa/mb: TryAdd rejects when closed or full; when the consumer   *)
(* already waits in WaitOne the added message is handed to it inside TryAdd (the buffer    *)
(* stays empty); messages buffered at Close are still handed out afterwards.               *)
(*                                                                                        *)
(* Deliberate deviations / scope:                                                          *)
(*   - initial tags are duplicate free; a dial (OpenStream) terminates (ok or error)       *)
(*   - peerCtx cancellation is not modelled (the fake streams never cancel their context)  *)
(*   - SendById serves only the first stream that accepts (what the code does,             *)
(*     SendById_FirstOnly; not counted against C19)                                        *)
EXTENDS Integers, Sequences, FiniteSets, TLC

CONSTANTS Peers,        \* peer ids
          Tags,         \* tags
          QSizes,       \* queue sizes a stream may be created with
          Kinds,        \* subset of {"healthy","slow","blocked","failing"}
          MaxStreams,   \* streams ever created (stream ids are 1..MaxStreams, as lastStreamId)
          MaxMsgs,      \* messages ever sent (message ids 1..MaxMsgs)
          Callers,      \* concurrent API callers
          Ops,          \* API operations callers may use
          Workers,      \* dial workers (DialQueueWorkers)
          DialQSize,    \* DialQueueSize
          MaxArgLen,    \* maximal number of peer ids / tags passed to one call
          Plan,         \* <<>> or a sequence of [peer, tags, qsize, kind]: the parameters of the i-th stream created
          EagerWriter   \* TRUE: urgent steps (see Urgent) happen before anything else

AllKinds == {"healthy", "slow", "blocked", "failing"}
ASSUME Kinds \subseteq AllKinds
AllOps == {"addStream", "sendById", "broadcast", "addTags", "removeTags", "removeTagsById", "send"}
ASSUME Ops \subseteq AllOps

NoPlan == <<>>
Sids == 1..MaxStreams
Msgs == 1..MaxMsgs

VARIABLES
  S,        \* [Sids -> stream record], meaningful for ids <= nst
  nst,      \* lastStreamId
  byPeer,   \* streamIdsByPeer : [Peers -> Seq(Sids)]   (absent key = empty sequence)
  byTag,    \* streamIdsByTag  : [Tags  -> Seq(Sids)]
  call,     \* [Callers -> call record]
  dq,       \* dial queue: Seq of tasks [msg, peers]
  wk,       \* [Workers -> dial worker record]
  opening,  \* [Peers -> "none" | "dialing" | "added" | "failed"] : openingProcess per peer
  nmsg,     \* messages created so far
  acc, snt, dlv,   \* history per stream: accepted, taken by the write loop, MsgSend returned nil
  hook,     \* history: [Sids -> <<"-">> | tags] arguments the close hook was called with
  last      \* label of the last step (for behaviour generation; hidden by VIEW when model checking)

vars == <<S, nst, byPeer, byTag, call, dq, wk, opening, nmsg, acc, snt, dlv, hook, last>>
view == <<S, nst, byPeer, byTag, call, dq, wk, opening, nmsg, acc, snt, dlv, hook>>

(* ------------------------------------------------------------------ helpers *)
Range(f) == {f[i] : i \in DOMAIN f}
NoDup(f) == \A i, j \in DOMAIN f : i # j => f[i] # f[j]
SeqsOver(X, n) == UNION {{f \in [1..k -> X] : NoDup(f)} : k \in 1..n}
Remove1(f, x) ==      \* slices.Delete(f, Index(f, x), +1); x must occur (else the code calls log.Fatal)
    LET i == CHOOSE k \in DOMAIN f : f[k] = x /\ \A j \in 1..(k-1) : f[j] # x
    IN  SubSeq(f, 1, i-1) \o SubSeq(f, i+1, Len(f))
SelectSeq2(f, P(_)) == SelectSeq(f, P)
RECURSIVE Concat(_)
Concat(ss) == IF ss = <<>> THEN <<>> ELSE Head(ss) \o Concat(Tail(ss))
RECURSIVE Dedup(_)
Dedup(f) == IF f = <<>> THEN <<>>
            ELSE LET r == Dedup(SubSeq(f, 1, Len(f)-1)) IN
                 IF f[Len(f)] \in Range(r) THEN r ELSE Append(r, f[Len(f)])
\* an arbitrary but fixed order of a set of tags (the order tags are passed in)
RECURSIVE SetToSeq(_)
SetToSeq(X) == IF X = {} THEN <<>> ELSE LET x == CHOOSE y \in X : TRUE IN <<x>> \o SetToSeq(X \ {x})
IsPrefix(a, b) == Len(a) <= Len(b) /\ SubSeq(b, 1, Len(a)) = a

NoStream == [peer |-> "none", kind |-> "none", qsize |-> 0, tags |-> <<>>, live |-> FALSE,
             q |-> <<>>, qclosed |-> FALSE, infl |-> 0, w |-> "none", r |-> "none", cl |-> "none"]
IdleCall == [op |-> "idle", msg |-> 0, tg |-> <<>>, i |-> 0]
IdleWorker == [st |-> "idle", msg |-> 0, peers |-> <<>>, pi |-> 0, ph |-> "none", tg |-> <<>>, i |-> 0]

Created == 1..nst
Live == {s \in Created : S[s].live}
SClosed(s) == S[s].cl \in {"sclosed", "removed", "done"}     \* stream.Close() was called

Init ==
    /\ S = [s \in Sids |-> NoStream] /\ nst = 0
    /\ byPeer = [p \in Peers |-> <<>>] /\ byTag = [t \in Tags |-> <<>>]
    /\ call = [c \in Callers |-> IdleCall]
    /\ dq = <<>> /\ wk = [w \in Workers |-> IdleWorker]
    /\ opening = [p \in Peers |-> "none"]
    /\ nmsg = 0
    /\ acc = [s \in Sids |-> <<>>] /\ snt = [s \in Sids |-> <<>>]
    /\ dlv = [s \in Sids |-> <<>>]
    /\ hook = [s \in Sids |-> <<"-">>]
    /\ last = [a |-> "init"]

\* steps the code takes without passing any point where the environment could hold it: a consumer
\* (re-)entering WaitOne, the end of an opening process, a dial worker's next getStreams
Urgent == \/ \E s \in Created : S[s].w = "idle"
          \/ \E w \in Workers : wk[w].st = "idle" \/ (wk[w].st = "run" /\ wk[w].ph = "get")
          \/ \E p \in Peers : opening[p] \in {"added", "failed"}
Quiet == EagerWriter => ~Urgent

(* ---------------------------------------------------- queue.TryAdd on a stream *)
WriteRes(s) == IF S[s].qclosed THEN "closed"
               ELSE IF Len(S[s].q) >= S[s].qsize THEN "overflow" ELSE "ok"

\* effect of stream.write(m) on stream s with outcome res (the trace specification passes the
\* logged outcome, the design passes WriteRes(s))
WriteAs(s, m, res) ==
    /\ IF res = "ok"
         THEN /\ S' = IF S[s].w = "waiting"
                        THEN [S EXCEPT ![s].w = "sending", ![s].infl = m]     \* handed to the waiting write loop
                        ELSE [S EXCEPT ![s].q = Append(@, m)]
              /\ acc' = [acc EXCEPT ![s] = Append(@, m)]
              /\ snt' = IF S[s].w = "waiting" THEN [snt EXCEPT ![s] = Append(@, m)] ELSE snt
         ELSE UNCHANGED <<S, acc, snt>>

(* ------------------------------------------------------------- AddStream *)
\* pool.addStream under pool.mu; called by AddStream / ReadStream (API) or by the opening process of a peer
NewStream(p, tagseq, qs, k) ==
    [peer |-> p, kind |-> k, qsize |-> qs, tags |-> tagseq, live |-> TRUE, q |-> <<>>, qclosed |-> FALSE,
     infl |-> 0, w |-> "idle", r |-> "reading", cl |-> "open"]

DoAddStream(p, tagseq, qs, k) ==
    LET id == nst + 1 IN
    /\ nst' = id
    /\ S' = [S EXCEPT ![id] = NewStream(p, tagseq, qs, k)]
    /\ byPeer' = [byPeer EXCEPT ![p] = Append(@, id)]
    /\ byTag' = [t \in Tags |-> IF t \in Range(tagseq) THEN Append(byTag[t], id) ELSE byTag[t]]

\* the parameter combinations a new stream may have (all of them, or what the plan prescribes)
NewStreamParams ==
    IF Plan = <<>>
      THEN {[peer |-> p, tags |-> SetToSeq(ts), qsize |-> qs, kind |-> k] : p \in Peers, ts \in SUBSET Tags, qs \in QSizes, k \in Kinds}
      ELSE IF nst < Len(Plan) THEN {Plan[nst + 1]} ELSE {}

AddStreamP(c, x) ==
    /\ call[c].op = "idle" /\ nst < MaxStreams
    /\ DoAddStream(x.peer, x.tags, x.qsize, x.kind)
    /\ last' = [a |-> "AddStream", c |-> c, sid |-> nst + 1, peer |-> x.peer, tags |-> x.tags, qsize |-> x.qsize, kind |-> x.kind]
    /\ UNCHANGED <<call, dq, wk, opening, nmsg, acc, snt, dlv, hook>>

AddStream(c) == /\ "addStream" \in Ops /\ Quiet
                /\ \E x \in NewStreamParams : AddStreamP(c, x)

(* -------------------------------------------------- SendById and Broadcast *)
\* snapshot under pool.mu; an empty snapshot makes the call return at once
StartSendByIdP(c, ps) ==
    /\ call[c].op = "idle" /\ nmsg < MaxMsgs
    /\   LET tg == Concat([i \in 1..Len(ps) |-> byPeer[ps[i]]]) IN
         /\ call' = [call EXCEPT ![c] = IF tg = <<>> THEN IdleCall
                                        ELSE [op |-> "sendById", msg |-> nmsg + 1, tg |-> tg, i |-> 1]]
         /\ last' = [a |-> "SendById", c |-> c, msg |-> nmsg + 1, peers |-> ps, tg |-> tg,
                     ret |-> IF tg = <<>> THEN "unableToConnect" ELSE "pending"]
    /\ nmsg' = nmsg + 1
    /\ UNCHANGED <<S, nst, byPeer, byTag, dq, wk, opening, acc, snt, dlv, hook>>
StartSendById(c) == /\ "sendById" \in Ops /\ Quiet
                    /\ \E ps \in SeqsOver(Peers, MaxArgLen) : StartSendByIdP(c, ps)

StartBroadcastP(c, ts) ==
    /\ call[c].op = "idle" /\ nmsg < MaxMsgs
    /\   LET tg == Dedup(Concat([i \in 1..Len(ts) |-> byTag[ts[i]]])) IN
         /\ call' = [call EXCEPT ![c] = IF tg = <<>> THEN IdleCall
                                        ELSE [op |-> "broadcast", msg |-> nmsg + 1, tg |-> tg, i |-> 1]]
         /\ last' = [a |-> "Broadcast", c |-> c, msg |-> nmsg + 1, tags |-> ts, tg |-> tg,
                     ret |-> IF tg = <<>> THEN "ok" ELSE "pending"]
    /\ nmsg' = nmsg + 1
    /\ UNCHANGED <<S, nst, byPeer, byTag, dq, wk, opening, acc, snt, dlv, hook>>
StartBroadcast(c) == /\ "broadcast" \in Ops /\ Quiet
                     /\ \E ts \in SeqsOver(Tags, MaxArgLen) : StartBroadcastP(c, ts)

\* one stream.write of a running SendById / Broadcast, with outcome res
CallWriteAs(c, res) ==
    LET k == call[c]  s == k.tg[k.i]
        fin == \/ k.i = Len(k.tg)
               \/ (k.op = "sendById" /\ res = "ok")      \* SendById_FirstOnly: returns after the first success
    IN
    /\ k.op \in {"sendById", "broadcast"}
    /\ WriteAs(s, k.msg, res)
    /\ call' = [call EXCEPT ![c] = IF fin THEN IdleCall ELSE [k EXCEPT !.i = k.i + 1]]
    /\ last' = [a |-> "CallWrite", c |-> c, sid |-> s, msg |-> k.msg, res |-> res, ret |-> IF fin THEN "ok" ELSE "pending"]
    /\ UNCHANGED <<nst, byPeer, byTag, dq, wk, opening, nmsg, dlv, hook>>

CallWrite(c) == /\ call[c].op \in {"sendById", "broadcast"} /\ Quiet
                /\ CallWriteAs(c, WriteRes(call[c].tg[call[c].i]))

(* --------------------------------------------------------------- tags *)
\* AddTagsCtx: under pool.mu; "stream not found" when the stream is no longer in the pool
AddTagsP(c, s, ts) ==
    /\ call[c].op = "idle" /\ s \in Created
    /\   LET new == SelectSeq2(ts, LAMBDA t : t \notin Range(S[s].tags)) IN
         IF S[s].live
           THEN /\ S' = [S EXCEPT ![s].tags = @ \o new]
                /\ byTag' = [t \in Tags |-> IF t \in Range(new) THEN Append(byTag[t], s) ELSE byTag[t]]
                /\ last' = [a |-> "AddTags", c |-> c, sid |-> s, tags |-> ts, ret |-> "ok"]
           ELSE /\ UNCHANGED <<S, byTag>>
                /\ last' = [a |-> "AddTags", c |-> c, sid |-> s, tags |-> ts, ret |-> "notFound"]
    /\ UNCHANGED <<nst, byPeer, call, dq, wk, opening, nmsg, acc, snt, dlv, hook>>
AddTags(c) == /\ "addTags" \in Ops /\ Quiet
              /\ \E s \in Created, ts \in SeqsOver(Tags, MaxArgLen) : AddTagsP(c, s, ts)

\* RemoveTagsCtx (error when the stream is gone) and RemoveTagsById (nil when it is gone)
RemoveTagsP(c, s, ts, byId) ==
    /\ call[c].op = "idle" /\ s \in Created
    /\   LET keep == SelectSeq2(S[s].tags, LAMBDA t : t \notin Range(ts))
             gone == {t \in Range(S[s].tags) : t \in Range(ts)} IN
         IF S[s].live
           THEN /\ S' = [S EXCEPT ![s].tags = keep]
                /\ byTag' = [t \in Tags |-> IF t \in gone THEN Remove1(byTag[t], s) ELSE byTag[t]]
                /\ last' = [a |-> "RemoveTags", c |-> c, sid |-> s, tags |-> ts, byId |-> byId, ret |-> "ok"]
           ELSE /\ UNCHANGED <<S, byTag>>
                /\ last' = [a |-> "RemoveTags", c |-> c, sid |-> s, tags |-> ts, byId |-> byId,
                            ret |-> IF byId THEN "ok" ELSE "notFound"]
    /\ UNCHANGED <<nst, byPeer, call, dq, wk, opening, nmsg, acc, snt, dlv, hook>>
RemoveTagsOp(c, byId) ==
    /\ (IF byId THEN "removeTagsById" ELSE "removeTags") \in Ops /\ Quiet
    /\ \E s \in Created, ts \in SeqsOver(Tags, MaxArgLen) : RemoveTagsP(c, s, ts, byId)
RemoveTags(c) == RemoveTagsOp(c, FALSE)
RemoveTagsById(c) == RemoveTagsOp(c, TRUE)

(* ------------------------------------------------------------ write loop *)
\* WaitOne: take the head (also after queue.Close), or return ErrClosed, or start waiting
WriterTake(s) ==
    /\ s \in Created /\ S[s].w = "idle"
    /\ IF S[s].q # <<>>
         THEN /\ S' = [S EXCEPT ![s].w = "sending", ![s].infl = Head(S[s].q), ![s].q = Tail(@)]
              /\ snt' = [snt EXCEPT ![s] = Append(@, Head(S[s].q))]
              /\ last' = [a |-> "WriterTake", sid |-> s, msg |-> Head(S[s].q)]
         ELSE /\ S' = [S EXCEPT ![s].w = IF S[s].qclosed THEN "exit" ELSE "waiting"]
              /\ snt' = snt
              /\ last' = [a |-> "WriterWait", sid |-> s, exit |-> S[s].qclosed]
    /\ UNCHANGED <<nst, byPeer, byTag, call, dq, wk, opening, nmsg, acc, dlv, hook>>

\* MsgSend returned nil (only a stream that was not closed lets a send through)
WriterDone(s) ==
    /\ s \in Created /\ S[s].w = "sending" /\ Quiet
    /\ S[s].kind \in {"healthy", "slow", "failing"} /\ ~SClosed(s)
    /\ S' = [S EXCEPT ![s].w = "idle", ![s].infl = 0]
    /\ dlv' = [dlv EXCEPT ![s] = Append(@, S[s].infl)]
    /\ last' = [a |-> "WriterDone", sid |-> s, msg |-> S[s].infl]
    /\ UNCHANGED <<nst, byPeer, byTag, call, dq, wk, opening, nmsg, acc, snt, hook>>

\* MsgSend returned an error: streamClose; only the first closer proceeds (closed.Swap)
WriterFail(s) ==
    /\ s \in Created /\ S[s].w = "sending" /\ Quiet
    /\ S[s].kind = "failing" \/ SClosed(s)
    /\ S' = [S EXCEPT ![s].w = "exit", ![s].infl = 0, ![s].cl = IF @ = "open" THEN "begun" ELSE @]
    /\ last' = [a |-> "WriterFail", sid |-> s, msg |-> S[s].infl, closer |-> S[s].cl = "open"]
    /\ UNCHANGED <<nst, byPeer, byTag, call, dq, wk, opening, nmsg, acc, snt, dlv, hook>>

\* MsgRecv returned an error (peer went away, or the stream was closed locally): streamClose
ReaderFail(s) ==
    /\ s \in Created /\ S[s].r = "reading" /\ Quiet
    /\ S[s].kind \in {"failing", "blocked"} \/ SClosed(s)
    /\ S' = [S EXCEPT ![s].r = "exit", ![s].cl = IF @ = "open" THEN "begun" ELSE @]
    /\ last' = [a |-> "ReaderFail", sid |-> s, closer |-> S[s].cl = "open"]
    /\ UNCHANGED <<nst, byPeer, byTag, call, dq, wk, opening, nmsg, acc, snt, dlv, hook>>

(* ------------------------------------------------- streamClose, step by step *)
QueueClose(s) ==
    /\ s \in Created /\ S[s].cl = "begun" /\ Quiet
    /\ S' = [S EXCEPT ![s].qclosed = TRUE, ![s].cl = "qclosed",
                      ![s].w = IF @ = "waiting" THEN "exit" ELSE @]       \* waiter channel closed -> ErrClosed
    /\ last' = [a |-> "QueueClose", sid |-> s]
    /\ UNCHANGED <<nst, byPeer, byTag, call, dq, wk, opening, nmsg, acc, snt, dlv, hook>>

StreamClose(s) ==
    /\ s \in Created /\ S[s].cl = "qclosed" /\ Quiet
    /\ S' = [S EXCEPT ![s].cl = "sclosed"]
    /\ last' = [a |-> "StreamClose", sid |-> s]
    /\ UNCHANGED <<nst, byPeer, byTag, call, dq, wk, opening, nmsg, acc, snt, dlv, hook>>

\* pool.removeStream under pool.mu
RemoveStream(s) ==
    /\ s \in Created /\ S[s].cl = "sclosed" /\ Quiet
    /\ byPeer' = [byPeer EXCEPT ![S[s].peer] = Remove1(@, s)]
    /\ byTag' = [t \in Tags |-> IF t \in Range(S[s].tags) THEN Remove1(byTag[t], s) ELSE byTag[t]]
    /\ S' = [S EXCEPT ![s].live = FALSE, ![s].cl = "removed"]
    /\ last' = [a |-> "RemoveStream", sid |-> s, tags |-> S[s].tags]
    /\ UNCHANGED <<nst, call, dq, wk, opening, nmsg, acc, snt, dlv, hook>>

CloseHook(s) ==
    /\ s \in Created /\ S[s].cl = "removed" /\ Quiet
    /\ S' = [S EXCEPT ![s].cl = "done"]
    /\ hook' = [hook EXCEPT ![s] = S[s].tags]
    /\ last' = [a |-> "CloseHook", sid |-> s, peer |-> S[s].peer, tags |-> S[s].tags]
    /\ UNCHANGED <<nst, byPeer, byTag, call, dq, wk, opening, nmsg, acc, snt, dlv>>

(* ------------------------------------------------------ Send and the dial pool *)
\* Send = dial.TryAdd(task): bounded, never waits; a waiting worker gets the task at once
SendP(c, ps) ==
    /\ call[c].op = "idle" /\ nmsg < MaxMsgs
    /\   LET task == [msg |-> nmsg + 1, peers |-> ps]
             res == IF Len(dq) >= DialQSize THEN "overflow" ELSE "ok"
             waiting == {w \in Workers : wk[w].st = "waiting"} IN
         /\ IF res = "ok" /\ waiting # {}
              THEN \E w \in waiting :      \* mb hands the task to one of the waiting workers
                     /\ wk' = [wk EXCEPT ![w] = [IdleWorker EXCEPT !.st = "run", !.msg = task.msg, !.peers = ps, !.pi = 1, !.ph = "start"]]
                     /\ dq' = dq
                     /\ last' = [a |-> "Send", c |-> c, msg |-> task.msg, peers |-> ps, res |-> res, worker |-> w]
              ELSE /\ dq' = IF res = "ok" THEN Append(dq, task) ELSE dq
                   /\ wk' = wk
                   /\ last' = [a |-> "Send", c |-> c, msg |-> task.msg, peers |-> ps, res |-> res, worker |-> "none"]
    /\ nmsg' = nmsg + 1
    /\ UNCHANGED <<S, nst, byPeer, byTag, call, opening, acc, snt, dlv, hook>>
Send(c) == /\ "send" \in Ops /\ Quiet
           /\ \E ps \in SeqsOver(Peers, MaxArgLen) : SendP(c, ps)

\* the worker's WaitOne
WorkerTake(w) ==
    /\ wk[w].st = "idle"
    /\ IF dq # <<>>
         THEN /\ wk' = [wk EXCEPT ![w] = [IdleWorker EXCEPT !.st = "run", !.msg = Head(dq).msg, !.peers = Head(dq).peers, !.pi = 1, !.ph = "start"]]
              /\ dq' = Tail(dq)
              /\ last' = [a |-> "WorkerTake", w |-> w, msg |-> Head(dq).msg]
         ELSE /\ wk' = [wk EXCEPT ![w].st = "waiting"]
              /\ dq' = dq
              /\ last' = [a |-> "WorkerWait", w |-> w]
    /\ UNCHANGED <<S, nst, byPeer, byTag, call, opening, nmsg, acc, snt, dlv, hook>>

\* after the last peer the task function returns and the worker re-enters WaitOne
NextPeer(k) == IF k.pi = Len(k.peers) THEN IdleWorker
               ELSE [k EXCEPT !.pi = k.pi + 1, !.ph = "get", !.tg = <<>>, !.i = 0]

\* getStreams under pool.mu: cached streams, or join / start the opening process of the peer
WorkerGetStreams(w) ==
    LET k == wk[w]  p == k.peers[k.pi] IN
    /\ k.st = "run" /\ (k.ph = "get" \/ (k.ph = "start" /\ Quiet))    \* "start": peerGetter returns
    /\ IF byPeer[p] # <<>>
         THEN /\ wk' = [wk EXCEPT ![w].ph = "write", ![w].tg = byPeer[p], ![w].i = 1]
              /\ opening' = opening
              /\ last' = [a |-> "WorkerGetStreams", w |-> w, msg |-> k.msg, peer |-> p, tg |-> byPeer[p], open |-> "no", first |-> k.ph = "start"]
         ELSE /\ wk' = [wk EXCEPT ![w].ph = "waitopen"]
              /\ opening' = [opening EXCEPT ![p] = IF @ = "none" THEN "dialing" ELSE @]
              /\ last' = [a |-> "WorkerGetStreams", w |-> w, msg |-> k.msg, peer |-> p, tg |-> <<>>,
                          open |-> IF opening[p] = "none" THEN "start" ELSE "join", first |-> k.ph = "start"]
    /\ UNCHANGED <<S, nst, byPeer, byTag, call, dq, nmsg, acc, snt, dlv, hook>>

\* handler.OpenStream succeeded and pool.AddStream entered the new stream (pool.mu)
OpenOkP(p, x) ==
    /\ opening[p] = "dialing" /\ nst < MaxStreams /\ x.peer = p
    /\ DoAddStream(p, x.tags, x.qsize, x.kind)
    /\ last' = [a |-> "OpenOk", sid |-> nst + 1, peer |-> p, tags |-> x.tags, qsize |-> x.qsize, kind |-> x.kind]
    /\ opening' = [opening EXCEPT ![p] = "added"]
    /\ UNCHANGED <<call, dq, wk, nmsg, acc, snt, dlv, hook>>
OpenOk(p) == Quiet /\ \E x \in NewStreamParams : OpenOkP(p, x)

\* handler.OpenStream failed
OpenFail(p) ==
    /\ opening[p] = "dialing" /\ Quiet
    /\ opening' = [opening EXCEPT ![p] = "failed"]
    /\ last' = [a |-> "OpenFail", peer |-> p]
    /\ UNCHANGED <<S, nst, byPeer, byTag, call, dq, wk, nmsg, acc, snt, dlv, hook>>

\* the deferred section of the opening goroutine (pool.mu): close(op.ch), delete(opening, p);
\* every worker waiting on this process retries getStreams or gives up on the peer
OpenEnd(p) ==
    /\ opening[p] \in {"added", "failed"}
    /\ wk' = [w \in Workers |->
               IF wk[w].st = "run" /\ wk[w].ph = "waitopen" /\ wk[w].peers[wk[w].pi] = p
                 THEN IF opening[p] = "added" THEN [wk[w] EXCEPT !.ph = "get"] ELSE NextPeer(wk[w])
                 ELSE wk[w]]
    /\ opening' = [opening EXCEPT ![p] = "none"]
    /\ last' = [a |-> "OpenEnd", peer |-> p, ok |-> opening[p] = "added"]
    /\ UNCHANGED <<S, nst, byPeer, byTag, call, dq, nmsg, acc, snt, dlv, hook>>

\* sendOne: write to the cached streams in order until one accepts
WorkerWriteAs(w, res) ==
    LET k == wk[w]  s == k.tg[k.i]
        fin == res = "ok" \/ k.i = Len(k.tg) IN
    /\ k.st = "run" /\ k.ph = "write"
    /\ WriteAs(s, k.msg, res)
    /\ wk' = [wk EXCEPT ![w] = IF fin THEN NextPeer(k) ELSE [k EXCEPT !.i = k.i + 1]]
    /\ last' = [a |-> "WorkerWrite", w |-> w, sid |-> s, msg |-> k.msg, res |-> res, fin |-> fin]
    /\ UNCHANGED <<nst, byPeer, byTag, call, dq, opening, nmsg, dlv, hook>>

WorkerWrite(w) == /\ wk[w].st = "run" /\ wk[w].ph = "write" /\ Quiet
                  /\ WorkerWriteAs(w, WriteRes(wk[w].tg[wk[w].i]))

(* ------------------------------------------------------------------ Next *)
CallerStep(c) == CallWrite(c)
ApiStart(c) == \/ AddStream(c) \/ StartSendById(c) \/ StartBroadcast(c) \/ AddTags(c)
               \/ RemoveTags(c) \/ RemoveTagsById(c) \/ Send(c)
StreamStep(s) == \/ WriterTake(s) \/ WriterDone(s) \/ WriterFail(s) \/ ReaderFail(s)
                 \/ QueueClose(s) \/ StreamClose(s) \/ RemoveStream(s) \/ CloseHook(s)
WorkerStep(w) == WorkerTake(w) \/ WorkerGetStreams(w) \/ WorkerWrite(w)
OpenStep(p) == OpenOk(p) \/ OpenFail(p) \/ OpenEnd(p)

Next == \/ \E c \in Callers : ApiStart(c) \/ CallerStep(c)
        \/ \E s \in Sids : StreamStep(s)
        \/ \E w \in Workers : WorkerStep(w)
        \/ \E p \in Peers : OpenStep(p)

\* progress of a healthy stream's write loop, of the close sequence, of the workers and of dials
Healthy(s) == s \in Created /\ S[s].kind = "healthy"
Fairness ==
    /\ \A s \in Sids : WF_vars(WriterTake(s))
    /\ \A s \in Sids : WF_vars(Healthy(s) /\ WriterDone(s))
    /\ \A s \in Sids : WF_vars(QueueClose(s) \/ StreamClose(s) \/ RemoveStream(s) \/ CloseHook(s))
    /\ \A s \in Sids : WF_vars(SClosed(s) /\ (WriterFail(s) \/ ReaderFail(s)))

Spec == Init /\ [][Next]_vars /\ Fairness

(* ------------------------------------------------------------ properties *)
TypeOK ==
    /\ nst \in 0..MaxStreams /\ nmsg \in 0..MaxMsgs
    /\ \A s \in Created : /\ S[s].w \in {"idle", "waiting", "sending", "exit"}
                          /\ S[s].r \in {"reading", "exit"}
                          /\ S[s].cl \in {"open", "begun", "qclosed", "sclosed", "removed", "done"}
                          /\ (S[s].infl # 0) = (S[s].w = "sending")
                          /\ S[s].live = (S[s].cl \in {"open", "begun", "qclosed", "sclosed"})
                          /\ S[s].qclosed = (S[s].cl \notin {"open", "begun"})
    /\ \A s \in Sids \ Created : S[s] = NoStream

\* the three indexes mirror exactly the streams in the pool (the code treats a miss as fatal)
IndexesConsistent ==
    /\ \A p \in Peers : NoDup(byPeer[p]) /\ Range(byPeer[p]) = {s \in Live : S[s].peer = p}
    /\ \A t \in Tags : NoDup(byTag[t]) /\ Range(byTag[t]) = {s \in Live : t \in Range(S[s].tags)}
    /\ \A s \in Created : NoDup(S[s].tags)

QueueBounded == \A s \in Created : Len(S[s].q) <= S[s].qsize

\* accepted = taken by the write loop, then what is still queued: nothing skipped, nothing reordered
FifoPerStream == \A s \in Created : /\ acc[s] = snt[s] \o S[s].q
                                    /\ IsPrefix(dlv[s], snt[s])
                                    /\ Len(snt[s]) - Len(dlv[s]) <= 1
                                    /\ NoDup(acc[s])

\* a message is rejected only by a full or closed queue and accepted only below the bound by an open queue
IsWrite(l) == l.a \in {"CallWrite", "WorkerWrite"}
DropBeyondBound ==
    [][/\ (IsWrite(last') /\ last'.res # "ok") => (S[last'.sid].qclosed \/ Len(S[last'.sid].q) >= S[last'.sid].qsize)
       /\ \A s \in Sids : Len(acc'[s]) > Len(acc[s]) => (~S[s].qclosed /\ Len(S[s].q) < S[s].qsize)]_vars

\* every step of a running API call is enabled whatever the write loops, readers, closers, dials do
CallerNeverWaits == \A c \in Callers : call[c].op # "idle" => ENABLED CallerStep(c)

\* a stream that left the pool is never chosen again and never accepts again; the hook saw its tags
NoTargetAfterClose ==
    [][/\ \A c \in Callers : (call'[c].tg # call[c].tg /\ call[c].op = "idle") => Range(call'[c].tg) \subseteq Live
       /\ \A w \in Workers : (wk'[w].tg # wk[w].tg /\ wk'[w].tg # <<>>) => Range(wk'[w].tg) \subseteq Live
       /\ \A s \in Sids : Len(acc'[s]) > Len(acc[s]) => s \in Live]_vars
NoEntryAfterClose ==
    \A s \in Created : ~S[s].live =>
        /\ \A p \in Peers : s \notin Range(byPeer[p])
        /\ \A t \in Tags : s \notin Range(byTag[t])
        /\ (S[s].cl = "done" => hook[s] = S[s].tags)

Inv == TypeOK /\ IndexesConsistent /\ QueueBounded /\ FifoPerStream /\ CallerNeverWaits /\ NoEntryAfterClose

\* Isolation: what a healthy stream accepted is delivered, whatever the other streams do
Isolation == \A s \in Sids, m \in Msgs :
    (Healthy(s) /\ m \in Range(acc[s])) ~> (m \in Range(dlv[s]))

\* a stream whose close began leaves the pool and its hook runs
CloseCompletes == \A s \in Sids : (s \in Created /\ S[s].cl = "begun") ~> (S[s].cl = "done")
=============================================================================
