---------------------------- MODULE StreamPoolMC ----------------------------
(* Exhaustive model checking of StreamPool for fixed stream plans (the parameters of the i-th   *)
(* stream created). checks/C19.py generates further plans (module StreamPoolPlans) on the fly. *)
EXTENDS StreamPool

St(p, tags, qs, k) == [peer |-> p, tags |-> tags, qsize |-> qs, kind |-> k]

Plan_hb1 == <<St("p1", <<"a">>, 1, "healthy"), St("p1", <<"a">>, 1, "blocked")>>
Plan_fb1 == <<St("p1", <<"a">>, 1, "failing"), St("p1", <<"a">>, 1, "blocked")>>
Plan_bf1 == <<St("p1", <<"a">>, 1, "blocked"), St("p1", <<"a">>, 1, "failing")>>
Plan_ff1 == <<St("p1", <<"a">>, 1, "failing"), St("p1", <<"a">>, 1, "failing")>>
Plan_hf2 == <<St("p1", <<"a">>, 2, "healthy"), St("p2", <<"a">>, 1, "failing")>>
Plan_tags == <<St("p1", <<"a">>, 1, "failing"), St("p2", <<"b", "a">>, 1, "blocked")>>
Plan_dial == <<St("p1", <<"a">>, 1, "failing"), St("p2", <<>>, 1, "blocked")>>
Plan_live == <<St("p1", <<"a">>, 1, "healthy"), St("p1", <<"a">>, 1, "blocked")>>
=============================================================================
