SPECIFICATION Spec
CONSTANTS
  MaxSid = 64
  Adopt = FALSE
  Slack = 1
INVARIANT IndexesConsistent NoEntryAfterClose QueueBounded FifoPerStream SingleWriter DropBeyondBound CloseOnce
CONSTRAINT Mark
POSTCONDITION TraceAccepted
CHECK_DEADLOCK FALSE
