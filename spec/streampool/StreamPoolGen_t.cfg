INIT GenInit
NEXT GenNext
CONSTANTS
  Peers = {"p1", "p2", "p3"}
  Tags = {"a", "b"}
  QSizes = {1, 2, 3}
  Kinds = {"healthy", "slow", "blocked", "failing"}
  MaxStreams = 5
  MaxMsgs = 14
  Callers = {"c1", "c2", "c3"}
  Ops = {"addStream", "sendById", "broadcast", "addTags", "removeTags", "removeTagsById", "send"}
  Workers = {"w1", "w2"}
  DialQSize = 2
  MaxArgLen = 2
  EagerWriter = TRUE
  Plan <- NoPlan
  GenDepth = 65
  MaxTagOps = 6
INVARIANT Emit
CHECK_DEADLOCK FALSE
