--------------------------- MODULE MultiQueueTrace ---------------------------
(* Trace validation for util/multiqueue: the harness drives a real MultiQueue with a gated handler *)
(* (one command at a time) and logs the calls with their results; a call that has a second lock     *)
(* section is logged as two lines (Add / AddPut, CloseThread / CtClose, Close / ClClose.. / ClDone). *)
(* Lines with an "st" field carry the observation of the real object at quiescence: ThreadIds(),     *)
(* the size balance seen by the updater, the message each handler holds.                             *)
EXTENDS MultiQueue, VerifEmit

ASSUME HwReset
Trace == ndJsonDeserialize(TraceFileName)
VARIABLE l
tvars == <<vars, l>>
Ev == Trace[l]
C == CHOOSE c \in Callers : TRUE

Matches(st) ==
    /\ {t \in Threads : thr[t] # 0} = Range(st.threads)
    /\ size = st.size
    /\ \A i \in 1..nq : IF Q[i].h = "handling" THEN ToString(i) \in DOMAIN st.handling /\ st.handling[ToString(i)] = Q[i].infl
                        ELSE ToString(i) \notin DOMAIN st.handling

PrevOk == l > 1 /\ "st" \in DOMAIN Trace[l-1] => Matches(Trace[l-1].st)
LoopsSettled == \A i \in 1..nq : Q[i].h # "idle"
IsEvent(e) == l <= Len(Trace) /\ Ev.a = e /\ LoopsSettled /\ PrevOk /\ l' = l + 1

TraceInit == l = 2 /\ Trace[1].a = "Reset" /\ Init
TrReset == /\ IsEvent("Reset")
           /\ closed' = FALSE /\ thr' = [t \in Threads |-> 0]
           /\ Q' = [i \in Qids |-> NoQueue] /\ nq' = 0 /\ nmsg' = 0
           /\ call' = [c \in Callers |-> IdleCall] /\ size' = 0
           /\ acc' = [i \in Qids |-> <<>>] /\ hdl' = [i \in Qids |-> <<>>]
           /\ last' = [a |-> "init"]
TrAdd == IsEvent("Add") /\ nmsg + 1 = Ev.msg /\ AddStartP(C, Ev.t) /\ last'.ret = Ev.ret
TrAddPut == IsEvent("AddPut") /\ call[C].op = "add" /\ call[C].msg = Ev.msg /\ AddPutAs(C, Ev.res)
TrHandlerDone == IsEvent("HandlerDone") /\ HandlerDone(Ev.qid) /\ last'.msg = Ev.msg
TrCloseThread == IsEvent("CloseThread") /\ CtStartP(C, Ev.t) /\ last'.ret = Ev.ret
TrCtClose == IsEvent("CtClose") /\ CtClose(C)
TrClose == IsEvent("Close") /\ ClStart(C) /\ last'.ret = Ev.ret
TrClClose == (IsEvent("ClClose") \/ IsEvent("ClDone")) /\ ClClose(C) /\ last'.a = Ev.a
TrEnd == IsEvent("End") /\ UNCHANGED vars
Silent == (\E i \in Qids : LoopTake(i)) /\ UNCHANGED l

TraceNext == TrReset \/ TrAdd \/ TrAddPut \/ TrHandlerDone \/ TrCloseThread \/ TrCtClose \/ TrClose \/ TrClClose
             \/ TrEnd \/ Silent
TraceSpec == TraceInit /\ [][TraceNext]_tvars
Mark == HwMark(l)
TraceAccepted == HwAccepted(Len(Trace))
=============================================================================
