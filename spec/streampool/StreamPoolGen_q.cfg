INIT GenInit
NEXT GenNext
CONSTANTS
  Peers = {"p1", "p2"}
  Tags = {"a", "b"}
  QSizes = {1, 2, 3}
  Kinds = {"healthy", "slow", "blocked", "failing"}
  MaxStreams = 3
  MaxMsgs = 8
  Callers = {"c1", "c2"}
  Ops = {"addStream", "sendById", "broadcast", "addTags", "removeTags", "removeTagsById"}
  Workers = {}
  DialQSize = 1
  MaxArgLen = 2
  EagerWriter = TRUE
  Plan <- NoPlan
  GenDepth = 40
  MaxTagOps = 5
INVARIANT Emit
CHECK_DEADLOCK FALSE
