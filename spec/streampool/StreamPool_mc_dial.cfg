INIT Init
NEXT Next
CONSTANTS
  Peers = {"p1", "p2"}
  Tags = {"a"}
  QSizes = {1}
  Kinds = {"healthy", "slow", "blocked", "failing"}
  MaxStreams = 2
  MaxMsgs = 2
  Callers = {"c1"}
  Ops = {"send"}
  Workers = {"w1"}
  DialQSize = 1
  MaxArgLen = 2
  EagerWriter = FALSE
  Plan <- Plan_dial
VIEW view
INVARIANT Inv
PROPERTY DropBeyondBound
PROPERTY NoTargetAfterClose
CHECK_DEADLOCK FALSE
