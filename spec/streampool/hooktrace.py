"""Prepare a raw `verif` hook trace of net/streampool (one JSON VerifEvent per line, possibly of several
pools, possibly out of order) for StreamPoolHookTrace.tla: order by sequence number, one run per pool
(separated by a reset line), message keys -> small integers, error texts -> ok/overflow/closed."""
import json
import sys

RES = {"": "ok", "mb: overflowed": "overflow", "mb: MB closed": "closed"}


def prepare(src, dst):
    evs = []
    for line in open(src):
        line = line.strip()
        if line:
            evs.append(json.loads(line))
    evs.sort(key=lambda e: e["seq"])
    pools = {}
    for e in evs:
        pools.setdefault(e["pool"], []).append(e)
    n = 0
    max_sid = 1
    with open(dst, "w") as out:
        for pool in sorted(pools, key=lambda p: pools[p][0]["seq"]):
            out.write(json.dumps({"ev": "reset"}) + "\n")
            n += 1
            msgs = {}
            for e in pools[pool]:
                if e["ev"] == "writeBegin":
                    continue
                r = {"ev": e["ev"], "sid": e["sid"], "peer": e.get("peer", ""), "tags": e.get("tags") or [],
                     "seq": e["seq"]}
                max_sid = max(max_sid, e["sid"])
                if e["ev"] in ("write", "take", "sent", "sendErr"):
                    r["msg"] = msgs.setdefault(e["msg"], len(msgs) + 1)
                    r["res"] = RES.get(e.get("err", ""), "error") if e["ev"] == "write" else ""
                    r["bseq"] = e.get("bseq", 0)
                if e["ev"] == "addStream":
                    r["qcap"] = e["qcap"]
                if e.get("state") is not None:
                    r["state"] = e["state"]
                out.write(json.dumps(r) + "\n")
                n += 1
    return n, max_sid, len(pools)


if __name__ == "__main__":
    print(prepare(sys.argv[1], sys.argv[2]))
