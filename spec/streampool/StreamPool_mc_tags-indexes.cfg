INIT Init
NEXT Next
CONSTANTS
  Peers = {"p1", "p2"}
  Tags = {"a", "b"}
  QSizes = {1}
  Kinds = {"healthy", "slow", "blocked", "failing"}
  MaxStreams = 2
  MaxMsgs = 1
  Callers = {"c1"}
  Ops = {"addStream", "broadcast", "addTags", "removeTags", "removeTagsById"}
  Workers = {}
  DialQSize = 1
  MaxArgLen = 1
  EagerWriter = FALSE
  Plan <- Plan_tags
VIEW view
INVARIANT Inv
PROPERTY DropBeyondBound
PROPERTY NoTargetAfterClose
CHECK_DEADLOCK FALSE
