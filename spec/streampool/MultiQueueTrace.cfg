SPECIFICATION TraceSpec
CONSTANTS
  Threads = {"t1", "t2", "t3"}
  QSize = 2
  MaxQueues = 40
  MaxMsgs = 200
  Callers = {"c1"}
  Blocked = {"t1"}
  Eager = TRUE
INVARIANT TypeOK QueueBounded FifoPerQueue MapConsistent SizeIsBuffered
PROPERTY DropBeyondBound
PROPERTY NoAddAfterClose
CONSTRAINT Mark
POSTCONDITION TraceAccepted
CHECK_DEADLOCK FALSE
