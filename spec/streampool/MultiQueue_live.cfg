SPECIFICATION Spec
CONSTANTS
  Threads = {"t1", "t2"}
  QSize = 1
  MaxQueues = 2
  MaxMsgs = 3
  Callers = {"c1"}
  Blocked = {"t1"}
  Eager = FALSE
INVARIANT Inv
PROPERTY Isolation
CHECK_DEADLOCK FALSE
