----------------------------- MODULE MultiQueue -----------------------------
(* Receive side of C19: util/multiqueue (used by commonspace/sync for incoming messages). One   *)
(* bounded queue (cheggaaa/mb) and one handler loop per thread id (object id); written from the  *)
(* code, one action per lock section:                                                            *)
(*   Add         = AddStart (m.mu: closed? find or start the thread's queue) ; AddPut (TryAdd)    *)
(*   threadLoop  = LoopTake (WaitOne: head, also after Close; ErrClosed when empty and closed)    *)
(*                 ; HandlerDone (the handler returns)                                            *)
(*   CloseThread = CtStart (m.mu: closed? delete the map entry) ; CtClose (queue.Close)           *)
(*   Close       = ClStart (m.mu: closed = true) ; ClClose(q) for every queue in the map          *)
(* The same properties as on the sending side: bounded queues that drop beyond the bound, Add     *)
(* never waits for a handler, per queue the handler sees the messages in the order they were      *)
(* accepted, a stuck handler delays no other thread, the size accounting (UpdateQueueSize) equals  *)
(* what is buffered.                                                                               *)
EXTENDS Integers, Sequences, FiniteSets, TLC

CONSTANTS Threads,     \* thread ids
          QSize,       \* maxThreadSize
          MaxQueues,   \* queues ever started
          MaxMsgs,     \* messages ever added
          Callers,
          Blocked,     \* thread ids whose handler never returns
          Eager        \* TRUE: the steps nothing can hold back (loop re-entering WaitOne, second halves of calls) come first

Qids == 1..MaxQueues
Msgs == 1..MaxMsgs

VARIABLES closed,   \* m.closed
          thr,      \* m.threads: [Threads -> Qid or 0]
          Q,        \* [Qids -> queue record]
          nq, nmsg,
          call,     \* [Callers -> running call]
          size,     \* net effect of UpdateQueueSize(add) - UpdateQueueSize(remove), in messages
          acc, hdl, \* history per queue: accepted, handed to the handler
          last
vars == <<closed, thr, Q, nq, nmsg, call, size, acc, hdl, last>>
view == <<closed, thr, Q, nq, nmsg, call, size, acc, hdl>>

NoQueue == [t |-> "none", q |-> <<>>, qclosed |-> FALSE, infl |-> 0, h |-> "none"]
IdleCall == [op |-> "idle", t |-> "none", msg |-> 0, qid |-> 0, qs |-> {}]
Range(f) == {f[i] : i \in DOMAIN f}
IsPrefix(a, b) == Len(a) <= Len(b) /\ SubSeq(b, 1, Len(a)) = a

Init == /\ closed = FALSE /\ thr = [t \in Threads |-> 0]
        /\ Q = [i \in Qids |-> NoQueue] /\ nq = 0 /\ nmsg = 0
        /\ call = [c \in Callers |-> IdleCall] /\ size = 0
        /\ acc = [i \in Qids |-> <<>>] /\ hdl = [i \in Qids |-> <<>>]
        /\ last = [a |-> "init"]

Urgent == \/ \E i \in 1..nq : Q[i].h = "idle"
          \/ \E c \in Callers : call[c].op # "idle"
Quiet == Eager => ~Urgent

(* ---- Add ---- *)
AddStartP(c, t) ==
    /\ call[c].op = "idle" /\ nmsg < MaxMsgs
    /\ nmsg' = nmsg + 1
    /\ IF closed
         THEN /\ last' = [a |-> "Add", c |-> c, t |-> t, msg |-> nmsg + 1, ret |-> "mqClosed"]
              /\ UNCHANGED <<thr, Q, nq, call>>
         ELSE IF thr[t] # 0
           THEN /\ call' = [call EXCEPT ![c] = [IdleCall EXCEPT !.op = "add", !.t = t, !.msg = nmsg + 1, !.qid = thr[t]]]
                /\ last' = [a |-> "Add", c |-> c, t |-> t, msg |-> nmsg + 1, ret |-> "pending"]
                /\ UNCHANGED <<thr, Q, nq>>
           ELSE /\ nq < MaxQueues
                /\ nq' = nq + 1
                /\ thr' = [thr EXCEPT ![t] = nq + 1]
                /\ Q' = [Q EXCEPT ![nq + 1] = [t |-> t, q |-> <<>>, qclosed |-> FALSE, infl |-> 0, h |-> "idle"]]
                /\ call' = [call EXCEPT ![c] = [IdleCall EXCEPT !.op = "add", !.t = t, !.msg = nmsg + 1, !.qid = nq + 1]]
                /\ last' = [a |-> "Add", c |-> c, t |-> t, msg |-> nmsg + 1, ret |-> "pending"]
    /\ UNCHANGED <<closed, size, acc, hdl>>
AddStart(c) == Quiet /\ \E t \in Threads : AddStartP(c, t)

PutRes(i) == IF Q[i].qclosed THEN "closed" ELSE IF Len(Q[i].q) >= QSize THEN "overflow" ELSE "ok"

\* updateSize(+1); TryAdd; on error updateSize(-1). A waiting loop gets the message at once and accounts for it (-1)
AddPutAs(c, res) ==
    LET k == call[c]  i == k.qid IN
    /\ k.op = "add"
    /\ IF res = "ok"
         THEN /\ acc' = [acc EXCEPT ![i] = Append(@, k.msg)]
              /\ IF Q[i].h = "waiting"
                   THEN /\ Q' = [Q EXCEPT ![i].h = "handling", ![i].infl = k.msg]
                        /\ hdl' = [hdl EXCEPT ![i] = Append(@, k.msg)]
                        /\ size' = size
                   ELSE /\ Q' = [Q EXCEPT ![i].q = Append(@, k.msg)]
                        /\ hdl' = hdl /\ size' = size + 1
         ELSE UNCHANGED <<Q, acc, hdl, size>>
    /\ call' = [call EXCEPT ![c] = IdleCall]
    /\ last' = [a |-> "AddPut", c |-> c, qid |-> i, msg |-> k.msg, res |-> res]
    /\ UNCHANGED <<closed, thr, nq, nmsg>>
AddPut(c) == call[c].op = "add" /\ AddPutAs(c, PutRes(call[c].qid))

(* ---- the handler loop of queue i ---- *)
LoopTake(i) ==
    /\ i \in 1..nq /\ Q[i].h = "idle"
    /\ IF Q[i].q # <<>>
         THEN /\ Q' = [Q EXCEPT ![i].h = "handling", ![i].infl = Head(Q[i].q), ![i].q = Tail(@)]
              /\ hdl' = [hdl EXCEPT ![i] = Append(@, Head(Q[i].q))]
              /\ size' = size - 1
              /\ last' = [a |-> "LoopTake", qid |-> i, msg |-> Head(Q[i].q)]
         ELSE /\ Q' = [Q EXCEPT ![i].h = IF Q[i].qclosed THEN "exit" ELSE "waiting"]
              /\ UNCHANGED <<hdl, size>>
              /\ last' = [a |-> "LoopWait", qid |-> i]
    /\ UNCHANGED <<closed, thr, nq, nmsg, call, acc>>

HandlerDone(i) ==
    /\ i \in 1..nq /\ Q[i].h = "handling" /\ Q[i].t \notin Blocked /\ Quiet
    /\ Q' = [Q EXCEPT ![i].h = "idle", ![i].infl = 0]
    /\ last' = [a |-> "HandlerDone", qid |-> i, msg |-> Q[i].infl]
    /\ UNCHANGED <<closed, thr, nq, nmsg, call, size, acc, hdl>>

DoQueueClose(QQ, i) == [QQ EXCEPT ![i].qclosed = TRUE, ![i].h = IF @ = "waiting" THEN "exit" ELSE @]

(* ---- CloseThread ---- *)
CtStartP(c, t) ==
    /\ call[c].op = "idle"
    /\ IF closed
         THEN /\ last' = [a |-> "CloseThread", c |-> c, t |-> t, ret |-> "mqClosed"] /\ UNCHANGED <<thr, call>>
         ELSE IF thr[t] = 0
           THEN /\ last' = [a |-> "CloseThread", c |-> c, t |-> t, ret |-> "notExists"] /\ UNCHANGED <<thr, call>>
           ELSE /\ thr' = [thr EXCEPT ![t] = 0]
                /\ call' = [call EXCEPT ![c] = [IdleCall EXCEPT !.op = "closeThread", !.t = t, !.qid = thr[t]]]
                /\ last' = [a |-> "CloseThread", c |-> c, t |-> t, ret |-> "pending"]
    /\ UNCHANGED <<closed, Q, nq, nmsg, size, acc, hdl>>
CtStart(c) == Quiet /\ \E t \in Threads : CtStartP(c, t)

CtClose(c) ==
    /\ call[c].op = "closeThread"
    /\ Q' = DoQueueClose(Q, call[c].qid)
    /\ call' = [call EXCEPT ![c] = IdleCall]
    /\ last' = [a |-> "CtClose", c |-> c, qid |-> call[c].qid]
    /\ UNCHANGED <<closed, thr, nq, nmsg, size, acc, hdl>>

(* ---- Close ---- *)
ClStart(c) ==
    /\ call[c].op = "idle" /\ Quiet
    /\ IF closed
         THEN /\ last' = [a |-> "Close", c |-> c, ret |-> "mqClosed"] /\ UNCHANGED <<closed, call>>
         ELSE /\ closed' = TRUE
              /\ call' = [call EXCEPT ![c] = [IdleCall EXCEPT !.op = "close", !.qs = {thr[t] : t \in Threads} \ {0}]]
              /\ last' = [a |-> "Close", c |-> c, ret |-> "pending"]
    /\ UNCHANGED <<thr, Q, nq, nmsg, size, acc, hdl>>

\* the loop over the (now frozen) map: one queue.Close per step; the call returns after the last one
ClClose(c) ==
    /\ call[c].op = "close"
    /\ IF call[c].qs = {}
         THEN /\ call' = [call EXCEPT ![c] = IdleCall] /\ Q' = Q
              /\ last' = [a |-> "ClDone", c |-> c]
         ELSE \E i \in call[c].qs :
                /\ Q' = DoQueueClose(Q, i)
                /\ call' = [call EXCEPT ![c].qs = @ \ {i}]
                /\ last' = [a |-> "ClClose", c |-> c, qid |-> i]
    /\ UNCHANGED <<closed, thr, nq, nmsg, size, acc, hdl>>

CallerStep(c) == AddPut(c) \/ CtClose(c) \/ ClClose(c)
Next == \/ \E c \in Callers : AddStart(c) \/ CtStart(c) \/ ClStart(c) \/ CallerStep(c)
        \/ \E i \in Qids : LoopTake(i) \/ HandlerDone(i)

Fairness == /\ \A i \in Qids : WF_vars(LoopTake(i)) /\ WF_vars(HandlerDone(i))
            /\ \A c \in Callers : WF_vars(CallerStep(c))
Spec == Init /\ [][Next]_vars /\ Fairness

(* ---- properties ---- *)
TypeOK == /\ nq \in 0..MaxQueues /\ size \in Int
          /\ \A i \in 1..nq : (Q[i].infl # 0) = (Q[i].h = "handling")
          /\ \A t \in Threads : thr[t] = 0 \/ (thr[t] \in 1..nq /\ Q[thr[t]].t = t)
QueueBounded == \A i \in 1..nq : Len(Q[i].q) <= QSize
FifoPerQueue == \A i \in 1..nq : acc[i] = hdl[i] \o Q[i].q
\* one live queue per thread id, and a queue in the map is open unless a Close is on its way
MapConsistent == \A t1, t2 \in Threads : (thr[t1] # 0 /\ thr[t1] = thr[t2]) => t1 = t2
\* the size the metric sees is exactly what is buffered (nothing leaks when queues are closed or overflow)
SizeIsBuffered == (\A c \in Callers : call[c].op = "idle") =>
                      size = Cardinality({<<i, k>> \in Qids \X (1..QSize) : i <= nq /\ k <= Len(Q[i].q)})
AddNeverWaits == \A c \in Callers : call[c].op # "idle" => ENABLED CallerStep(c)
IsPut(l) == l.a = "AddPut"
DropBeyondBound ==
    [][(IsPut(last') /\ last'.res # "ok") => (Q[last'.qid].qclosed \/ Len(Q[last'.qid].q) >= QSize)]_vars
NoAddAfterClose == [][\A i \in Qids : Len(acc'[i]) > Len(acc[i]) => ~Q[i].qclosed]_vars

Inv == TypeOK /\ QueueBounded /\ FifoPerQueue /\ MapConsistent /\ SizeIsBuffered /\ AddNeverWaits

\* a stuck handler of one thread delays no other thread
Isolation == \A i \in Qids, m \in Msgs :
    (i <= nq /\ Q[i].t \notin Blocked /\ m \in Range(acc[i])) ~> (m \in Range(hdl[i]))
=============================================================================
