INIT Init
NEXT Next
CONSTANTS
  Threads = {"t1", "t2"}
  QSize = 1
  MaxQueues = 3
  MaxMsgs = 3
  Callers = {"c1", "c2"}
  Blocked = {"t1"}
  Eager = FALSE
VIEW view
INVARIANT Inv
PROPERTY DropBeyondBound
PROPERTY NoAddAfterClose
CHECK_DEADLOCK FALSE
