------------------------- MODULE StreamPoolHookTrace -------------------------
(* Trace validation, hook level: the raw events of the `verif` emitter in net/streampool, as     *)
(* recorded from executions nobody schedules (the harness' concurrent stress runs and the        *)
(* package's own tests built with -tags verif). Events that change the indexes are emitted under  *)
(* pool.mu with the projected pool state; "write" / "take" / "sent" / "sendErr" of one stream are  *)
(* emitted under a per-stream verif mutex, so per stream they appear in the order they happened,   *)
(* a "write" before the "take" of the same message. A "take" is logged a moment after the message  *)
(* left the queue, so the queue reconstructed from the log may exceed the real one by the one      *)
(* message the write loop holds: bounds are checked with that slack (Slack = 1).                   *)
(*                                                                                                 *)
(* This is the stream part of StreamPool.tla (AddStream, AddTags, RemoveTags, write, WriterTake,   *)
(* WriterDone, WriterFail, closeBegin, RemoveStream) driven by the log. With Adopt = FALSE the      *)
(* index changes must be exactly the ones the specification predicts; with Adopt = TRUE the logged  *)
(* state is adopted and only the invariants judge it (used to tell a property violation from a      *)
(* mere disagreement when the strict run rejects a trace).                                          *)
EXTENDS Integers, Sequences, FiniteSets, TLC, VerifEmit

CONSTANTS MaxSid,   \* largest stream id in a trace
          Adopt,    \* see above
          Slack     \* 1 for free-running executions, 0 for gated ones

ASSUME HwReset
Trace == ndJsonDeserialize(TraceFileName)

Sids == 1..MaxSid
VARIABLES l,
          created,  \* stream ids handed out so far (1..created)
          live,     \* streams in the pool
          peerOf, tagsOf, qcapOf,
          byPeer, byTag,          \* functions with string domain (absent key = no entry, as in the Go maps)
          queue,    \* per stream: accepted, not yet taken (in log order)
          infl,     \* per stream: message the write loop holds (0 = none)
          closing,  \* closeBegin seen
          removed,  \* streams that left the pool
          removedSeq, \* sequence number of their removeStream event
          hist      \* label of the last step (event kind, stream, outcome): the step properties are judged on it
vars == <<l, created, live, peerOf, tagsOf, qcapOf, byPeer, byTag, queue, infl, closing, removed, removedSeq, hist>>

Range(f) == {f[i] : i \in DOMAIN f}
NoDup(f) == \A i, j \in DOMAIN f : i # j => f[i] # f[j]
Get(f, k) == IF k \in DOMAIN f THEN f[k] ELSE <<>>
Put(f, k, v) == IF v = <<>> THEN [x \in DOMAIN f \ {k} |-> f[x]]
                ELSE [x \in DOMAIN f \cup {k} |-> IF x = k THEN v ELSE f[x]]
Same(f, g) == DOMAIN f = DOMAIN g /\ \A k \in DOMAIN f : f[k] = g[k]
Remove1(f, x) == LET i == CHOOSE k \in DOMAIN f : f[k] = x /\ \A j \in 1..(k-1) : f[j] # x
                 IN  SubSeq(f, 1, i-1) \o SubSeq(f, i+1, Len(f))
Ev == Trace[l]
Empty == [x \in {} |-> <<>>]

Reset == /\ created' = 0 /\ live' = {} /\ removed' = {}
         /\ peerOf' = [s \in Sids |-> ""] /\ tagsOf' = [s \in Sids |-> <<>>] /\ qcapOf' = [s \in Sids |-> 0]
         /\ byPeer' = Empty /\ byTag' = Empty
         /\ queue' = [s \in Sids |-> <<>>] /\ infl' = [s \in Sids |-> 0]
         /\ closing' = [s \in Sids |-> FALSE] /\ removedSeq' = [s \in Sids |-> 0]
         /\ hist' = [ev |-> "reset", sid |-> 0, res |-> "", qlen |-> 0]

Init == /\ l = 2 /\ Trace[1].ev = "reset"
        /\ created = 0 /\ live = {} /\ removed = {}
        /\ peerOf = [s \in Sids |-> ""] /\ tagsOf = [s \in Sids |-> <<>>] /\ qcapOf = [s \in Sids |-> 0]
        /\ byPeer = Empty /\ byTag = Empty
        /\ queue = [s \in Sids |-> <<>>] /\ infl = [s \in Sids |-> 0]
        /\ closing = [s \in Sids |-> FALSE] /\ removedSeq = [s \in Sids |-> 0]
        /\ hist = [ev |-> "reset", sid |-> 0, res |-> "", qlen |-> 0]

IsEvent(e) == l <= Len(Trace) /\ Ev.ev = e /\ l' = l + 1

\* the logged projection of the pool, as functions over the spec's domains
LoggedTags(st, s) == st.streams[ToString(s)].tags
LoggedLive(st) == {s \in Sids : ToString(s) \in DOMAIN st.streams}

\* index change of a pool.mu event: predicted (strict) or adopted from the log
IndexStep(predPeer, predTag, predTags, predLive, pOf) ==
    LET st == Ev.state IN
    IF Adopt
      THEN /\ byPeer' = st.byPeer /\ byTag' = st.byTag
           /\ live' = LoggedLive(st)
           /\ tagsOf' = [s \in Sids |-> IF s \in LoggedLive(st) THEN LoggedTags(st, s) ELSE predTags[s]]
      ELSE /\ byPeer' = predPeer /\ byTag' = predTag /\ live' = predLive /\ tagsOf' = predTags
           /\ Same(predPeer, st.byPeer) /\ Same(predTag, st.byTag)
           /\ LoggedLive(st) = predLive
           /\ \A s \in predLive : LoggedTags(st, s) = predTags[s] /\ st.streams[ToString(s)].peer = pOf[s]

RECURSIVE Dd(_)
Dd(f) == IF f = <<>> THEN <<>> ELSE LET r == Dd(SubSeq(f, 1, Len(f)-1)) IN
         IF f[Len(f)] \in Range(r) THEN r ELSE Append(r, f[Len(f)])
RECURSIVE AddToTags(_, _, _)
AddToTags(f, ts, s) == IF ts = <<>> THEN f ELSE AddToTags(Put(f, Head(ts), Append(Get(f, Head(ts)), s)), Tail(ts), s)
RECURSIVE DelFromTags(_, _, _)
DelFromTags(f, ts, s) == IF ts = <<>> THEN f
                         ELSE DelFromTags(Put(f, Head(ts), Remove1(Get(f, Head(ts)), s)), Tail(ts), s)

HAddStream ==
    /\ IsEvent("addStream")
    /\ LET s == Ev.sid IN
       /\ s = created + 1 /\ s \in Sids                 \* lastStreamId++
       /\ created' = s
       /\ peerOf' = [peerOf EXCEPT ![s] = Ev.peer] /\ qcapOf' = [qcapOf EXCEPT ![s] = Ev.qcap]
       /\ IndexStep(Put(byPeer, Ev.peer, Append(Get(byPeer, Ev.peer), s)), AddToTags(byTag, Ev.tags, s),
                    [tagsOf EXCEPT ![s] = Ev.tags], live \cup {s}, [peerOf EXCEPT ![s] = Ev.peer])
       /\ hist' = [ev |-> "addStream", sid |-> s, res |-> "", qlen |-> 0]
    /\ UNCHANGED <<queue, infl, closing, removed, removedSeq>>

HAddTags ==
    /\ IsEvent("addTags")
    /\ LET s == Ev.sid
           new == SelectSeq(Ev.tags, LAMBDA t : t \notin Range(tagsOf[s])) IN
       /\ s \in live
       /\ IndexStep(byPeer, AddToTags(byTag, Dd(new), s), [tagsOf EXCEPT ![s] = @ \o Dd(new)], live, peerOf)
       /\ hist' = [ev |-> "addTags", sid |-> s, res |-> "", qlen |-> 0]
    /\ UNCHANGED <<created, peerOf, qcapOf, queue, infl, closing, removed, removedSeq>>

HRemoveTags ==
    /\ IsEvent("removeTags")
    /\ LET s == Ev.sid
           keep == SelectSeq(tagsOf[s], LAMBDA t : t \notin Range(Ev.tags))
           gone == SelectSeq(tagsOf[s], LAMBDA t : t \in Range(Ev.tags)) IN
       /\ s \in live
       /\ IndexStep(byPeer, DelFromTags(byTag, gone, s), [tagsOf EXCEPT ![s] = keep], live, peerOf)
       /\ hist' = [ev |-> "removeTags", sid |-> s, res |-> "", qlen |-> 0]
    /\ UNCHANGED <<created, peerOf, qcapOf, queue, infl, closing, removed, removedSeq>>

HCloseBegin ==
    /\ IsEvent("closeBegin")
    /\ closing' = [closing EXCEPT ![Ev.sid] = TRUE]
    /\ hist' = [ev |-> "closeBegin", sid |-> Ev.sid, res |-> IF closing[Ev.sid] THEN "twice" ELSE "", qlen |-> 0]
    /\ UNCHANGED <<created, live, peerOf, tagsOf, qcapOf, byPeer, byTag, queue, infl, removed, removedSeq>>

HRemoveStream ==
    /\ IsEvent("removeStream")
    /\ LET s == Ev.sid IN
       /\ s \in live
       /\ removed' = removed \cup {s} /\ removedSeq' = [removedSeq EXCEPT ![s] = Ev.seq]
       /\ IndexStep(Put(byPeer, peerOf[s], Remove1(Get(byPeer, peerOf[s]), s)), DelFromTags(byTag, tagsOf[s], s),
                    tagsOf, live \ {s}, peerOf)
       /\ hist' = [ev |-> "removeStream", sid |-> s, res |-> IF closing[s] THEN "" ELSE "notClosing", qlen |-> 0]
    /\ UNCHANGED <<created, peerOf, qcapOf, queue, infl, closing>>

\* stream.write: the logged outcome is adopted, the action properties judge it
HWrite ==
    /\ IsEvent("write")
    /\ LET s == Ev.sid IN
       /\ queue' = IF Ev.res = "ok" THEN [queue EXCEPT ![s] = Append(@, Ev.msg)] ELSE queue
       /\ hist' = [ev |-> "write", sid |-> s, res |-> Ev.res, qlen |-> Len(queue[s]),
                   late |-> s \in removed /\ Ev.bseq > removedSeq[s]]    \* the add certainly followed the removal
    /\ UNCHANGED <<created, live, peerOf, tagsOf, qcapOf, byPeer, byTag, infl, closing, removed, removedSeq>>

HTake ==
    /\ IsEvent("take")
    /\ LET s == Ev.sid IN
       /\ hist' = [ev |-> "take", sid |-> s, qlen |-> Len(queue[s]),
                   res |-> IF queue[s] = <<>> THEN "empty"
                           ELSE IF Head(queue[s]) # Ev.msg THEN "order"
                           ELSE IF infl[s] # 0 THEN "concurrent" ELSE ""]
       /\ queue' = [queue EXCEPT ![s] = IF @ # <<>> /\ Head(@) = Ev.msg THEN Tail(@) ELSE @]
       /\ infl' = [infl EXCEPT ![s] = Ev.msg]
    /\ UNCHANGED <<created, live, peerOf, tagsOf, qcapOf, byPeer, byTag, closing, removed, removedSeq>>

HSendEnd ==
    /\ (IsEvent("sent") \/ IsEvent("sendErr"))
    /\ LET s == Ev.sid IN
       /\ hist' = [ev |-> Ev.ev, sid |-> s, qlen |-> 0, res |-> IF infl[s] # Ev.msg THEN "notInFlight" ELSE ""]
       /\ infl' = [infl EXCEPT ![s] = 0]
    /\ UNCHANGED <<created, live, peerOf, tagsOf, qcapOf, byPeer, byTag, queue, closing, removed, removedSeq>>

HReset == IsEvent("reset") /\ Reset

Next == HReset \/ HAddStream \/ HAddTags \/ HRemoveTags \/ HCloseBegin \/ HRemoveStream \/ HWrite \/ HTake \/ HSendEnd
Spec == Init /\ [][Next]_vars

(* ---- the properties of C19 on the recorded states ---- *)
IndexesConsistent ==
    /\ \A p \in DOMAIN byPeer : /\ byPeer[p] # <<>> /\ NoDup(byPeer[p])
                                /\ Range(byPeer[p]) = {s \in live : peerOf[s] = p}
    /\ \A t \in DOMAIN byTag : /\ byTag[t] # <<>> /\ NoDup(byTag[t])
                               /\ Range(byTag[t]) = {s \in live : t \in Range(tagsOf[s])}
    /\ \A s \in live : /\ peerOf[s] \in DOMAIN byPeer
                       /\ \A t \in Range(tagsOf[s]) : t \in DOMAIN byTag
                       /\ NoDup(tagsOf[s])
NoEntryAfterClose ==
    \A s \in removed : /\ s \notin live
                       /\ \A p \in DOMAIN byPeer : s \notin Range(byPeer[p])
                       /\ \A t \in DOMAIN byTag : s \notin Range(byTag[t])
QueueBounded == \A s \in Sids : s <= created => Len(queue[s]) <= qcapOf[s] + Slack
\* judged on the step just taken (hist is the label of the last step)
FifoPerStream == hist.ev = "take" => hist.res = ""
SingleWriter == hist.ev \in {"sent", "sendErr"} => hist.res = ""
DropBeyondBound ==
    hist.ev = "write" =>
        /\ hist.res = "overflow" => hist.qlen >= qcapOf[hist.sid]
        /\ hist.res = "closed" => closing[hist.sid]
        /\ hist.res = "ok" => (hist.qlen < qcapOf[hist.sid] + Slack /\ ~hist.late)
        /\ hist.res \in {"ok", "overflow", "closed"}
CloseOnce == /\ hist.ev = "closeBegin" => hist.res = ""
             /\ hist.ev = "removeStream" => hist.res = ""

Inv == IndexesConsistent /\ NoEntryAfterClose /\ QueueBounded /\ FifoPerStream /\ SingleWriter
       /\ DropBeyondBound /\ CloseOnce

Mark == HwMark(l)
TraceAccepted == HwAccepted(Len(Trace))
=============================================================================
