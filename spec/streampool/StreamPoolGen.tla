--------------------------- MODULE StreamPoolGen ---------------------------
(* Behaviour generation for the replay on the real pool: random walks (TLC -simulate) through  *)
(* StreamPool with EagerWriter = TRUE (steps the code takes without any gate - a consumer       *)
(* re-entering WaitOne, the end of an opening process, a worker's retry - happen before anything *)
(* else, as they do in the gated harness). Every step is recorded with the projected state.     *)
EXTENDS StreamPool, VerifEmit

CONSTANTS GenDepth,     \* steps per behaviour
          MaxTagOps     \* tag operations per behaviour (they have many parameter combinations and would dominate a uniform walk)
VARIABLES hist, ntag
ASSUME EmitReset

Proj == [byPeer |-> byPeer, byTag |-> byTag, nst |-> nst,
         streams |-> [s \in 1..nst |-> [live |-> S[s].live, peer |-> S[s].peer, tags |-> S[s].tags,
                                        qlen |-> Len(S[s].q), qcap |-> S[s].qsize, w |-> S[s].w,
                                        infl |-> S[s].infl, cl |-> S[s].cl, kind |-> S[s].kind, r |-> S[s].r,
                                        acc |-> acc[s], nsnt |-> Len(snt[s]), dlv |-> dlv[s]]]]

IsTagOp(l) == l.a \in {"AddTags", "RemoveTags"}
GenInit == Init /\ hist = <<>> /\ ntag = 0
\* the last step is a fixed one, so that a simulated trace is emitted exactly once
GStep == /\ Len(hist) < GenDepth - 1 /\ Next
         /\ hist' = Append(hist, [act |-> last', st |-> Proj'])
         /\ ntag' = IF IsTagOp(last') THEN ntag + 1 ELSE ntag
         /\ ntag' <= MaxTagOps
GEnd == /\ Len(hist) = GenDepth - 1
        /\ hist' = hist \o [i \in 1..(GenDepth - Len(hist)) |-> [act |-> [a |-> "Pad"], st |-> Proj]]
        /\ UNCHANGED <<vars, ntag>>
GenNext == GStep \/ GEnd

Behaviour == [cfg |-> [dialWorkers |-> Cardinality(Workers), dialQSize |-> DialQSize], steps |-> hist]
Emit == EmitWhen(Len(hist) = GenDepth, Behaviour)
=============================================================================
