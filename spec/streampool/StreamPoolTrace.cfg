SPECIFICATION TraceSpec
CONSTANTS
  Peers = {"p1", "p2", "p3"}
  Tags = {"a", "b", "c"}
  QSizes = {1, 2, 3, 4}
  Kinds = {"healthy", "slow", "blocked", "failing"}
  MaxStreams = 8
  MaxMsgs = 60
  Callers = {"c1", "c2", "c3"}
  Ops = {"addStream", "sendById", "broadcast", "addTags", "removeTags", "removeTagsById", "send"}
  Workers = {"w1"}
  DialQSize = 2
  MaxArgLen = 3
  EagerWriter = TRUE
  Plan <- NoPlan
INVARIANT TypeOK IndexesConsistent QueueBounded FifoPerStream NoEntryAfterClose
PROPERTY DropBeyondBound
PROPERTY NoTargetAfterClose
CONSTRAINT Mark
POSTCONDITION TraceAccepted
CHECK_DEADLOCK FALSE
