SPECIFICATION Spec
CONSTANTS
  Peers = {"p1"}
  Tags = {"a"}
  QSizes = {1}
  Kinds = {"healthy", "slow", "blocked", "failing"}
  MaxStreams = 2
  MaxMsgs = 2
  Callers = {"c1"}
  Ops = {"addStream", "broadcast"}
  Workers = {}
  DialQSize = 1
  MaxArgLen = 1
  EagerWriter = FALSE
  Plan <- Plan_live
INVARIANT Inv
PROPERTY DropBeyondBound
PROPERTY NoTargetAfterClose
PROPERTY Isolation
PROPERTY CloseCompletes
CHECK_DEADLOCK FALSE
