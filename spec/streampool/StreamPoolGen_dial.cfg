INIT GenInit
NEXT GenNext
CONSTANTS
  Peers = {"p1", "p2"}
  Tags = {"a", "b"}
  QSizes = {1, 2}
  Kinds = {"healthy", "slow", "blocked", "failing"}
  MaxStreams = 4
  MaxMsgs = 8
  Callers = {"c1", "c2"}
  Ops = {"addStream", "sendById", "broadcast", "send"}
  Workers = {"w1"}
  DialQSize = 1
  MaxArgLen = 2
  EagerWriter = TRUE
  Plan <- NoPlan
  GenDepth = 40
  MaxTagOps = 3
INVARIANT Emit
CHECK_DEADLOCK FALSE
