INIT Init
NEXT Next
CONSTANTS
  Peers = {"p1"}
  Tags = {"a"}
  QSizes = {1}
  Kinds = {"healthy", "slow", "blocked", "failing"}
  MaxStreams = 2
  MaxMsgs = 3
  Callers = {"c1"}
  Ops = {"addStream", "sendById", "broadcast"}
  Workers = {}
  DialQSize = 1
  MaxArgLen = 1
  EagerWriter = FALSE
  Plan <- Plan_fb1
VIEW view
INVARIANT Inv
PROPERTY DropBeyondBound
PROPERTY NoTargetAfterClose
CHECK_DEADLOCK FALSE
