SPECIFICATION Spec
CONSTANTS
  Replicas = {r1, r2}
  MaxChanges = 3
  MaxSnaps = 1
  MaxInFlight = 2
  MaxInFlight2 = 3
  Sync1 = FALSE
  Guard = FALSE
  MaxBatches = 2
  Absent = {}
  Lossy = TRUE
  SnapCond = TRUE
SYMMETRY Sym
VIEW view
CONSTRAINT InFlightBound
INVARIANT TypeOK
INVARIANT AncestorClosed
INVARIANT Converged
INVARIANT LosslessConverged
INVARIANT RootOnChains
INVARIANT Comparable
INVARIANT AttachedIsSubtree
PROPERTY AdvertiseOnlyHeld
CHECK_DEADLOCK FALSE
