SPECIFICATION GenSpec
CONSTANTS
  Replicas = {"r1", "r2", "r3"}
  MaxChanges = 4
  MaxSnaps = 1
  MaxInFlight = 4
  MaxInFlight2 = 8
  Sync1 = TRUE
  Guard = FALSE
  MaxBatches = 1
  Absent = {}
  Lossy = FALSE
  SnapCond = TRUE
  GenDepth = 60
  RankIds = TRUE
CONSTRAINT InFlightBound
INVARIANT AncestorClosed
INVARIANT Converged
INVARIANT LosslessConverged
INVARIANT RootOnChains
INVARIANT Comparable
INVARIANT AttachedIsSubtree
PROPERTY AdvertiseOnlyHeld
INVARIANT Emit
CHECK_DEADLOCK FALSE
