---------------------------- MODULE TreeSyncTrace ----------------------------
(* Trace validation: executions recorded from real SyncTrees by the seeded random   *)
(* simulator (harness/treesync TestRecord) must be behaviours of TreeSync.           *)
(* One NDJSON line per spec action, with the action's arguments (the delivered       *)
(* message, the created change, the response batches), the messages the real code    *)
(* emitted and the projected post-state of the acting replica. The change universe   *)
(* comes from the trace (AddContent lines). All invariants and the action property    *)
(* of TreeSync are evaluated on every recorded state / step. Many runs are            *)
(* concatenated; a Reset line starts a new one.                                       *)
EXTENDS TreeSync, VerifEmit

ASSUME HwReset
Trace == ndJsonDeserialize(TraceFileName)
VARIABLE l
tvars == <<vars, l>>

SetOf(s) == {s[i] : i \in DOMAIN s}          \* JSON arrays arrive as sequences
MsgOf(j) == Msg(j.k, j.from, j.to, SetOf(j.heads), SetOf(j.changes), j.path)
MsgsOf(js) == {MsgOf(js[i]) : i \in DOMAIN js}
BsOf(js) == [i \in DOMAIN js |-> [changes |-> SetOf(js[i].changes), heads |-> SetOf(js[i].heads)]]

X == Trace[l]
IsEvent(e) == l <= Len(Trace) /\ Trace[l].ev = e /\ l' = l + 1

\* the logged post-state of the acting replica binds the primed variables
StOK(r, st) == /\ heads'[r] = SetOf(st.heads)
               /\ stored'[r] = SetOf(st.stored)
               /\ root'[r] = st.root
               /\ attached'[r] = SetOf(st.attached)
EmitOK(js) == last'.emit = MsgsOf(js)

TraceInit == Init /\ l = 1

TrReset ==
    /\ IsEvent("Reset") /\ X.n = Cardinality(Replicas)
    /\ changes' = (Root :> [prev |-> {}, snap |-> Root, isSnap |-> TRUE])
    /\ stored' = [r \in Replicas |-> IF r \in SetOf(X.absent) THEN {} ELSE {Root}]
    /\ root' = [r \in Replicas |-> Root]
    /\ attached' = [r \in Replicas |-> IF r \in SetOf(X.absent) THEN {} ELSE {Root}]
    /\ heads' = [r \in Replicas |-> IF r \in SetOf(X.absent) THEN {} ELSE {Root}]
    /\ net' = EmptyBag /\ phase' = 1
    /\ last' = [act |-> "Init", emit |-> {}]

TrAddContent ==
    /\ IsEvent("AddContent")
    /\ AddContent(X.r, X.snap)
    /\ last'.id = X.id
    /\ changes'[X.id] = [prev |-> SetOf(X.ch.prev), snap |-> X.ch.snap, isSnap |-> X.ch.isSnap]
    /\ EmitOK(X.emit) /\ StOK(X.r, X.st)

TrDeliverHeadUpdate ==
    /\ IsEvent("DeliverHeadUpdate")
    /\ DeliverHeadUpdate(MsgOf(X.m))
    /\ EmitOK(X.emit) /\ StOK(X.m.to, X.st)

TrDeliverRequest ==
    /\ IsEvent("DeliverRequest")
    /\ DeliverRequest(MsgOf(X.m), BsOf(X.bs))
    /\ EmitOK(X.emit) /\ StOK(X.m.to, X.st)

TrDeliverResponse ==
    /\ IsEvent("DeliverResponse")
    /\ DeliverResponse(MsgOf(X.m))
    /\ EmitOK(X.emit) /\ StOK(X.m.to, X.st)

TrDrop == IsEvent("Drop") /\ Drop(MsgOf(X.m))
TrDeliverCancelled ==
    /\ IsEvent("DeliverCancelled")
    /\ DeliverCancelled(MsgOf(X.m), X.mode)
    /\ EmitOK(X.emit) /\ StOK(X.m.to, X.st)
TrDup == IsEvent("Dup") /\ Dup(MsgOf(X.m))

TrSyncWithPeer ==
    /\ IsEvent("SyncWithPeer")
    /\ SyncWithPeer(X.r, X.p)
    /\ EmitOK(X.emit)

TrEnterPhase2 == IsEvent("EnterPhase2") /\ EnterPhase2

TrFetchTree ==
    /\ IsEvent("FetchTree")
    /\ FetchTree(X.r, X.p)
    /\ EmitOK(X.emit) /\ StOK(X.r, X.st)

TrDeliverNoTree == IsEvent("DeliverNoTree") /\ DeliverNoTree(MsgOf(X.m))

TraceNext == \/ TrReset \/ TrAddContent \/ TrDeliverHeadUpdate \/ TrDeliverRequest
             \/ TrDeliverResponse \/ TrDrop \/ TrDup \/ TrSyncWithPeer \/ TrEnterPhase2
             \/ TrFetchTree \/ TrDeliverNoTree \/ TrDeliverCancelled
TraceSpec == TraceInit /\ [][TraceNext]_tvars

Mark == HwMark(l)
TraceAccepted == HwAccepted(Len(Trace))
=============================================================================
