------------------------------- MODULE TreeSync -------------------------------
(* Synchronisation of one object tree between replicas (any-sync                 *)
(* commonspace/object/tree/synctree + objecttree), property C01.                 *)
(*                                                                               *)
(* One action per implementation entry point, written from the code:             *)
(*   AddContent(r, snap)       syncTree.AddContent -> objectTree.AddContentWithValidator    *)
(*   DeliverHeadUpdate(m)      syncHandler.HandleHeadUpdate (+ syncService queues the       *)
(*                             returned request)                                            *)
(*   DeliverRequest(m, resps)  syncHandler.HandleStreamRequest (+ requestManager queues     *)
(*                             the returned counter-request)                                *)
(*   DeliverResponse(m)        syncHandler.HandleResponse                                   *)
(*   SyncWithPeer(r, p)        syncTree.SyncWithPeer (anti-entropy, head sync)              *)
(*   FetchTree(r, p)           BuildSyncTreeOrGetRemote by a replica without the object     *)
(*   Drop(m), Dup(m)           network fates; reordering is free because net is a bag       *)
(*   DeliverCancelled(m, mode) the message is applied under a context that is / becomes dead   *)
(* AddRaw is objectTree.AddRawChangesWithUpdater as called by                    *)
(* syncTree.AddRawChangesFromPeer, with its two sub-paths (Tree.Add + reduceTree *)
(* versus rebuildFromStorage at the common snapshot).                            *)
(*                                                                               *)
(* Deliberate abstractions (named):                                              *)
(*  - change ids are chosen canonically (c1, c2, ... in creation order): the id  *)
(*    order only influences the canonical iteration order (C06) and where a      *)
(*    response stream is cut into batches - the latter is over-approximated by   *)
(*    allowing every causally closed cut (BatchSeqs);                            *)
(*  - Storage.GetAfterOrder(cs.OrderId) is modelled as "cs and its stored        *)
(*    descendants": the invariant Comparable shows that no stored change is      *)
(*    concurrent to a snapshot on the replica's own snapshot path, so the        *)
(*    order-based and the ancestry-based definitions coincide;                   *)
(*  - signatures, ACL and encryption are out of scope here (C02).                *)
EXTENDS Naturals, Sequences, FiniteSets, Bags, TLC, TreeDag

CONSTANTS Replicas,      \* set of replica names (strings "r1", "r2", ...)
          MaxChanges,    \* number of changes that AddContent may create (besides the root c0)
          MaxSnaps,      \* how many of them may be snapshots
          MaxInFlight,   \* phase 1: bound on messages in flight (CONSTRAINT); loss and duplication are
                         \* unbounded inside it
          MaxInFlight2,  \* phase 2: bound on messages in flight (CONSTRAINT): a pure bag network lets
                         \* request/counter-request chains grow without bound when responses are
                         \* delivered late; every schedule that keeps at most this many in flight is explored
          Sync1,         \* phase 1: spontaneous SyncWithPeer calls allowed (BOOLEAN)
          Guard,         \* TRUE: model the request manager's guard (syncqueues.ActionPool.tryTake): a
                         \* request r -> p is dropped while an earlier one is being served
          MaxBatches,    \* 1: a response stream is one batch; 2: it may be cut once
          Absent,        \* replicas that start without the object (FetchTree)
          Lossy,         \* FALSE: no message is ever lost (Drop disabled) - then the replicas must agree
                         \* whenever the network is empty, without any anti-entropy (LosslessConverged)
          SnapCond       \* TRUE = the code; FALSE = Dev_NoSnapshotCondition: canAttachOrRemove without
                         \* the snapshot-base condition (used to show that honest histories never need it)

Root == "c0"
IdOf(n) == "c" \o ToString(n)

VARIABLES changes,   \* id -> [prev, snap, isSnap]: every change created so far (global universe)
          stored,    \* per replica: ids in its tree storage ({} = replica does not hold the object)
          root,      \* per replica: root of the in-memory tree (Tree.root)
          attached,  \* per replica: in-memory attached set (Tree.attached)
          heads,     \* per replica: Tree.headIds = durable heads entry
          net,       \* bag of messages in flight
          phase,     \* 1: edits + faults, 2: reliable delivery + anti-entropy
          last       \* [act, ...]: the action taken last and what it emitted (history only)
vars == <<changes, stored, root, attached, heads, net, phase, last>>
view == <<changes, stored, root, attached, heads, net, phase>>

Ids == DOMAIN changes
Anc(c) == AncIn(changes, c)
Maximal(S) == MaximalIn(changes, S)
SPath(s) == SPathIn(changes, Root, s)
Holds(r) == stored[r] # {}
Present == {r \in Replicas : Holds(r)}

Msg(k, f, t, hs, cs, p) == [k |-> k, from |-> f, to |-> t, heads |-> hs, changes |-> cs, path |-> p]
Emitted(n1, n2) == BagToSet(n2 (-) n1)       \* messages put on the wire by a step

(* ----------------------------------------------------------------------------- *)
(* objectTree.AddRawChangesWithUpdater via syncTree.AddRawChangesFromPeer        *)
(* result: [stored, root, attached, heads, resHeads, bcast, added]               *)
(* ----------------------------------------------------------------------------- *)
\* syncTree.hasHeads: heads equal, or every announced head is attached in memory
\* (HasChanges() of no ids is TRUE)
HasHeads(r, hs) == heads[r] = hs \/ hs \subseteq attached[r]

Unchanged(r, resHeads) ==
    [stored |-> stored[r], root |-> root[r], attached |-> attached[r], heads |-> heads[r],
     resHeads |-> resHeads, bcast |-> FALSE, added |-> {}]

\* reduceTree (treereduce.go) on attached set A with heads hs and current root rt:
\* single snapshot head -> that head; otherwise the deepest snapshot common to the snapshot
\* chains of all heads (the walk stays inside the attached set, i.e. stops at rt).
ReduceRoot(rt, hs) ==
    IF Cardinality(hs) = 1 /\ changes[CHOOSE h \in hs : TRUE].isSnap
      THEN CHOOSE h \in hs : TRUE
      ELSE LET chain(h) == Range(SPath(changes[h].snap))
               common == {s \in chain(CHOOSE h \in hs : TRUE) : \A h \in hs : s \in chain(h)}
               inTree == {s \in common : s = rt \/ rt \in Anc(s)}
           IN  CHOOSE s \in inTree : \A t \in inTree : Len(SPath(s)) >= Len(SPath(t))

\* snapshotNotInTree (addChangesToTree): must we go to the storage for this change?
NotInTree(r, c, new) ==
    IF c = Root THEN TRUE    \* SnapshotId "" is neither the root id nor a received snapshot
    ELSE /\ changes[c].snap # root[r]
         /\ changes[c].snap \notin {s \in new : changes[s].isSnap}

\* normal mode: Tree.Add, then FlushAfterBuild -> reduceTree, then storage.AddAll
NormalAdd(r, new) ==
    LET A1    == AttachFix(changes, attached[r], new, SnapCond)
        added == A1 \ attached[r]
        hs1   == Maximal(A1)
        rt1   == ReduceRoot(root[r], hs1)
        A2    == IF rt1 = root[r] THEN A1 ELSE A1 \ Anc(rt1)       \* makeRootAndRemove
    IN  IF added = {} THEN Unchanged(r, heads[r])                   \* Mode = Nothing
        ELSE [stored |-> stored[r] \cup added, root |-> rt1, attached |-> A2, heads |-> hs1,
              resHeads |-> hs1, bcast |-> TRUE, added |-> added]

\* rebuildFromStorage(theirHeads, theirSnapshotPath, newChanges): build from the common
\* snapshot of the two snapshot paths, from everything stored after it plus the new changes
StoredFrom(r, cs) == DescIn(changes, stored[r], cs)               \* GetAfterOrder(cs.OrderId)
Rebuild(r, new, theirPath) ==
    LET cs     == CommonSnapPaths(SPath(root[r]), theirPath)
        loaded == StoredFrom(r, cs)
        A1     == AttachFix(changes, {cs}, loaded \cup new, SnapCond)          \* Tree.AddFast
        added  == A1 \cap (new \ loaded)
        hs1    == Maximal(A1)
        \* "theirHeads were actually below prevHeads": reduce back to the old root
        back   == hs1 = heads[r] /\ root[r] \in A1 /\ cs # root[r]
    IN  IF cs = "" THEN Unchanged(r, heads[r])                        \* ErrNoCommonSnapshot
        ELSE [stored |-> stored[r] \cup added,
              root |-> IF back THEN root[r] ELSE cs,
              attached |-> IF back THEN A1 \ Anc(root[r]) ELSE A1,
              heads |-> hs1, resHeads |-> hs1,
              bcast |-> TRUE,            \* Mode = Rebuild even when nothing was added
              added |-> added]

AddRaw(r, hs, chs, path) ==
    IF HasHeads(r, hs) THEN Unchanged(r, hs)
    ELSE LET new == chs \ attached[r] IN
         IF new = {} THEN Unchanged(r, heads[r])
         ELSE IF \E c \in new : NotInTree(r, c, new) THEN Rebuild(r, new, path)
         ELSE NormalAdd(r, new)

\* the head update syncTree broadcasts after a successful add: everybody gets the added
\* changes, except `src` (EmptyPeers) who gets the heads only
BroadcastOf(r, res, src) ==
    IF ~res.bcast THEN {}
    ELSE {Msg("HeadUpdate", r, p, res.heads, IF p = src THEN {} ELSE res.added,
              SPathIn(changes, Root, res.root)) : p \in Replicas \ {r}}

Apply(r, res) ==
    /\ stored'   = [stored EXCEPT ![r] = res.stored]
    /\ root'     = [root EXCEPT ![r] = res.root]
    /\ attached' = [attached EXCEPT ![r] = res.attached]
    /\ heads'    = [heads EXCEPT ![r] = res.heads]

FullSyncRequest(r, p, hs, rt) == Msg("Request", r, p, hs, {}, SPathIn(changes, Root, rt))

\* requestManager.QueueRequest -> ActionPool: while a request r -> p is being served (it, or one
\* of its responses, is still on the wire) a further request r -> p is dropped (tryTake fails).
\* `n` is the network after the handled message has been taken off.
Outstanding(n, r, p) ==
    \E x \in BagToSet(n) : \/ (x.k = "Request" /\ x.from = r /\ x.to = p)
                            \/ (x.k = "Response" /\ x.from = p /\ x.to = r)
Sendable(n, out) ==
    IF Guard THEN {x \in out : ~(x.k = "Request" /\ Outstanding(n, x.from, x.to))} ELSE out

(* ----------------------------------------------------------------------------- *)
(* actions                                                                       *)
(* ----------------------------------------------------------------------------- *)
NumCreated == Cardinality(Ids) - 1
NumSnaps == Cardinality({c \in Ids \ {Root} : changes[c].isSnap})

\* syncTree.AddContent: new change on top of all current heads, based on the current root;
\* a snapshot empties the in-memory tree and becomes its root. Broadcast to everybody.
AddContent(r, snap) ==
    /\ phase = 1 /\ Holds(r)
    /\ NumCreated < MaxChanges
    /\ snap => NumSnaps < MaxSnaps
    /\ LET c   == IdOf(NumCreated + 1)
           rec == [prev |-> heads[r], snap |-> root[r], isSnap |-> snap]
           ch2 == changes @@ (c :> rec)
           rt2 == IF snap THEN c ELSE root[r]
           out == {Msg("HeadUpdate", r, p, {c}, {c}, SPathIn(ch2, Root, rt2)) : p \in Replicas \ {r}}
       IN  /\ changes' = ch2
           /\ stored' = [stored EXCEPT ![r] = @ \cup {c}]
           /\ root' = [root EXCEPT ![r] = rt2]
           /\ attached' = [attached EXCEPT ![r] = IF snap THEN {c} ELSE @ \cup {c}]
           /\ heads' = [heads EXCEPT ![r] = {c}]
           /\ net' = net (+) SetToBag(out)
           /\ last' = [act |-> "AddContent", r |-> r, snap |-> snap, id |-> c, emit |-> out]
    /\ UNCHANGED phase

\* taking a message off the wire (a bag: any message may be next)
Take(m) == /\ BagIn(m, net)

\* syncHandler.HandleHeadUpdate at m.to
DeliverHeadUpdate(m) ==
    /\ Take(m) /\ m.k = "HeadUpdate" /\ Holds(m.to)
    /\ LET r == m.to
           rest == net (-) SetToBag({m})
       IN IF m.changes = {}
            THEN \* heads-only update: nothing if we have the heads, else ask for them
                 LET out == IF HasHeads(r, m.heads) THEN {}
                            ELSE Sendable(rest, {FullSyncRequest(r, m.from, heads[r], root[r])})
                 IN /\ net' = rest (+) SetToBag(out)
                    /\ last' = [act |-> "DeliverHeadUpdate", m |-> m, emit |-> out]
                    /\ UNCHANGED <<stored, root, attached, heads>>
            ELSE LET res == AddRaw(r, m.heads, m.changes, m.path)
                     req == IF res.resHeads # m.heads
                              THEN {FullSyncRequest(r, m.from, res.heads, res.root)} ELSE {}
                     out == BroadcastOf(r, res, m.from) \cup Sendable(rest, req)
                 IN /\ Apply(r, res)
                    /\ net' = rest (+) SetToBag(out)
                    /\ last' = [act |-> "DeliverHeadUpdate", m |-> m, emit |-> out]
    /\ UNCHANGED <<changes, phase>>

\* response production (ChangesAfterCommonSnapshotLoader + loadIterator):
\* everything stored from the common snapshot on, minus the ancestors (inside that set) of the
\* requester's heads that we know
LoadCs(r, theirPath) ==
    IF theirPath = <<>> THEN Root ELSE CommonSnapPaths(SPath(root[r]), theirPath)
Removed(loaded, theirHeads) ==
    LET bp == theirHeads \cap loaded
    IN  loaded \cap UpClosure(changes, bp)
\* the batches of one response stream: each is [changes, heads]; heads = maximal elements of the
\* window of the storage iteration the batch was cut from (removed entries included)
OneBatch(loaded, removed) ==
    IF loaded \ removed = {} THEN <<>>
    ELSE <<[changes |-> loaded \ removed, heads |-> Maximal(loaded)]>>
DownClosed(D, loaded) == \A x \in D : (changes[x].prev \cap loaded) \subseteq D
TwoBatches(loaded, removed) ==
    {<<[changes |-> D \ removed, heads |-> Maximal(D)],
       [changes |-> (loaded \ D) \ removed, heads |-> Maximal(loaded \ D)]>> :
        D \in {D \in SUBSET loaded : /\ DownClosed(D, loaded)
                                      /\ D \ removed # {} /\ (loaded \ D) \ removed # {}}}
BatchSeqs(loaded, removed) ==
    {OneBatch(loaded, removed)} \cup (IF MaxBatches >= 2 THEN TwoBatches(loaded, removed) ELSE {})

\* what every real response stream satisfies (used by the trace specification, where the
\* batches are taken from the recorded execution): the batches partition the send set, every
\* prefix is causally closed, and the advertised heads are the maximal changes of the batch
\* plus possibly changes the requester already has
ValidBatches(bs, loaded, removed) ==
    LET send == loaded \ removed
        upto(i) == UNION {bs[j].changes : j \in 1..i}
    IN  /\ upto(Len(bs)) = send
        /\ \A i \in 1..Len(bs) : bs[i].changes # {}
        /\ \A i, j \in 1..Len(bs) : i # j => bs[i].changes \cap bs[j].changes = {}
        /\ \A i \in 1..Len(bs) : \A x \in bs[i].changes : (changes[x].prev \cap send) \subseteq upto(i)
        /\ \A i \in 1..Len(bs) : /\ Maximal(bs[i].changes) \subseteq bs[i].heads
                                 /\ bs[i].heads \ bs[i].changes \subseteq removed

\* syncHandler.HandleStreamRequest at m.to
DeliverRequest(m, bs) ==
    /\ Take(m) /\ m.k = "Request" /\ Holds(m.to)
    /\ LET r == m.to
           rest == net (-) SetToBag({m})
           cur == heads[r]
           path == SPath(root[r])
           cs == LoadCs(r, m.path)
       IN IF cs = "" THEN \* ErrNoCommonSnapshot: the handler fails, nothing is sent
               /\ bs = <<>> /\ net' = rest
               /\ last' = [act |-> "DeliverRequest", m |-> m, emit |-> {}]
          ELSE IF cur \subseteq m.heads
            THEN \* they have everything we have: empty response; counter-request iff they have more
                 LET out == {Msg("Response", r, m.from, cur, {}, path)} \cup
                            (IF Cardinality(cur) # Cardinality(m.heads)
                               THEN Sendable(rest, {FullSyncRequest(r, m.from, cur, root[r])}) ELSE {})
                 IN /\ bs = <<>> /\ net' = rest (+) SetToBag(out)
                    /\ last' = [act |-> "DeliverRequest", m |-> m, emit |-> out]
            ELSE LET loaded == StoredFrom(r, cs)
                     removed == Removed(loaded, m.heads)
                     out == {Msg("Response", r, m.from, bs[i].heads, bs[i].changes, path) : i \in DOMAIN bs}
                            \cup (IF m.heads # {} THEN Sendable(rest, {FullSyncRequest(r, m.from, cur, root[r])}) ELSE {})
                 IN /\ ValidBatches(bs, loaded, removed)
                    /\ net' = rest (+) SetToBag(out)
                    /\ last' = [act |-> "DeliverRequest", m |-> m, emit |-> out]
    /\ UNCHANGED <<changes, stored, root, attached, heads, phase>>

\* the batch sequences the exhaustive model explores for request m
BatchChoices(m) ==
    LET r == m.to
        cs == LoadCs(r, m.path)
    IN  IF cs = "" \/ heads[r] \subseteq m.heads THEN {<<>>}
        ELSE BatchSeqs(StoredFrom(r, cs), Removed(StoredFrom(r, cs), m.heads))

\* syncHandler.HandleResponse at m.to
DeliverResponse(m) ==
    /\ Take(m) /\ m.k = "Response" /\ Holds(m.to)
    /\ LET r == m.to
           rest == net (-) SetToBag({m})
       IN IF m.changes = {}
            THEN /\ net' = rest
                 /\ last' = [act |-> "DeliverResponse", m |-> m, emit |-> {}]
                 /\ UNCHANGED <<stored, root, attached, heads>>
            ELSE LET res == AddRaw(r, m.heads, m.changes, m.path)
                     out == BroadcastOf(r, res, m.from)
                 IN /\ Apply(r, res)
                    /\ net' = rest (+) SetToBag(out)
                    /\ last' = [act |-> "DeliverResponse", m |-> m, emit |-> out]
    /\ UNCHANGED <<changes, phase>>

\* a message for a replica that does not hold the object is not handled by the tree at all
\* (objectSync would fetch the tree: FetchTree); it just leaves the wire
DeliverNoTree(m) ==
    /\ Take(m) /\ ~Holds(m.to)
    /\ net' = net (-) SetToBag({m})
    /\ last' = [act |-> "DeliverNoTree", m |-> m, emit |-> {}]
    /\ UNCHANGED <<changes, stored, root, attached, heads, phase>>

\* syncTree.SyncWithPeer: full-sync request with our heads (head sync / anti-entropy).
\* phase 1: spontaneous, bounded; phase 2: while the two replicas differ and the network is idle
SyncWithPeer(r, p) ==
    /\ r # p /\ Holds(r) /\ Holds(p)
    /\ \/ phase = 1 /\ Sync1
       \/ phase = 2 /\ net = EmptyBag /\ heads[r] # heads[p]
    /\ LET out == Sendable(net, {FullSyncRequest(r, p, heads[r], root[r])})
       IN /\ net' = net (+) SetToBag(out)
          /\ last' = [act |-> "SyncWithPeer", r |-> r, p |-> p, emit |-> out]
    /\ UNCHANGED <<changes, stored, root, attached, heads, phase>>

\* BuildSyncTreeOrGetRemote at a replica without the object: new-tree request (no heads, no
\* path) answered by p with its whole storage in one stream; the validated tree is stored, built
\* (root = common snapshot of the stored heads entry) and announced to everybody.
FetchTree(r, p) ==
    /\ ~Holds(r) /\ Holds(p) /\ r # p
    /\ LET got == stored[p]
           hs  == Maximal(got)
           rt  == ReduceRoot(Root, hs)
           out == IF got = {Root} THEN {}
                  ELSE {Msg("HeadUpdate", r, q, hs, {}, SPath(rt)) : q \in Replicas \ {r}}
       IN /\ stored' = [stored EXCEPT ![r] = got]
          /\ root' = [root EXCEPT ![r] = rt]
          /\ attached' = [attached EXCEPT ![r] = IF rt = Root THEN got ELSE got \ Anc(rt)]
          /\ heads' = [heads EXCEPT ![r] = hs]
          /\ net' = net (+) SetToBag(out)
          /\ last' = [act |-> "FetchTree", r |-> r, p |-> p, emit |-> out]
    /\ UNCHANGED <<changes, phase>>

Drop(m) ==
    /\ Lossy /\ phase = 1 /\ Take(m)
    /\ net' = net (-) SetToBag({m})
    /\ last' = [act |-> "Drop", m |-> m, emit |-> {}]
    /\ UNCHANGED <<changes, stored, root, attached, heads, phase>>

\* message fate "delivered with a dead context": the stream is closed / the deadline passes before
\* (mode "before") or while (mode "onwrite": at the handler's first storage write) a head update or a
\* response that carries changes is applied. The storage write fails, the handler rolls the
\* in-memory tree back to what is stored (rebuildFromStorage with its own background context) and
\* returns an error: nothing changes, nothing is sent - for the protocol the message is lost, and the
\* replica must be exactly where it was (in memory and in storage). Requests and heads-only updates
\* do not write; for them a dead context is an ordinary delivery.
DeliverCancelled(m, mode) ==
    /\ Lossy /\ phase = 1 /\ Take(m) /\ Holds(m.to)
    /\ m.k \in {"HeadUpdate", "Response"} /\ m.changes # {}
    /\ net' = net (-) SetToBag({m})
    /\ last' = [act |-> "DeliverCancelled", m |-> m, mode |-> mode, emit |-> {}]
    /\ UNCHANGED <<changes, stored, root, attached, heads, phase>>

Dup(m) ==
    /\ phase = 1 /\ Take(m)
    /\ net' = net (+) SetToBag({m})
    /\ last' = [act |-> "Dup", m |-> m, emit |-> {}]
    /\ UNCHANGED <<changes, stored, root, attached, heads, phase>>

\* end of the hostile phase: from now on no edits, no loss, no duplication
EnterPhase2 ==
    /\ phase = 1 /\ phase' = 2
    /\ last' = [act |-> "EnterPhase2", emit |-> {}]
    /\ UNCHANGED <<changes, stored, root, attached, heads, net>>

Init ==
    /\ changes = (Root :> [prev |-> {}, snap |-> Root, isSnap |-> TRUE])
    /\ stored = [r \in Replicas |-> IF r \in Absent THEN {} ELSE {Root}]
    /\ root = [r \in Replicas |-> Root]
    /\ attached = [r \in Replicas |-> IF r \in Absent THEN {} ELSE {Root}]
    /\ heads = [r \in Replicas |-> IF r \in Absent THEN {} ELSE {Root}]
    /\ net = EmptyBag
    /\ phase = 1
    /\ last = [act |-> "Init", emit |-> {}]

\* one named disjunct per action (TLC reports coverage per name: an action never taken makes
\* the run vacuous)
ActAddContent == \E r \in Replicas, s \in BOOLEAN : AddContent(r, s)
ActDeliverHeadUpdate == \E m \in BagToSet(net) : DeliverHeadUpdate(m)
ActDeliverRequest ==
    \E m \in BagToSet(net) : m.k = "Request" /\ Holds(m.to) /\ \E bs \in BatchChoices(m) : DeliverRequest(m, bs)
ActDeliverResponse == \E m \in BagToSet(net) : DeliverResponse(m)
ActDeliverNoTree == \E m \in BagToSet(net) : DeliverNoTree(m)
ActDrop == \E m \in BagToSet(net) : Drop(m)
ActDeliverCancelled == \E m \in BagToSet(net), mode \in {"before", "onwrite"} : DeliverCancelled(m, mode)
ActDup == \E m \in BagToSet(net) : Dup(m)
ActSyncWithPeer == \E r, p \in Replicas : SyncWithPeer(r, p)
ActFetchTree == \E r, p \in Replicas : FetchTree(r, p)

Next ==
    \/ ActAddContent \/ ActDeliverHeadUpdate \/ ActDeliverRequest \/ ActDeliverResponse
    \/ ActDeliverNoTree \/ ActDrop \/ ActDeliverCancelled \/ ActDup \/ ActSyncWithPeer \/ ActFetchTree
    \/ EnterPhase2

Phase2Next ==
    /\ phase = 2
    /\ \/ ActDeliverHeadUpdate \/ ActDeliverRequest \/ ActDeliverResponse \/ ActDeliverNoTree
       \/ ActSyncWithPeer \/ ActFetchTree

Spec == Init /\ [][Next]_vars
FairSpec == Spec /\ WF_vars(EnterPhase2) /\ WF_vars(Phase2Next)

(* ----------------------------------------------------------------------------- *)
(* properties                                                                    *)
(* ----------------------------------------------------------------------------- *)
TypeOK ==
    /\ \A r \in Replicas : stored[r] \subseteq Ids /\ attached[r] \subseteq Ids /\ heads[r] \subseteq Ids
    /\ phase \in {1, 2}

\* C01 (b): a replica never holds a change whose ancestors it does not hold - in storage and
\* in memory; the heads it advertises are exactly the maximal changes it holds
AncestorClosed ==
    \A r \in Present :
        /\ \A c \in stored[r] : changes[c].prev \subseteq stored[r] /\ changes[c].snap \in stored[r]
        /\ heads[r] = Maximal(stored[r])
        /\ attached[r] \subseteq stored[r]
        /\ root[r] \in attached[r]
        /\ heads[r] \subseteq attached[r]
        /\ \A c \in attached[r] \ {root[r]} :
              changes[c].prev \subseteq attached[r] /\ changes[c].snap \in attached[r]

\* C01 (b'): nothing is advertised that the sender does not hold when it sends it
\* ... and the snapshot path it advertises is the path of its current in-memory root (the receiver
\* picks the common snapshot from it; a stale path makes it rebuild at the wrong snapshot)
AdvertisedHeld(m) ==
    /\ (m.heads \cup m.changes \cup Range(m.path)) \subseteq stored'[m.from]
    /\ (m.path = <<>> \/ m.path = SPathIn(changes', Root, root'[m.from]))
\* (the messages a step puts on the wire are last'.emit; Dup re-injects an old message, which is
\* not an emission of its sender)
AdvertiseOnlyHeld == [][\A m \in last'.emit : AdvertisedHeld(m)]_vars

\* C01 (a): once the network has drained and no pair differs in heads, all replicas hold the
\* same heads and the same changes
Quiescent == phase = 2 /\ net = EmptyBag /\ \A r, p \in Present : heads[r] = heads[p]
Converged == Quiescent => \A r, p \in Present : stored[r] = stored[p]
\* without loss the follow-up full-sync requests of HandleHeadUpdate make anti-entropy
\* unnecessary: whenever nothing is in flight all replicas agree (checked with Lossy = FALSE)
LosslessConverged ==
    (~Lossy /\ Absent = {} /\ net = EmptyBag) => \A r, p \in Present : heads[r] = heads[p] /\ stored[r] = stored[p]
\* ... and that state is reached (a sync that spins forever has no terminal state)
EventuallyConverged == <>[](Quiescent /\ \A r, p \in Present : stored[r] = stored[p])

\* structure the abstraction of GetAfterOrder relies on: the in-memory root lies on the snapshot
\* chain of every head and no stored change is concurrent to it
RootOnChains ==
    \A r \in Present : \A h \in heads[r] :
        root[r] \in Range(SPath(IF changes[h].isSnap THEN h ELSE changes[h].snap))
Comparable ==
    \A r \in Present : stored[r] \subseteq Anc(root[r]) \cup DescIn(changes, stored[r], root[r])
\* attached is exactly the root and its stored descendants
AttachedIsSubtree ==
    \A r \in Present : attached[r] = DescIn(changes, stored[r], root[r])

Sym == Permutations(Replicas)

\* bound on the network (CONSTRAINT)
InFlightBound == BagCardinality(net) <= (IF phase = 1 THEN MaxInFlight ELSE MaxInFlight2)
=============================================================================
