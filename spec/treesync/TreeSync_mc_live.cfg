SPECIFICATION FairSpec
CONSTANTS
  Replicas = {r1, r2}
  MaxChanges = 2
  MaxSnaps = 1
  MaxInFlight = 2
  MaxInFlight2 = 1000
  Sync1 = FALSE
  Guard = TRUE
  MaxBatches = 1
  Absent = {}
  Lossy = TRUE
  SnapCond = TRUE
VIEW view
CONSTRAINT InFlightBound
INVARIANT AncestorClosed
INVARIANT Converged
PROPERTY EventuallyConverged
CHECK_DEADLOCK FALSE
