------------------------------- MODULE TreeDag -------------------------------
(* Pure operators on a change DAG, parameterised by the function `ch`          *)
(*   ch : id -> [prev : SUBSET id, snap : id, isSnap : BOOLEAN]                *)
(* (objecttree/change.go: PreviousIds, SnapshotId, IsSnapshot).  The tree root  *)
(* is `Root`; in the implementation its SnapshotId is "" - here ch[Root].snap   *)
(* = Root and every operator that walks snapshot chains stops at Root.          *)
EXTENDS Naturals, Sequences, FiniteSets

Range(s) == {s[i] : i \in DOMAIN s}

\* strict ancestors of c (transitive closure of prev), computed as an upward closure so that the
\* cost stays polynomial on long recorded histories
RECURSIVE UpClosure(_, _)
UpClosure(ch, S) == LET n == S \cup UNION {ch[x].prev : x \in S}
                    IN  IF n = S THEN S ELSE UpClosure(ch, n)
AncIn(ch, c) == UpClosure(ch, ch[c].prev)

\* c and its descendants inside S (downward closure)
RECURSIVE DownClosure(_, _, _)
DownClosure(ch, S, D) == LET n == D \cup {x \in S : ch[x].prev \cap D # {}}
                         IN  IF n = D THEN D ELSE DownClosure(ch, S, n)
DescIn(ch, S, c) == DownClosure(ch, S, {c})

\* changes of S without a child in S   (Tree.updateHeads: len(c.Next) = 0)
MaximalIn(ch, S) == {c \in S : \A d \in S : c \notin ch[d].prev}

\* snapshot path of snapshot s: s, its base, ..., Root   (objectTree.SnapshotPath: storage walk)
RECURSIVE SPathIn(_, _, _)
SPathIn(ch, root, s) == IF s = root THEN <<root>> ELSE <<s>> \o SPathIn(ch, root, ch[s].snap)

\* commonSnapshotForTwoPaths (util.go): both paths are deepest-first; walk from the right while
\* the elements coincide; the result is the last coinciding element of `ours`. "" = ErrNoCommonSnapshot.
\* (the implementation first searches a starting point from the right; both paths of an honest
\* replica end with the tree root, so the search stops at once - modelled for that case, and the
\* general case falls back to "none" which the callers treat as the error it is.)
SuffixLen(p, q) ==
    LET m == IF Len(p) < Len(q) THEN Len(p) ELSE Len(q)
        Same(k) == \A i \in 0..(k-1) : p[Len(p) - i] = q[Len(q) - i]
    IN  CHOOSE k \in 0..m : Same(k) /\ \A j \in (k+1)..m : ~Same(j)
CommonSnapPaths(ours, theirs) ==
    LET k == SuffixLen(ours, theirs) IN IF k = 0 THEN "" ELSE ours[Len(ours) - k + 1]

\* Tree.add/attach fixpoint: starting from the attached set A0, a candidate is attached once all
\* its parents and its snapshot base are attached (canAttachOrRemove); everything else is dropped
\* at the end of the call (clearUnattached).
\* snapCond = FALSE is the deviation Dev_NoSnapshotCondition (the snapshot base is not required).
RECURSIVE AttachFix(_, _, _, _)
AttachFix(ch, A, cand, snapCond) ==
    LET now == {c \in cand \ A : /\ ch[c].prev # {} /\ ch[c].prev \subseteq A
                                  /\ (snapCond => ch[c].snap \in A)}
    IN  IF now = {} THEN A ELSE AttachFix(ch, A \cup now, cand, snapCond)
=============================================================================
