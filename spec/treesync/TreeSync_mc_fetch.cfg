SPECIFICATION Spec
CONSTANTS
  Replicas = {r1, r2}
  MaxChanges = 2
  MaxSnaps = 1
  MaxInFlight = 2
  MaxInFlight2 = 4
  Sync1 = FALSE
  Guard = FALSE
  MaxBatches = 1
  Absent = {r2}
  Lossy = TRUE
  SnapCond = TRUE
VIEW view
CONSTRAINT InFlightBound
INVARIANT TypeOK
INVARIANT AncestorClosed
INVARIANT Converged
INVARIANT RootOnChains
INVARIANT Comparable
INVARIANT AttachedIsSubtree
PROPERTY AdvertiseOnlyHeld
CHECK_DEADLOCK FALSE
