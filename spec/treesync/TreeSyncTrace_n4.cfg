SPECIFICATION TraceSpec
CONSTANTS
  Replicas = {"r1", "r2", "r3", "r4"}
  MaxChanges = 1000
  MaxSnaps = 1000
  MaxInFlight = 100000
  MaxInFlight2 = 100000
  Sync1 = TRUE
  Guard = FALSE
  MaxBatches = 1
  Absent = {}
  Lossy = TRUE
  SnapCond = TRUE
INVARIANT AncestorClosed
INVARIANT Converged
INVARIANT RootOnChains
INVARIANT Comparable
INVARIANT AttachedIsSubtree
PROPERTY AdvertiseOnlyHeld
CONSTRAINT Mark
POSTCONDITION TraceAccepted
CHECK_DEADLOCK FALSE
