----------------------------- MODULE TreeSyncGen -----------------------------
(* Behaviour generation for the replay harness: TreeSync plus a history variable *)
(* that records, per step, the action with its arguments, the messages the spec   *)
(* predicts it emits, and the projected post-state of every replica. Used with     *)
(* -simulate (one JSON file per behaviour) or exhaustively on tiny configurations  *)
(* (one file per distinct terminal history).                                       *)
EXTENDS TreeSync, VerifEmit

CONSTANT GenDepth      \* a behaviour is emitted when it is quiescent or has this many steps

VARIABLE hist
ASSUME EmitReset

Proj(r) == [heads |-> heads[r], stored |-> stored[r], root |-> root[r], attached |-> attached[r]]
AllProj == [r \in Replicas |-> Proj(r)]

GenInit == Init /\ hist = <<>>
GenNext == /\ Len(hist) < GenDepth
           /\ Next
           /\ hist' = Append(hist, [last |-> last', st |-> AllProj'])
GenSpec == GenInit /\ [][GenNext]_<<vars, hist>>

Behaviour == [spec |-> "TreeSync", replicas |-> Replicas, absent |-> Absent, steps |-> hist,
              quiescent |-> Quiescent, changes |-> changes]
Emit == EmitWhen(NumCreated > 0 /\ (Quiescent \/ Len(hist) = GenDepth), Behaviour)
=============================================================================
