----------------------------- MODULE TreeSyncGen -----------------------------
(* Behaviour generation for the replay harness: TreeSync plus a history variable *)
(* that records, per step, the action with its arguments, the messages the spec   *)
(* predicts it emits, and the projected post-state of every replica. Used with     *)
(* -simulate (one JSON file per behaviour) or exhaustively on tiny configurations  *)
(* (one file per distinct terminal history).                                       *)
EXTENDS TreeSync, VerifEmit

CONSTANTS GenDepth,    \* a behaviour is emitted when it is quiescent or has this many steps
          RankIds      \* TRUE: the position of every new change id in the lexical order of all ids is
                       \* chosen nondeterministically (the harness mines a real id with that rank).
                       \* The specification does not depend on the id order - the implementation
                       \* must not either (head-set comparisons, reduceTree's first head, ...), so
                       \* this only widens the input space the replay explores.

VARIABLES hist,
          rank         \* all ids in ascending lexical order of the real ids
ASSUME EmitReset

Proj(r) == [heads |-> heads[r], stored |-> stored[r], root |-> root[r], attached |-> attached[r]]
AllProj == [r \in Replicas |-> Proj(r)]

InsertAt(s, i, x) == SubSeq(s, 1, i - 1) \o <<x>> \o SubSeq(s, i, Len(s))

GenInit == Init /\ hist = <<>> /\ rank = <<Root>>
GenNext == /\ Len(hist) < GenDepth
           /\ Next
           /\ IF last'.act = "AddContent"
                THEN \E pos \in (IF RankIds THEN 1..(Len(rank) + 1) ELSE {Len(rank) + 1}) :
                        rank' = InsertAt(rank, pos, last'.id)
                ELSE rank' = rank
           /\ hist' = Append(hist, [last |-> last', st |-> AllProj', rank |-> rank'])
GenSpec == GenInit /\ [][GenNext]_<<vars, hist, rank>>

Behaviour == [spec |-> "TreeSync", replicas |-> Replicas, absent |-> Absent, mine |-> RankIds, steps |-> hist,
              quiescent |-> Quiescent, changes |-> changes]
Emit == EmitWhen(NumCreated > 0 /\ (Quiescent \/ Len(hist) = GenDepth), Behaviour)
=============================================================================
