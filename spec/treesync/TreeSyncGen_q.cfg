SPECIFICATION GenSpec
CONSTANTS
  Replicas = {"r1", "r2"}
  MaxChanges = 4
  MaxSnaps = 2
  MaxInFlight = 3
  MaxInFlight2 = 6
  Sync1 = TRUE
  Guard = FALSE
  MaxBatches = 1
  Absent = {}
  Lossy = TRUE
  SnapCond = TRUE
  GenDepth = 40
  RankIds = TRUE
CONSTRAINT InFlightBound
INVARIANT AncestorClosed
INVARIANT Converged
INVARIANT LosslessConverged
INVARIANT RootOnChains
INVARIANT Comparable
INVARIANT AttachedIsSubtree
PROPERTY AdvertiseOnlyHeld
INVARIANT Emit
CHECK_DEADLOCK FALSE
