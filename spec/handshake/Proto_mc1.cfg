\* proto negotiation: one session, every configuration pair, one fault, termination; every distinct end state is
\* also emitted with a history leading there (run with -workers 1; executed on the real functions)
SPECIFICATION Spec
CONSTANTS
  Sessions = {1}
  SessionSpace <- SpaceAll
  MaxFaults = 1
  FaultKinds <- AllKinds
  ResetChoices <- Repaired
  Concurrent = FALSE
  RecordHist = TRUE
INVARIANT Emit
INVARIANTS Agreement ResponderSound InitiatorSound MutualChoice FaultNeverSuccess CorruptionEndsBoth PoolClean
PROPERTY Terminates
VIEW view
CHECK_DEADLOCK FALSE
