\* proto negotiation: one session, every configuration pair, one fault, termination
SPECIFICATION Spec
CONSTANTS
  Sessions = {1}
  SessionSpace <- SpaceAll
  MaxFaults = 1
  FaultKinds <- AllKinds
  ResetChoices <- Repaired
  Concurrent = FALSE
  RecordHist = FALSE
INVARIANTS Agreement ResponderSound InitiatorSound MutualChoice FaultNeverSuccess PoolClean
PROPERTY Terminates
VIEW view
CHECK_DEADLOCK FALSE
