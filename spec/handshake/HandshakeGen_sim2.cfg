\* simulation: two sessions one after the other, up to two faults
INIT Init
NEXT Next
CONSTANTS
  Sessions = {1, 2}
  SessionSpace <- SpaceGen
  MaxFaults = 2
  FaultKinds <- AllKinds
  ChunkPts = {2, 3}
  ResetChoices <- RepairedOnly
  TamperTags <- AllTags
  CacheChoices = {"none"}
  AckCodeChoices <- CodeAcks
  Concurrent = FALSE
  RecordHist = TRUE
INVARIANT Emit
CHECK_DEADLOCK FALSE
