\* what if release() forgot one of the proto fields?  every distinct unsound end state of two consecutive
\* negotiations in each such variant of the model, with a history leading there
INIT Init
NEXT Next
CONSTANTS
  Sessions = {1, 2}
  SessionSpace <- SpaceS
  MaxFaults = 0
  FaultKinds = {}
  ResetChoices <- OneMissing
  Concurrent = FALSE
  RecordHist = TRUE
INVARIANT EmitUnsound
VIEW view
CHECK_DEADLOCK FALSE
