\* (quick) every (version, accepted list, mode) pair on both sides, one client version, no faults: Agreement, MutualGating, Completeness
SPECIFICATION Spec
CONSTANTS
  Sessions = {1}
  SessionSpace <- SpaceAll
  MaxFaults = 0
  FaultKinds = {}
  ChunkPts = {}
  ResetChoices <- RepairedOnly
  TamperTags <- AllTags
  CacheChoices = {"none"}
  AckCodeChoices <- CodeAcks
  Concurrent = FALSE
  RecordHist = FALSE
INVARIANTS TypeOK Agreement SuccessSound MutualGating ReplayRejected FaultNeverSuccess CorruptionEndsBoth NoFaultClean Completeness PoolAccounting PoolClean
VIEW view
CHECK_DEADLOCK FALSE
