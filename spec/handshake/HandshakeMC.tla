----------------------------- MODULE HandshakeMC -----------------------------
(* Model-checking instances of Handshake: session spaces (which configurations *)
(* the two ends of every session may have) and the constant values.            *)
(* Versions: V = 1, so {V-1..V+2} = 0..3; version 0 is the one proto3 does not *)
(* put on the wire.                                                            *)
EXTENDS Handshake

Side(ver, acc, mode, cver, pid, id) ==
    [ver |-> ver, acc |-> acc, mode |-> mode, cver |-> cver, pid |-> pid, id |-> id]

Modes == {"skip", "verify"}
AccLists == {{1}, {0, 1}, {1, 2}, {0, 1, 2}, {2, 3}}

\* every (version, accepted list, mode) pair on both sides, one ordinary client version each
AllSides(pid, id, cvs) ==
    {Side(v, a, m, cv, pid, id) : v \in 0..3, a \in AccLists, m \in Modes, cv \in cvs}
SpaceAll == [s \in Sessions |->
    {[o |-> x, i |-> y] : x \in AllSides("pA", "iA", {"cvA"}), y \in AllSides("pB", "iB", {"cvB"})}]

\* the same with the refused client version on either side
SpaceCV == [s \in Sessions |->
    {[o |-> x, i |-> y] : x \in AllSides("pA", "iA", {"cvA", BadCV, ""}),
                          y \in AllSides("pB", "iB", {"cvB", BadCV, ""})}]

\* fault exploration: a reduced configuration space (the version check only sees membership)
FaultSides(pid, id, cv) ==
    {Side(v, a, m, cv, pid, id) : v \in {1, 2}, a \in {{1}, {1, 2}}, m \in Modes}
SpaceFault == [s \in Sessions |->
    {[o |-> x, i |-> y] : x \in FaultSides("pA", "iA", "cvA"), y \in FaultSides("pB", "iB", "cvB")}]
SpaceFaultSmall == [s \in Sessions |->
    {[o |-> x, i |-> y] : x \in {Side(1, {1}, m, "cvA", "pA", "iA") : m \in Modes},
                          y \in {Side(v, {1}, m, "cvB", "pB", "iB") : v \in {1, 2}, m \in Modes}}]

\* the pool: session 1 is an ordinary connection, session 2 comes from the same or from another
\* peer, possibly with version 0 / no client version / another identity
PoolFirst ==
    {[o |-> Side(1, {1}, m, "cvA", "pA", "iA"), i |-> Side(1, {1}, m2, "cvB", "pB", "iB")] :
        m \in Modes, m2 \in Modes}
PoolSecond ==
    {[o |-> Side(v, {v, 1}, m, cv, p[1], p[2]), i |-> Side(1, {1}, m2, "cvB", "pB", "iB")] :
        v \in {0, 1}, m \in Modes, m2 \in Modes, cv \in {"", "cvM"}, p \in {<<"pA", "iA">>, <<"pM", "iM">>}}
SpacePool == [s \in Sessions |-> IF s = 1 THEN PoolFirst ELSE PoolSecond]

\* a small version of SpacePool for the generation of the pre-repair counterexamples
PoolFirstS ==
    {[o |-> Side(1, {1}, m, "cvA", "pA", "iA"), i |-> Side(1, {1}, m, "cvB", "pB", "iB")] : m \in Modes}
PoolSecondS ==
    {[o |-> Side(v, {v, 1}, m, cv, p[1], p[2]), i |-> Side(1, {1}, m, "cvB", "pB", "iB")] :
        v \in {0, 1}, m \in Modes, cv \in {"", "cvM"}, p \in {<<"pA", "iA">>, <<"pM", "iM">>}}
SpacePoolS == [s \in Sessions |-> IF s = 1 THEN PoolFirstS ELSE PoolSecondS]

\* compatible peers in every combination of verification modes: every tampered frame against them
SpaceRep == [s \in Sessions |->
    {[o |-> Side(1, {1}, m, "cvA", "pA", "iA"), i |-> Side(1, {1}, m2, "cvB", "pB", "iB")] : m \in Modes, m2 \in Modes}]

\* residue hunting: an ordinary or a refused first connection, then a second one as in SpacePoolS
PoolFirstR == PoolFirstS \cup
    {[o |-> Side(2, {1, 2}, "skip", "cvA", "pA", "iA"), i |-> Side(1, {1}, "skip", "cvB", "pB", "iB")]}
SpaceResidue == [s \in Sessions |-> IF s = 1 THEN PoolFirstR ELSE PoolSecondS]

\* quick tier: the fields are taken off the wire by the adversary (strip), so the second connection can be ordinary
PoolSecondQ ==
    {[o |-> Side(1, {1}, m, "cvM", p[1], p[2]), i |-> Side(1, {1}, m, "cvB", "pB", "iB")] :
        m \in Modes, p \in {<<"pA", "iA">>, <<"pM", "iM">>}}
SpaceResidueQ == [s \in Sessions |-> IF s = 1 THEN PoolFirstR ELSE PoolSecondQ]

RepairedOnly == {AllFields}
AsIsOnly == {AsIsResets}
OneMissing == {AllFields \ {f} : f \in AllFields}     \* every way to forget one reset
ForgetSome == OneMissing \cup {AsIsResets}              \* ... and the release() before the repair
AllTags == {"corrupt", "replay", "strip", "forge", "recorded"}
RecordedOnly == {"recorded"}
Replays == {"recorded", "replay"}
StripOnly == {"strip"}

CodeAcks == {[over |-> 1, bad |-> 1]}                           \* the code: Error_Unexpected
NullAcks == {[over |-> 0, bad |-> 1], [over |-> 1, bad |-> 0]}   \* what if one of them were answered with Error_Null
CorruptOnly == {"corrupt"}

AllKinds == {"replace", "inject", "stall", "kill", "cancel"}
=============================================================================
