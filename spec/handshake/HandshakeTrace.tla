---------------------------- MODULE HandshakeTrace ----------------------------
(* Trace validation: the event log recorded from the real handshake code (one    *)
(* line per action of Handshake.tla with its arguments and the observed          *)
(* post-state of the acting worker: pc, contents of the pool object it holds,    *)
(* closed flag, verdict, values attached to the returned context) must be a      *)
(* behaviour of Handshake.  Every invariant of the design is evaluated on every  *)
(* recorded state.  Runs are concatenated; a Config line resets.  A line no      *)
(* action explains is adopted (Resync, counted as drift) so that the invariants  *)
(* are still evaluated on what the code really did.                              *)
EXTENDS HandshakeMC, VerifEmit

ASSUME HwReset /\ TLCSet(3, 0)
Trace == ndJsonDeserialize(TraceFileName)
VARIABLES l, drift
tvars == <<vars, l, drift>>

ToSet(q) == {q[k] : k \in DOMAIN q}
SideOf(x) == [ver |-> x.ver, acc |-> ToSet(x.acc), mode |-> x.mode, cver |-> x.cver, pid |-> x.pid, id |-> x.id]
DescOf(d) == [o |-> SideOf(d.o), i |-> SideOf(d.i)]
SessOf(x) == [s \in Sessions |-> IF s <= Len(x.sess) THEN DescOf(x.sess[s]) ELSE NoDesc]
SameFrame(f, g) == [f EXCEPT !.tag = "x"] = [g EXCEPT !.tag = "x"]
BagOfSeq(q) == [o \in ToSet(q) |-> Cardinality({k \in DOMAIN q : q[k] = o})]

Fresh(x) == /\ sess' = SessOf(x)
            /\ st' = [e \in Ends |-> InitSt] /\ chan' = [e \in Ends |-> <<>>]
            /\ killed' = [s \in Sessions |-> FALSE] /\ pooled' = EmptyBag /\ nf' = 0 /\ resets' = resets
            /\ recorded' = {} /\ verified' = {} /\ cmode' = cmode /\ ackc' = ackc
            /\ tpd' = [e \in Ends |-> FALSE] /\ sfaults' = [s \in Sessions |-> 0]
            /\ tampered' = [s \in Sessions |-> FALSE] /\ hist' = <<>>

TraceInit == /\ l = 2 /\ drift = 0 /\ Trace[1].ev = "Config"
             /\ sess = SessOf(Trace[1])
             /\ st = [e \in Ends |-> InitSt] /\ chan = [e \in Ends |-> <<>>]
             /\ killed = [s \in Sessions |-> FALSE] /\ pooled = EmptyBag /\ nf = 0 /\ resets = AllFields
             /\ recorded = {} /\ verified = {} /\ cmode = "none" /\ ackc = [over |-> 1, bad |-> 1]
             /\ tpd = [e \in Ends |-> FALSE] /\ sfaults = [s \in Sessions |-> 0]
             /\ tampered = [s \in Sessions |-> FALSE] /\ hist = <<>>

Is(e) == l <= Len(Trace) /\ Trace[l].ev = e
X == Trace[l]
E == <<X.s, X.side>>

\* the observed post-state of the acting worker binds the primed variables
PostOk(e, p) ==
    LET s1 == st'[e] IN
    /\ s1.pc = p.pc /\ s1.obj = p.obj /\ s1.closed = p.closed /\ s1.verdict = p.verdict
    /\ p.verdict = "ok" => s1.res = p.res

MAcquire  == Is("Acquire") /\ (IF X.fresh THEN AcquireFresh(E) ELSE AcquirePooled(E)) /\ PostOk(E, X.post)
MWrite    == Is("Write") /\ SameFrame(WFrame(E), X.f)
             /\ (IF X.ok THEN WriteOk(E) ELSE WriteFail(E)) /\ PostOk(E, X.post)
MRecv     == Is("Recv") /\ chan[E] # <<>> /\ SameFrame(Head(chan[E]), X.f) /\ Recv(E, X.q) /\ PostOk(E, X.post)
MReadDead == Is("ReadDead") /\ ReadDead(E) /\ PostOk(E, X.post)
MDeadline == Is("Deadline") /\ Deadline(E) /\ PostOk(E, X.post)
MCancel   == Is("Cancel") /\ Adv_Cancel(E) /\ PostOk(E, X.post)
MReplace  == Is("Replace") /\ Adv_Replace(E) /\ chan'[E][1] = X.f
MInject   == Is("Inject") /\ Adv_Inject(E) /\ chan'[E][1] = X.f
MStall    == Is("Stall") /\ st[E].got = X.got /\ Adv_Stall(E)
MKill     == Is("Kill") /\ Adv_Kill(X.s)
MEnd      == Is("End") /\ BagOfSeq(X.pool) = pooled /\ UNCHANGED vars
MConfig   == Is("Config") /\ Fresh(X)

Matching == MAcquire \/ MWrite \/ MRecv \/ MReadDead \/ MDeadline \/ MCancel
            \/ MReplace \/ MInject \/ MStall \/ MKill \/ MEnd \/ MConfig

\* a line that no action explains: adopt what was observed (and the obvious channel effect)
Adopt(e, p) ==
    st' = [st EXCEPT ![e] = [@ EXCEPT !.pc = p.pc, !.obj = p.obj, !.closed = p.closed, !.verdict = p.verdict,
                                      !.res = IF p.verdict = "ok" THEN p.res ELSE @,
                                      !.got = IF Is("Recv") /\ ~X.popped THEN X.q ELSE 0,
                                      !.wire = IF Is("Recv") /\ X.popped /\ X.f.t = "cred" THEN X.f ELSE @]]
Resync ==
    /\ l <= Len(Trace) /\ X.ev \in {"Acquire", "Write", "Recv", "ReadDead", "Deadline", "Cancel", "End"}
    /\ ~ENABLED Matching
    /\ IF X.ev = "End" THEN UNCHANGED <<st, chan>> /\ pooled' = BagOfSeq(X.pool)
       ELSE /\ Adopt(E, X.post)
            /\ chan' = CASE X.ev = "Write" /\ X.ok -> [chan EXCEPT ![Peer(E)] = Append(@, X.f)]
                         [] X.ev = "Recv" /\ X.popped /\ chan[E] # <<>> -> [chan EXCEPT ![E] = Tail(@)]
                         [] OTHER -> chan
            /\ pooled' = IF X.ev = "Acquire" /\ BagIn(X.o, pooled) THEN pooled (-) SetToBag({X.o})
                         ELSE IF X.post.pc = "done" /\ st[E].pc # "done" THEN pooled (+) SetToBag({Rel(st[E].obj)})
                         ELSE pooled
    /\ drift' = drift + 1
    /\ recorded' = IF X.ev = "Write" /\ X.ok /\ X.f.t = "cred" THEN recorded \cup {X.f} ELSE recorded
    /\ UNCHANGED <<sess, killed, nf, tampered, hist, resets, verified, cmode, ackc, tpd, sfaults>>

TraceNext == \/ Matching /\ l' = l + 1 /\ drift' = drift
             \/ Resync /\ l' = l + 1
TraceSpec == TraceInit /\ [][TraceNext]_tvars

Mark == HwMark(l) /\ TLCSet(3, IF drift > TLCGet(3) THEN drift ELSE TLCGet(3))
TraceAccepted == PrintT(<<"TRACE-DRIFT", TLCGet(3)>>) /\ HwAccepted(Len(Trace))
NoSpace == [s \in Sessions |-> {}]
=============================================================================
