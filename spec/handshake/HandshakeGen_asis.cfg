\* the pre-repair release(): every distinct end state of two consecutive sessions that breaks
\* the property, with a history that leads there
INIT Init
NEXT Next
CONSTANTS
  Sessions = {1, 2}
  SessionSpace <- SpacePool
  MaxFaults = 0
  FaultKinds = {}
  ChunkPts = {}
  ResetChoices <- AsIsOnly
  TamperTags <- AllTags
  CacheChoices = {"none"}
  Concurrent = FALSE
  RecordHist = TRUE
INVARIANT EmitUnsound
VIEW view
CHECK_DEADLOCK FALSE
