\* every behaviour of one negotiation with at most one fault
INIT Init
NEXT Next
CONSTANTS
  Sessions = {1}
  SessionSpace <- SpaceAll
  MaxFaults = 1
  FaultKinds <- AllKinds
  ResetChoices <- Repaired
  Concurrent = FALSE
  RecordHist = TRUE
INVARIANT Emit
VIEW view
CHECK_DEADLOCK FALSE
