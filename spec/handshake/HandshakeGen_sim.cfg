\* simulation: two overlapping sessions on the shared pool, every fault kind, every chunking
INIT Init
NEXT Next
CONSTANTS
  Sessions = {1, 2}
  SessionSpace <- SpaceGen
  MaxFaults = 1
  FaultKinds <- AllKinds
  ChunkPts = {1, 2, 3}
  ResetChoices <- RepairedOnly
  TamperTags <- AllTags
  CacheChoices = {"none"}
  AckCodeChoices <- CodeAcks
  Concurrent = TRUE
  RecordHist = TRUE
INVARIANT Emit
CHECK_DEADLOCK FALSE
