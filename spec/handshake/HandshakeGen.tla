----------------------------- MODULE HandshakeGen -----------------------------
(* Behaviour generation: complete histories of Handshake (configuration, every  *)
(* action with its arguments, predicted verdicts / results / pool contents) are *)
(* written as JSON and executed on the real code by harness/handshake.          *)
EXTENDS HandshakeMC, VerifEmit, SequencesExt
ASSUME EmitReset

EndSeq == SetToSeq(Ends)
PoolSeq == SetToSeq(BagToSet(pooled))
Behaviour ==
    [sess |-> sess, steps |-> hist, resets |-> resets, cmode |-> cmode, ackc |-> ackc,
     ends |-> [k \in 1..Len(EndSeq) |->
                 [s |-> EndSeq[k][1], side |-> EndSeq[k][2],
                  verdict |-> st[EndSeq[k]].verdict, res |-> st[EndSeq[k]].res]],
     pooled |-> [k \in 1..Len(PoolSeq) |-> [o |-> PoolSeq[k], n |-> pooled[PoolSeq[k]]]]]

Emit == EmitWhen(AllDone, Behaviour)

\* behaviours of the pre-repair model (Resets = AsIsResets) that break the property: executed on
\* the real code they either reproduce (violation) or show that the code no longer behaves so
EmitUnsound == EmitWhen(AllDone /\ ~(SuccessSound /\ MutualGating /\ Agreement /\ CorruptionEndsBoth), Behaviour)

\* a mixed space for simulation
GenSides(pid, id, cvs) ==
    {Side(v, a, m, cv, pid, id) : v \in 0..2, a \in {{1}, {0, 1}, {1, 2}}, m \in Modes, cv \in cvs}
SpaceGen == [s \in Sessions |->
    {[o |-> x, i |-> y] : x \in GenSides("pA", "iA", {"cvA", ""}) \cup GenSides("pM", "iM", {"cvM", BadCV}),
                          y \in GenSides("pB", "iB", {"cvB"})}]
=============================================================================
