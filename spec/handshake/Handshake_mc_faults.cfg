\* one session, one fault of every kind at every point, every chunking
SPECIFICATION Spec
CONSTANTS
  Sessions = {1}
  SessionSpace <- SpaceFault
  MaxFaults = 1
  FaultKinds <- AllKinds
  ChunkPts = {1, 2, 3}
  ResetChoices <- RepairedOnly
  TamperTags <- AllTags
  CacheChoices = {"none"}
  AckCodeChoices <- CodeAcks
  Concurrent = FALSE
  RecordHist = FALSE
INVARIANTS TypeOK Agreement SuccessSound MutualGating ReplayRejected FaultNeverSuccess CorruptionEndsBoth NoFaultClean Completeness PoolAccounting PoolClean
PROPERTY Terminates
VIEW view
CHECK_DEADLOCK FALSE
