\* deviation: the long-lived checker remembers verified payloads without the endpoints (cmode
\* "payload" / "peer").  Two consecutive sessions, the adversary may replay a credentials frame observed earlier:
\* TLC must refute ReplayRejected / SuccessSound (the checker's state across sessions is in the model)
SPECIFICATION Spec
CONSTANTS
  Sessions = {1, 2}
  SessionSpace <- SpacePoolS
  MaxFaults = 1
  FaultKinds = {"replace"}
  ChunkPts = {}
  ResetChoices <- RepairedOnly
  TamperTags <- Replays
  CacheChoices = {"payload", "peer"}
  AckCodeChoices <- CodeAcks
  Concurrent = FALSE
  RecordHist = FALSE
INVARIANTS ReplayRejected SuccessSound
VIEW view
CHECK_DEADLOCK FALSE
