\* deviation: an oversized frame (or an unparsable payload) is answered with ack code 0 (Null) instead of
\* Unexpected: TLC must refute CorruptionEndsBoth (the peer of the end that hit the frame reports success)
SPECIFICATION Spec
CONSTANTS
  Sessions = {1}
  SessionSpace <- SpaceRep
  MaxFaults = 1
  FaultKinds = {"replace", "inject"}
  ChunkPts = {2}
  ResetChoices <- RepairedOnly
  TamperTags <- CorruptOnly
  CacheChoices = {"none"}
  AckCodeChoices <- NullAcks
  Concurrent = FALSE
  RecordHist = FALSE
INVARIANTS CorruptionEndsBoth
VIEW view
CHECK_DEADLOCK FALSE
