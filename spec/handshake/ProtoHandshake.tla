--------------------------- MODULE ProtoHandshake ---------------------------
(***************************************************************************)
(* Proto negotiation of any-sync (net/secureservice/handshake/proto.go):   *)
(* OutgoingProtoHandshake / IncomingProtoHandshake, two frames, run on     *)
(* every sub-stream after the credential handshake.  It takes its working  *)
(* object from the SAME sync.Pool as the credential handshake and reads    *)
(* the peer's message into the pooled remoteProto with UnmarshalVT, which  *)
(* merges: the scalar `proto` keeps the old value when absent on the wire, *)
(* the repeated `encodings` are APPENDED to what is already there.         *)
(* release() must therefore clear both; `ResetChoices` keeps the variants  *)
(* that forget one of them.                                                *)
(*                                                                         *)
(* Same step granularity, connection semantics and pool abstraction as     *)
(* Handshake.tla (one action per blocking conn call; TCP-like pipe; bag of *)
(* residual object contents).  The credential fields of the object are not *)
(* touched by this handshake and vice versa, so the two are modelled       *)
(* separately.                                                             *)
(***************************************************************************)
EXTENDS Integers, Sequences, FiniteSets, Bags, TLC

CONSTANTS
    Sessions,      \* {1} or {1, 2}
    SessionSpace,  \* [Sessions -> set of [o |-> [pt, encs], i |-> [allowed, first, supported]]]
    MaxFaults, FaultKinds,   \* subset of {"replace", "stall", "kill", "cancel"}
    ResetChoices,  \* candidate sets of fields cleared by release(): subsets of {"pt", "encs", "ack"}
    Concurrent, RecordHist

AllFields == {"pt", "encs", "ack"}
None == 0      \* handshakeproto.Encoding_None;  Snappy = 1
NoEnc == <<0>> \* noEncodings

VARIABLES sess, st, chan, killed, pooled, resets, nf, tampered, hist
vars == <<sess, st, chan, killed, pooled, resets, nf, tampered, hist>>
view == <<sess, st, chan, killed, pooled, resets, nf, tampered>>

Sides == {"O", "I"}
Ends == Sessions \X Sides
Peer(e) == <<e[1], IF e[2] = "O" THEN "I" ELSE "O">>
Cfg(e) == IF e[2] = "O" THEN sess[e[1]].o ELSE sess[e[1]].i

ZeroObj == [pt |-> 0, encs |-> <<>>, ack |-> 0]
Frame(t, pt, encs, err) == [t |-> t, sz |-> "ok", pt |-> pt, encs |-> encs, err |-> err, tag |-> "honest"]
ProtoF(pt, encs) == Frame("proto", pt, encs, 0)
Ack(err) == Frame("ack", 0, <<>>, err)
NoFrame == Frame("none", 0, <<>>, 0)

MergeProto(o, f) == [o EXCEPT !.pt = IF f.pt = 0 THEN @ ELSE f.pt, !.encs = @ \o f.encs]
MergeAck(o, f) == [o EXCEPT !.ack = IF f.err = 0 THEN @ ELSE f.err]
Rel(o) == [pt   |-> IF "pt" \in resets THEN 0 ELSE o.pt,
           encs |-> IF "encs" \in resets THEN <<>> ELSE o.encs,
           ack  |-> IF "ack" \in resets THEN 0 ELSE o.ack]

SeqSet(q) == {q[k] : k \in DOMAIN q}
\* chooseEncoding(remote, local): first remote encoding the local side supports, else None
Choose(renc, sup) ==
    LET ok == {k \in DOMAIN renc : renc[k] \in sup} IN
    IF ok = {} THEN NoEnc ELSE <<renc[CHOOSE k \in ok : \A j \in ok : k <= j]>>

He(c) == "he" \o ToString(c)
NoRes == [pt |-> 0, encs |-> <<>>]
InitSt == [pc |-> "idle", obj |-> ZeroObj, closed |-> FALSE, stalled |-> FALSE, verdict |-> "none", res |-> NoRes,
           wire |-> NoFrame, taint |-> FALSE, errc |-> 0, werr |-> "none", reply |-> NoFrame]

NoDesc == [o |-> [pt |-> 0, encs |-> <<>>], i |-> [allowed |-> {}, first |-> 0, supported |-> {}]]
Opened(s) == sess[s].i.allowed # {}
Log(r) == hist' = IF RecordHist THEN Append(hist, r) ELSE hist

Init ==
    /\ sess = [s \in Sessions |-> NoDesc]
    /\ st = [e \in Ends |-> InitSt] /\ chan = [e \in Ends |-> <<>>]
    /\ killed = [s \in Sessions |-> FALSE] /\ pooled = EmptyBag /\ resets \in ResetChoices
    /\ nf = 0 /\ tampered = [s \in Sessions |-> FALSE] /\ hist = <<>>

AliveW(e) == ~st[e].closed /\ ~killed[e[1]]
MayStart(s) == Opened(s) /\ (Concurrent \/ \A e \in Ends : e[1] < s => st[e].pc = "done")
FinishSt(e, v, close) ==
    [st EXCEPT ![e] = [@ EXCEPT !.pc = "done", !.verdict = v, !.closed = @ \/ close, !.obj = ZeroObj]]
Released(o) == pooled' = pooled (+) SetToBag({Rel(o)})

Open(s) ==
    /\ ~Opened(s) /\ \A s2 \in Sessions : s2 < s => Opened(s2)
    /\ \E d \in SessionSpace[s] : sess' = [sess EXCEPT ![s] = d]
    /\ UNCHANGED <<st, chan, killed, pooled, resets, nf, tampered, hist>>

StartPc(e) == IF e[2] = "O" THEN "wproto" ELSE "rproto"
AcquireFresh(e) ==
    /\ st[e].pc = "idle" /\ MayStart(e[1])
    /\ st' = [st EXCEPT ![e] = [@ EXCEPT !.pc = StartPc(e), !.obj = ZeroObj]]
    /\ Log([a |-> "Acquire", s |-> e[1], side |-> e[2], fresh |-> TRUE, o |-> ZeroObj])
    /\ UNCHANGED <<sess, chan, killed, pooled, resets, nf, tampered>>
AcquirePooled(e) ==
    /\ st[e].pc = "idle" /\ MayStart(e[1])
    /\ \E o \in BagToSet(pooled) :
         /\ pooled' = pooled (-) SetToBag({o})
         /\ st' = [st EXCEPT ![e] = [@ EXCEPT !.pc = StartPc(e), !.obj = o]]
         /\ Log([a |-> "Acquire", s |-> e[1], side |-> e[2], fresh |-> FALSE, o |-> o])
    /\ UNCHANGED <<sess, chan, killed, resets, nf, tampered>>

\* what the worker writes in its current state
WFrame(e) == CASE st[e].pc = "wproto" /\ e[2] = "O" -> ProtoF(Cfg(e).pt, Cfg(e).encs)
               [] st[e].pc = "ewack" -> Ack(st[e].errc)
               [] OTHER -> st[e].reply          \* responder: ack Null or proto(first allowed, chosen)

Write(e) ==
    /\ st[e].pc \in {"wproto", "wreply", "ewack"}
    /\ IF AliveW(e) THEN chan' = [chan EXCEPT ![Peer(e)] = Append(@, WFrame(e))] ELSE chan' = chan
    /\ IF st[e].pc = "wproto" /\ AliveW(e) THEN st' = [st EXCEPT ![e].pc = "rmsg"] /\ pooled' = pooled
       ELSE IF st[e].pc = "wreply" /\ AliveW(e) THEN st' = FinishSt(e, "ok", FALSE) /\ Released(st[e].obj)
       ELSE /\ st' = FinishSt(e, IF st[e].pc = "ewack" THEN st[e].werr ELSE "io", TRUE)
            /\ Released(st[e].obj)
    /\ Log([a |-> "Write", s |-> e[1], side |-> e[2], f |-> WFrame(e), ok |-> AliveW(e)])
    /\ UNCHANGED <<sess, killed, resets, nf, tampered>>

Allowed(p) == IF p = "rproto" THEN {"proto"} ELSE {"ack", "proto"}
CanRecv(e) == /\ st[e].pc \in {"rproto", "rmsg"} /\ chan[e] # <<>>
              /\ ~st[e].stalled /\ ~killed[e[1]] /\ ~st[e].closed

ToErrAck(e, o, c, v, tnt) ==
    /\ st' = [st EXCEPT ![e] = [@ EXCEPT !.pc = "ewack", !.errc = c, !.werr = v, !.obj = o, !.taint = tnt]]
    /\ pooled' = pooled

Recv(e) ==
    /\ CanRecv(e)
    /\ LET f == Head(chan[e])
           bad == f.t \notin Allowed(st[e].pc) \/ f.sz # "ok"
           tnt == st[e].taint \/ bad IN
       /\ chan' = [chan EXCEPT ![e] = Tail(@)]
       /\ IF f.t \notin Allowed(st[e].pc) THEN                  \* ErrUnexpectedPayload: Close only
              st' = [FinishSt(e, He(3), TRUE) EXCEPT ![e].taint = TRUE] /\ Released(st[e].obj)
          ELSE IF f.sz = "over" THEN ToErrAck(e, st[e].obj, 1, "notHandshake", TRUE)
          ELSE IF f.sz = "bad" THEN ToErrAck(e, st[e].obj, 1, "unmarshal", TRUE)
          ELSE IF f.t = "ack" THEN                               \* initiator only
              LET o == MergeAck(st[e].obj, f) IN
              /\ Released(o)
              /\ IF o.ack = 7 THEN st' = FinishSt(e, "remoteIncompat", FALSE)
                 ELSE IF o.ack = 0 THEN
                     st' = [FinishSt(e, "ok", FALSE) EXCEPT ![e].res = [pt |-> Cfg(e).pt, encs |-> NoEnc], ![e].wire = f]
                 ELSE st' = FinishSt(e, He(o.ack), FALSE)
          ELSE \* a proto frame
              LET o == MergeProto(st[e].obj, f) IN
              IF e[2] = "O" THEN
                  /\ st' = [FinishSt(e, "ok", FALSE) EXCEPT ![e].res = [pt |-> o.pt, encs |-> o.encs], ![e].wire = f]
                  /\ Released(o)
              ELSE IF o.pt \notin Cfg(e).allowed THEN ToErrAck(e, o, 7, He(7), tnt)
              ELSE IF o.encs = <<>> THEN                         \* old client: ack Null
                  /\ st' = [st EXCEPT ![e] = [@ EXCEPT !.pc = "wreply", !.obj = o, !.wire = f, !.reply = Ack(0),
                                                        !.res = [pt |-> o.pt, encs |-> <<>>]]]
                  /\ pooled' = pooled
              ELSE
                  LET enc == Choose(o.encs, Cfg(e).supported) IN
                  /\ st' = [st EXCEPT ![e] = [@ EXCEPT !.pc = "wreply", !.obj = o, !.wire = f,
                                                        !.reply = ProtoF(Cfg(e).first, enc),
                                                        !.res = [pt |-> o.pt, encs |-> enc]]]
                  /\ pooled' = pooled
       /\ Log([a |-> "Recv", s |-> e[1], side |-> e[2], q |-> 4, f |-> f])
    /\ UNCHANGED <<sess, killed, resets, nf, tampered>>

ReadDeadCond(e) == /\ st[e].pc \in {"rproto", "rmsg"} /\ ~st[e].closed
                   /\ (killed[e[1]] \/ (st[Peer(e)].closed /\ (chan[e] = <<>> \/ st[e].stalled)))
ReadDead(e) ==
    /\ ReadDeadCond(e)
    /\ st' = FinishSt(e, "io", TRUE) /\ Released(st[e].obj)
    /\ Log([a |-> "ReadDead", s |-> e[1], side |-> e[2]])
    /\ UNCHANGED <<sess, chan, killed, resets, nf, tampered>>

CanStep(e) == \/ (st[e].pc = "idle" /\ MayStart(e[1]))
              \/ st[e].pc \in {"wproto", "wreply", "ewack"}
              \/ CanRecv(e) \/ ReadDeadCond(e)
Stuck(s) == \A e \in Ends : e[1] = s => ~CanStep(e)
Deadline(e) ==
    /\ st[e].pc \in {"rproto", "rmsg"} /\ Stuck(e[1])
    /\ st' = FinishSt(e, "ctx", TRUE) /\ Released(st[e].obj)
    /\ Log([a |-> "Deadline", s |-> e[1], side |-> e[2]])
    /\ UNCHANGED <<sess, chan, killed, resets, nf, tampered>>

Tag(f, t) == [f EXCEPT !.tag = t]
Replacements(e, f) ==
    {Tag([f EXCEPT !.t = "junk"], "corrupt"), Tag([f EXCEPT !.sz = "over"], "corrupt"),
     Tag([f EXCEPT !.sz = "bad"], "corrupt"), Tag(Frame("cred", 0, <<>>, 0), "corrupt")}
    \cup (IF f.t = "proto" THEN
            {Tag([f EXCEPT !.encs = <<>>], "strip"), Tag([f EXCEPT !.pt = 0], "strip"),
             Tag([f EXCEPT !.pt = 1], "forge"), Tag([f EXCEPT !.encs = <<1>>], "forge"),
             Tag(Ack(0), "forge"), Tag(Ack(7), "forge")} \ {Tag(f, "strip"), Tag(f, "forge")}
          ELSE {Tag(Ack(IF f.err = 0 THEN 7 ELSE 0), "forge"), Tag(ProtoF(0, <<1>>), "forge")})
Adv_Replace(e) ==
    /\ "replace" \in FaultKinds /\ nf < MaxFaults
    /\ chan[e] # <<>> /\ st[e].pc # "done" /\ Head(chan[e]).tag = "honest"
    /\ \E f2 \in Replacements(e, Head(chan[e])) :
         /\ chan' = [chan EXCEPT ![e] = <<f2>> \o Tail(@)]
         /\ Log([a |-> "Replace", s |-> e[1], side |-> e[2], f |-> f2])
    /\ nf' = nf + 1 /\ tampered' = [tampered EXCEPT ![e[1]] = TRUE]
    /\ UNCHANGED <<sess, st, killed, pooled, resets>>
\* the frame in flight never arrives
Adv_Stall(e) ==
    /\ "stall" \in FaultKinds /\ nf < MaxFaults
    /\ chan[e] # <<>> /\ ~st[e].stalled /\ st[e].pc # "done" /\ ~killed[e[1]]
    /\ st' = [st EXCEPT ![e].stalled = TRUE] /\ nf' = nf + 1
    /\ Log([a |-> "Stall", s |-> e[1], side |-> e[2], got |-> 0])
    /\ UNCHANGED <<sess, chan, killed, pooled, resets, tampered>>
Adv_Kill(s) ==
    /\ "kill" \in FaultKinds /\ nf < MaxFaults
    /\ ~killed[s] /\ \E e \in Ends : e[1] = s /\ st[e].pc \notin {"idle", "done"}
    /\ killed' = [killed EXCEPT ![s] = TRUE] /\ nf' = nf + 1
    /\ Log([a |-> "Kill", s |-> s, side |-> "-"])
    /\ UNCHANGED <<sess, st, chan, pooled, resets, tampered>>
Adv_Cancel(e) ==
    /\ "cancel" \in FaultKinds /\ nf < MaxFaults /\ st[e].pc \notin {"idle", "done"}
    /\ st' = FinishSt(e, "ctx", TRUE) /\ Released(st[e].obj) /\ nf' = nf + 1
    /\ Log([a |-> "Cancel", s |-> e[1], side |-> e[2]])
    /\ UNCHANGED <<sess, chan, killed, resets, tampered>>

SysNext == \/ \E s \in Sessions : Open(s)
           \/ \E e \in Ends : AcquireFresh(e) \/ AcquirePooled(e) \/ Write(e) \/ Recv(e) \/ ReadDead(e) \/ Deadline(e)
AdvNext == (\E e \in Ends : Adv_Replace(e) \/ Adv_Stall(e) \/ Adv_Cancel(e)) \/ (\E s \in Sessions : Adv_Kill(s))
Next == SysNext \/ AdvNext
Spec == Init /\ [][Next]_vars /\ WF_vars(SysNext)

(* ------------------------------ properties ----------------------------- *)
AllDone == \A e \in Ends : st[e].pc = "done"
Ok(e) == st[e].verdict = "ok"
Eff(encs) == IF encs = <<>> THEN None ELSE encs[1]     \* the encoding a result stands for

\* no fault: same verdict, and on success the same protocol and encoding on both ends
Agreement ==
    \A s \in Sessions :
        LET o == <<s, "O">>  i == <<s, "I">> IN
        (nf = 0 /\ st[o].pc = "done" /\ st[i].pc = "done") =>
            /\ Ok(o) <=> Ok(i)
            /\ Ok(o) => Eff(st[o].res.encs) = Eff(st[i].res.encs) /\ st[o].res.pt = st[i].res.pt

\* the responder's choice is justified by what it consumed from the wire and by its own configuration
ResponderSound ==
    \A s \in Sessions :
        LET i == <<s, "I">>  w == st[i].wire  r == st[i].res IN
        Ok(i) => /\ w.t = "proto" /\ w.pt \in Cfg(i).allowed /\ r.pt = w.pt
                 /\ Eff(r.encs) # None => Eff(r.encs) \in SeqSet(w.encs) /\ Eff(r.encs) \in Cfg(i).supported
                 /\ w.encs = <<>> => r.encs = <<>>
\* the initiator reports what the responder's frame says
InitiatorSound ==
    \A s \in Sessions :
        LET o == <<s, "O">>  w == st[o].wire  r == st[o].res IN
        Ok(o) => \/ w.t = "ack" /\ w.err = 0 /\ r = [pt |-> Cfg(o).pt, encs |-> NoEnc]
                 \/ w.t = "proto" /\ r = [pt |-> w.pt, encs |-> w.encs]
\* untampered: an encoding other than None was offered by the initiator and is supported by the responder
MutualChoice ==
    \A e \in Ends : (Ok(e) /\ ~tampered[e[1]] /\ Eff(st[e].res.encs) # None) =>
        /\ Eff(st[e].res.encs) \in SeqSet(sess[e[1]].o.encs)
        /\ Eff(st[e].res.encs) \in sess[e[1]].i.supported
FaultNeverSuccess == \A e \in Ends : st[e].taint => ~Ok(e)
\* a malformed frame consumed by the responder ends in an error for the initiator too (it is still waiting for
\* the reply); stated for behaviours whose only fault is that frame
CorruptionEndsBoth == \A s \in Sessions : (st[<<s, "I">>].taint /\ nf = 1) => ~Ok(<<s, "O">>)
PoolClean == resets = AllFields => \A o \in BagToSet(pooled) : o = ZeroObj
Terminates == <>[]AllDone
=============================================================================
