\* (quick: smaller configuration space) two sessions one after the other on the shared pool, every choice of pooled object,
\* second peer with version 0 / no client version / other identity, one tampered frame
SPECIFICATION Spec
CONSTANTS
  Sessions = {1, 2}
  SessionSpace <- SpacePoolS
  MaxFaults = 1
  FaultKinds = {"replace"}
  ChunkPts = {}
  ResetChoices <- RepairedOnly
  TamperTags <- AllTags
  CacheChoices = {"none"}
  AckCodeChoices <- CodeAcks
  Concurrent = FALSE
  RecordHist = FALSE
INVARIANTS TypeOK Agreement SuccessSound MutualGating ReplayRejected FaultNeverSuccess CorruptionEndsBoth NoFaultClean Completeness PoolAccounting PoolClean
VIEW view
CHECK_DEADLOCK FALSE
