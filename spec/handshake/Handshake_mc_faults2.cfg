\* one session, two faults of every kind at every point
SPECIFICATION Spec
CONSTANTS
  Sessions = {1}
  SessionSpace <- SpaceFault
  MaxFaults = 2
  FaultKinds <- AllKinds
  ChunkPts = {1, 2, 3}
  ResetChoices <- RepairedOnly
  TamperTags <- AllTags
  CacheChoices = {"none"}
  AckCodeChoices <- CodeAcks
  Concurrent = FALSE
  RecordHist = FALSE
INVARIANTS TypeOK Agreement SuccessSound MutualGating ReplayRejected FaultNeverSuccess CorruptionEndsBoth NoFaultClean Completeness PoolAccounting PoolClean

VIEW view
CHECK_DEADLOCK FALSE
