------------------------------ MODULE Handshake ------------------------------
(***************************************************************************)
(* Credential handshake of any-sync                                        *)
(*   net/secureservice/handshake/{handshake.go,credential.go}              *)
(*   net/secureservice/credential.go (noVerifyChecker, peerSignVerifier)   *)
(*                                                                         *)
(* A session is one connection: side "O" runs OutgoingHandshake, side "I"  *)
(* runs IncomingHandshake.  Every side works on an object taken from the   *)
(* process-wide sync.Pool (handshakePool); the pool IS part of the state:  *)
(* `pooled` is the bag of residual (remoteCred, remoteAck) contents of the *)
(* objects that were returned, Acquire picks any of them or a fresh one,   *)
(* and reading a frame MERGES the fields present on the wire into the      *)
(* object (UnmarshalVT merges, proto3 does not transmit zero values).      *)
(*                                                                         *)
(* One action = one conn call of the worker goroutine (Write of a whole    *)
(* frame, or the Reads that consume the bytes delivered so far) together   *)
(* with the local computation up to the next conn call that can block.     *)
(* Calls on a dead connection never block, so an error path that only      *)
(* touches a dead connection (tryWriteErrAndClose after an I/O error) is   *)
(* part of the step that discovered the error.                             *)
(*                                                                         *)
(* Connection semantics (that of the harness pipe, modelled on TCP): a     *)
(* frame written stays readable after the writer closed; Write fails only  *)
(* when the own endpoint is closed or the transport was killed - writing   *)
(* to a peer that has already closed SUCCEEDS (the bytes go nowhere), so   *)
(* a side that does not wait for the peer's verdict is not saved by a      *)
(* write error; Read returns EOF when the peer closed and nothing          *)
(* deliverable is left, or when the transport was killed.                  *)
(*                                                                         *)
(* Deliberate deviations are constants: `ResetChoices` (which fields       *)
(* release() clears; the code before the repair cleared only               *)
(* ctype/pay/ack = AsIsResets; forgetting any one field = OneMissing).     *)
(***************************************************************************)
EXTENDS Integers, Sequences, FiniteSets, Bags, TLC

CONSTANTS
    Sessions,      \* set of session numbers, e.g. {1, 2}
    SessionSpace,  \* [Sessions -> set of descriptors [o |-> side, i |-> side]],
                   \*   side = [ver, acc, mode, cver, pid, id]
    MaxFaults,     \* number of adversary / fault actions per behaviour
    FaultKinds,    \* subset of {"replace","inject","stall","kill","cancel"}
    ChunkPts,      \* subset of {1,2,3}: partial delivery points explored (1 = inside the
                   \*   header, 2 = header complete, 3 = inside the payload)
    ResetChoices,  \* set of candidate sets of fields cleared by release() (subsets of AllFields); the
                   \*   set in force (`resets`) is chosen initially.  {AllFields} = the repaired code
    TamperTags,    \* kinds of replaced frames: subset of {"corrupt","replay","strip","forge","recorded"}
    CacheChoices,  \* candidate behaviours of the long-lived credential checker across connections; the one in
                   \*   force (`cmode`) is chosen initially: "none" (the code: no state), or a deviation:
                   \*   "payload" = payloads that passed the signature check once are accepted again without
                   \*   looking at the endpoints; "peer" = a remote peer id verified once is not verified again
    AckCodeChoices,\* candidate mappings error kind -> ack code written by tryWriteErrAndClose for the errors
                   \*   that are not HandshakeErrors: [over |-> code for ErrGotUnexpectedMessage (oversized
                   \*   frame), bad |-> code for an unmarshal error].  The code: {[over |-> 1, bad |-> 1]}
                   \*   (Error_Unexpected); a 0 (Error_Null) there is a deviation.  Chosen initially (`ackc`).
    Concurrent,    \* TRUE: sessions overlap arbitrarily; FALSE: session s starts after s-1 ended
    RecordHist     \* TRUE: keep the history variable (behaviour generation)

AllFields == {"ctype", "pay", "ver", "cver", "ack"}
AsIsResets == {"ctype", "pay", "ack"}      \* release() before the repair
BadCV == "middle:v0.36.6"                  \* client version refused by the hot fix in the checkers
\* the checkers refuse every client version that CONTAINS BadCV; the client versions used anywhere
\* (model configurations, harness) that do are listed here
Banned(cv) == cv \in {BadCV, "x/middle:v0.36.6/y"}

VARIABLES
    sess,     \* sess[s] : the descriptor chosen for session s
    st,       \* st[e]   : worker state of end e = <<s, side>>  (record, see InitSt)
    chan,     \* chan[e] : frames in flight towards e (written by Peer(e)), FIFO
    killed,   \* killed[s] : the transport of session s was cut by the adversary
    pooled,   \* bag of residual object contents in handshakePool
    resets,   \* the fields release() clears (constant during a behaviour)
    recorded, \* credentials frames seen on any connection so far: what an observer can replay later
    cmode,    \* behaviour of the long-lived checkers (constant during a behaviour), see CacheChoices
    verified, \* state of the long-lived checkers: set of [c |-> side configuration, p |-> payload]
              \*   (checker c accepted the signature payload p on an earlier connection); only
              \*   maintained when cmode # "none"
    ackc,     \* the error -> ack code mapping in force (constant during a behaviour), see AckCodeChoices
    tpd,      \* tpd[e]: when e consumed its first malformed / truncated frame, Peer(e) no longer depended on e
              \*   (see PeerIndependent: frame 4, or a peer that had read everything it reads)
    sfaults,  \* sfaults[s]: adversary actions on session s so far
    nf,       \* faults used so far
    tampered, \* tampered[s] : a frame of session s was replaced / injected
    hist      \* history (behaviour generation only)

vars == <<sess, st, chan, killed, pooled, resets, recorded, cmode, verified, ackc, tpd, sfaults, nf, tampered, hist>>
view == <<sess, st, chan, killed, pooled, resets, recorded, cmode, verified, ackc, tpd, sfaults, nf, tampered>>

Sides == {"O", "I"}
Ends == Sessions \X Sides
Peer(e) == <<e[1], IF e[2] = "O" THEN "I" ELSE "O">>
Cfg(e) == IF e[2] = "O" THEN sess[e[1]].o ELSE sess[e[1]].i

(* ------------------------------ data ----------------------------------- *)
NoPay == [k |-> "none", id |-> "-", a |-> "-", b |-> "-"]
Sig(id, a, b) == [k |-> "sig", id |-> id, a |-> a, b |-> b]
ZeroObj == [ctype |-> "skip", pay |-> NoPay, ver |-> 0, cver |-> "", ack |-> 0]

Cred(ctype, pay, ver, cver) ==
    [t |-> "cred", sz |-> "ok", ctype |-> ctype, pay |-> pay, ver |-> ver, cver |-> cver,
     err |-> 0, tag |-> "honest"]
Ack(err) ==
    [t |-> "ack", sz |-> "ok", ctype |-> "skip", pay |-> NoPay, ver |-> 0, cver |-> "",
     err |-> err, tag |-> "honest"]
Other(t) == [Ack(0) EXCEPT !.t = t]          \* "proto" (type 3) or "junk" (type byte not 1..3)
NoFrame == Other("none")

\* credentials a side makes for this connection: MakeCredentials(remotePeerId)
MakeCred(e) ==
    LET c == Cfg(e) IN
    IF c.mode = "skip" THEN Cred("skip", NoPay, c.ver, c.cver)
    ELSE Cred("signed", Sig(c.id, c.pid, Cfg(Peer(e)).pid), c.ver, c.cver)

\* payload length zero <=> every field has its zero value (proto3)
EmptyPayload(f) ==
    /\ f.sz = "ok"
    /\ \/ f.t = "ack" /\ f.err = 0
       \/ f.t = "cred" /\ f.ctype = "skip" /\ f.pay = NoPay /\ f.ver = 0 /\ f.cver = ""

\* UnmarshalVT: fields present on the wire overwrite, absent fields keep the object's value
MergeCred(o, f) ==
    [o EXCEPT !.ctype = IF f.ctype = "skip" THEN @ ELSE f.ctype,
              !.pay   = IF f.pay = NoPay THEN @ ELSE f.pay,
              !.ver   = IF f.ver = 0 THEN @ ELSE f.ver,
              !.cver  = IF f.cver = "" THEN @ ELSE f.cver]
MergeAck(o, f) == [o EXCEPT !.ack = IF f.err = 0 THEN @ ELSE f.err]

\* release(): what stays in the object when it goes back to the pool
Rel(o) ==
    [ctype |-> IF "ctype" \in resets THEN "skip" ELSE o.ctype,
     pay   |-> IF "pay" \in resets THEN NoPay  ELSE o.pay,
     ver   |-> IF "ver" \in resets THEN 0      ELSE o.ver,
     cver  |-> IF "cver" \in resets THEN ""     ELSE o.cver,
     ack   |-> IF "ack" \in resets THEN 0      ELSE o.ack]

(* CheckCredential(remotePeerId, cred) of noVerifyChecker / peerSignVerifier, *)
(* evaluated on the (merged) object.  code = handshakeproto.Error            *)
CkErr(c) == [ok |-> FALSE, code |-> c, id |-> "-"]
PeerKey(pid) == [NoPay EXCEPT !.k = "peer", !.a = pid]
\* what the (deviating) checker remembers after accepting payload pay from remote peer rp
CacheKey(pay, rp) == IF cmode = "peer" THEN PeerKey(rp) ELSE pay
Check(e, o) ==
    LET c == Cfg(e)  rp == Cfg(Peer(e)).pid IN
    IF o.ver \notin c.acc THEN CkErr(6)                        \* IncompatibleVersion
    ELSE IF c.mode = "skip" THEN
        (IF Banned(o.cver) THEN CkErr(6) ELSE [ok |-> TRUE, code |-> 0, id |-> "-"])
    ELSE IF o.ctype # "signed" THEN CkErr(4)                   \* SkipVerifyNotAllowed
    ELSE IF o.pay.k = "unparse" THEN CkErr(3)                  \* UnexpectedPayload
    ELSE IF o.pay.k # "sig" THEN CkErr(2)                      \* no / malformed identity key
    ELSE IF ~(o.pay.a = rp /\ o.pay.b = c.pid)                 \* signature over other bytes ...
            /\ ~(cmode # "none" /\ [c |-> c, p |-> CacheKey(o.pay, rp)] \in verified)   \* (Dev: remembered)
         THEN CkErr(2)
    ELSE IF Banned(o.cver) THEN CkErr(6)
    ELSE [ok |-> TRUE, code |-> 0, id |-> o.pay.id]

He(c) == "he" \o ToString(c)                 \* HandshakeError{e: c}
AckVerdict(c) == IF c = 2 THEN "declined" ELSE He(c)   \* ErrPeerDeclinedCredentials

ReadPcs == {"rcred", "rmsg", "rack"}
WritePcs == {"wcred", "wack", "ewack"}
Allowed(p) == CASE p = "rcred" -> {"cred"} [] p = "rmsg" -> {"ack", "cred"} [] p = "rack" -> {"ack"}
              [] OTHER -> {}

NoRes == [id |-> "-", ver |-> 0, cver |-> ""]
InitSt == [pc |-> "idle", obj |-> ZeroObj, got |-> 0, closed |-> FALSE, stalled |-> FALSE,
           verdict |-> "none", res |-> NoRes, wire |-> NoFrame, taint |-> FALSE,
           errc |-> 0, werr |-> "none"]

\* the configuration of a session is fixed when its connection is opened
NoSide == [ver |-> 0, acc |-> {}, mode |-> "none", cver |-> "", pid |-> "-", id |-> "-"]
NoDesc == [o |-> NoSide, i |-> NoSide]
Opened(s) == sess[s].o.mode # "none"

Log(r) == hist' = IF RecordHist THEN Append(hist, r) ELSE hist

Init ==
    /\ sess = [s \in Sessions |-> NoDesc]
    /\ st = [e \in Ends |-> InitSt]
    /\ chan = [e \in Ends |-> <<>>]
    /\ killed = [s \in Sessions |-> FALSE]
    /\ pooled = EmptyBag
    /\ resets \in ResetChoices
    /\ recorded = {} /\ verified = {} /\ cmode \in CacheChoices /\ ackc \in AckCodeChoices
    /\ tpd = [e \in Ends |-> FALSE] /\ sfaults = [s \in Sessions |-> 0]
    /\ nf = 0
    /\ tampered = [s \in Sessions |-> FALSE]
    /\ hist = <<>>

(* ------------------------------ helpers -------------------------------- *)
AliveW(e) == ~st[e].closed /\ ~killed[e[1]]
MayStart(s) == Opened(s) /\ (Concurrent \/ \A e \in Ends : e[1] < s => st[e].pc = "done")

\* the worker returns v; close = it closed its endpoint on the way out; release() runs
FinishSt(e, v, close) ==
    [st EXCEPT ![e] = [@ EXCEPT !.pc = "done", !.verdict = v, !.closed = @ \/ close,
                                !.obj = ZeroObj, !.got = 0]]
Released(e, o) == pooled' = pooled (+) SetToBag({Rel(o)})

\* x has taken its decision: it will not read from the connection any more
Decided(x) == st[x].pc \in {"done", "ewack"} \/ (x[2] = "I" /\ st[x].pc = "wack")
\* the peer of e no longer depends on e: it has decided, or e is the initiator waiting for the last ack
\* (its own ack, on which the responder decides, is already on the wire)
PeerIndependent(e) == Decided(Peer(e)) \/ (e[2] = "O" /\ st[e].pc = "rack")

(* ------------------------------ worker actions ------------------------- *)
\* a connection is established: both ends know the peer ids (TLS), each end has its configuration
Open(s) ==
    /\ ~Opened(s) /\ \A s2 \in Sessions : s2 < s => Opened(s2)
    /\ \E d \in SessionSpace[s] : sess' = [sess EXCEPT ![s] = d]
    /\ UNCHANGED <<st, chan, killed, pooled, nf, tampered, hist, resets, recorded, verified, cmode, ackc, tpd, sfaults>>

\* newHandshake(): handshakePool.Get() finds nothing usable -> New()
StartPc(e) == IF e[2] = "O" THEN "wcred" ELSE "rcred"
AcquireFresh(e) ==
    /\ st[e].pc = "idle" /\ MayStart(e[1])
    /\ st' = [st EXCEPT ![e] = [@ EXCEPT !.pc = StartPc(e), !.obj = ZeroObj]]
    /\ Log([a |-> "Acquire", s |-> e[1], side |-> e[2], fresh |-> TRUE, o |-> ZeroObj])
    /\ UNCHANGED <<sess, chan, killed, pooled, nf, tampered, resets, recorded, verified, cmode, ackc, tpd, sfaults>>

\* newHandshake(): handshakePool.Get() returns any object that was put back
AcquirePooled(e) ==
    /\ st[e].pc = "idle" /\ MayStart(e[1])
    /\ \E o \in BagToSet(pooled) :
         /\ pooled' = pooled (-) SetToBag({o})
         /\ st' = [st EXCEPT ![e] = [@ EXCEPT !.pc = StartPc(e), !.obj = o]]
         /\ Log([a |-> "Acquire", s |-> e[1], side |-> e[2], fresh |-> FALSE, o |-> o])
    /\ UNCHANGED <<sess, chan, killed, nf, tampered, resets, recorded, verified, cmode, ackc, tpd, sfaults>>

WFrame(e) == CASE st[e].pc = "wcred" -> MakeCred(e)
               [] st[e].pc = "wack"  -> Ack(0)
               [] st[e].pc = "ewack" -> Ack(st[e].errc)

\* a Write on a live connection: the whole frame enters the channel
WriteOk(e) ==
    /\ st[e].pc \in WritePcs /\ AliveW(e)
    /\ chan' = [chan EXCEPT ![Peer(e)] = Append(@, WFrame(e))]
    /\ CASE st[e].pc = "wcred" ->
              /\ st' = [st EXCEPT ![e].pc = IF e[2] = "O" THEN "rmsg" ELSE "rack"]
              /\ pooled' = pooled
         [] st[e].pc = "wack" /\ e[2] = "O" ->
              /\ st' = [st EXCEPT ![e].pc = "rack"]
              /\ pooled' = pooled
         [] st[e].pc = "wack" /\ e[2] = "I" ->           \* responder: last ack written = success
              /\ st' = FinishSt(e, "ok", FALSE)
              /\ Released(e, st[e].obj)
         [] st[e].pc = "ewack" ->                         \* tryWriteErrAndClose: ack + Close
              /\ st' = FinishSt(e, st[e].werr, TRUE)
              /\ Released(e, st[e].obj)
    /\ recorded' = IF st[e].pc = "wcred" THEN recorded \cup {WFrame(e)} ELSE recorded
    /\ Log([a |-> "Write", s |-> e[1], side |-> e[2], f |-> WFrame(e), ok |-> TRUE])
    /\ UNCHANGED <<sess, killed, nf, tampered, resets, verified, cmode, ackc, tpd, sfaults>>

\* a Write on a dead connection fails; so does the error ack; Close; release
WriteFail(e) ==
    /\ st[e].pc \in WritePcs /\ ~AliveW(e)
    /\ st' = FinishSt(e, IF st[e].pc = "ewack" THEN st[e].werr ELSE "io", TRUE)
    /\ Released(e, st[e].obj)
    /\ Log([a |-> "Write", s |-> e[1], side |-> e[2], f |-> WFrame(e), ok |-> FALSE])
    /\ UNCHANGED <<sess, chan, killed, nf, tampered, resets, recorded, verified, cmode, ackc, tpd, sfaults>>

CanRecv(e) == /\ st[e].pc \in ReadPcs /\ chan[e] # <<>>
              /\ ~st[e].stalled /\ ~killed[e[1]] /\ ~st[e].closed

HdrOk(e, f) == f.t \in Allowed(st[e].pc) /\ f.sz # "over"
Malformed(e, f) == ~HdrOk(e, f) \/ f.sz = "bad"

\* delivery points still ahead for the head frame
Points(e, f) == IF HdrOk(e, f) /\ ~EmptyPayload(f)
                THEN {q \in (ChunkPts \cup {4}) : q > st[e].got}
                ELSE {q \in ((ChunkPts \cap {1}) \cup {2}) : q > st[e].got}

\* protocol error on a live connection: the error ack is the next (blocking) conn call
ToErrAck(e, o, c, v, fr, tnt) ==
    /\ st' = [st EXCEPT ![e] = [@ EXCEPT !.pc = "ewack", !.errc = c, !.werr = v, !.obj = o,
                                          !.got = 0, !.wire = fr, !.taint = tnt]]
    /\ pooled' = pooled

\* a complete, well-typed frame f has been read into the object
Process(e, f) ==
    LET s0 == st[e]
        tnt == s0.taint \/ Malformed(e, f) IN
    IF f.sz = "bad" THEN                                   \* UnmarshalVT error -> ack Unexpected
        ToErrAck(e, s0.obj, ackc.bad, "unmarshal", s0.wire, tnt)
    ELSE IF f.t = "cred" THEN
        LET o == MergeCred(s0.obj, f)
            ck == Check(e, o) IN
        IF ck.ok THEN
            /\ st' = [st EXCEPT ![e] = [@ EXCEPT !.pc = IF e[2] = "O" THEN "wack" ELSE "wcred",
                                                  !.obj = o, !.got = 0, !.wire = f, !.taint = tnt,
                                                  !.res = [id |-> ck.id, ver |-> o.ver, cver |-> o.cver]]]
            /\ pooled' = pooled
        ELSE IF ck.code = 3 THEN                           \* ErrUnexpectedPayload: close, no ack
            /\ st' = [FinishSt(e, He(3), TRUE) EXCEPT ![e].wire = f, ![e].taint = tnt]
            /\ Released(e, o)
        ELSE ToErrAck(e, o, ck.code, He(ck.code), f, tnt)
    ELSE \* ack
        LET o == MergeAck(s0.obj, f) IN
        IF s0.pc = "rmsg" THEN                             \* initiator got an ack instead of credentials
            /\ st' = [FinishSt(e, AckVerdict(o.ack), FALSE) EXCEPT ![e].taint = tnt]
            /\ Released(e, o)
        ELSE IF o.ack = 0 THEN
            IF e[2] = "O" THEN
                /\ st' = [FinishSt(e, "ok", FALSE) EXCEPT ![e].taint = tnt]
                /\ Released(e, o)
            ELSE
                /\ st' = [st EXCEPT ![e] = [@ EXCEPT !.pc = "wack", !.obj = o, !.got = 0, !.taint = tnt]]
                /\ pooled' = pooled
        ELSE IF e[2] = "O" THEN                            \* final ack carries an error: Close
            /\ st' = [FinishSt(e, He(o.ack), TRUE) EXCEPT ![e].taint = tnt]
            /\ Released(e, o)
        ELSE                                               \* responder: returns without Close
            /\ st' = [FinishSt(e, AckVerdict(o.ack), FALSE) EXCEPT ![e].taint = tnt]
            /\ Released(e, o)

\* the reader consumes the head frame up to delivery point q (readMsg)
Recv(e, q) ==
    /\ CanRecv(e)
    /\ LET f == Head(chan[e]) IN
       /\ q \in Points(e, f)
       /\ IF q = 1 \/ (st[e].got >= 2 /\ q = 3) \/ (st[e].got < 2 /\ q \in {2, 3} /\ HdrOk(e, f) /\ ~EmptyPayload(f))
          THEN \* still inside the frame
               /\ st' = [st EXCEPT ![e] = [@ EXCEPT !.got = q, !.taint = @ \/ (q >= 2 /\ Malformed(e, f))]]
               /\ chan' = chan /\ pooled' = pooled
          ELSE \* header complete (and possibly the payload)
               /\ chan' = [chan EXCEPT ![e] = Tail(@)]
               /\ IF f.t \notin Allowed(st[e].pc) THEN        \* ErrUnexpectedPayload: Close only
                      /\ st' = [FinishSt(e, He(3), TRUE) EXCEPT ![e].taint = TRUE]
                      /\ Released(e, st[e].obj)
                  ELSE IF f.sz = "over" THEN                  \* ErrGotUnexpectedMessage -> ack Unexpected
                      ToErrAck(e, st[e].obj, ackc.over, "notHandshake", st[e].wire, TRUE)
                  ELSE Process(e, f)
       /\ Log([a |-> "Recv", s |-> e[1], side |-> e[2], q |-> q, f |-> f])
    \* the checker remembers a signature payload it accepted (only in the deviating model)
    /\ verified' = IF /\ cmode # "none" /\ Cfg(e).mode = "verify"
                      /\ st[e].pc \in {"rcred", "rmsg"} /\ st'[e].pc \in {"wcred", "wack"}
                   THEN verified \cup {[c |-> Cfg(e), p |-> CacheKey(st'[e].obj.pay, Cfg(Peer(e)).pid)]}
                   ELSE verified
    \* remember whether the peer had already finished when this end first consumed a malformed frame
    /\ tpd' = [tpd EXCEPT ![e] = IF ~st[e].taint /\ st'[e].taint THEN PeerIndependent(e) ELSE @]
    /\ UNCHANGED <<sess, killed, nf, tampered, resets, recorded, cmode, ackc, sfaults>>

\* Read on a dead connection: EOF / closed -> error ack fails too -> Close, release
ReadDeadCond(e) ==
    /\ st[e].pc \in ReadPcs /\ ~st[e].closed
    /\ \/ killed[e[1]]
       \/ st[Peer(e)].closed /\ (chan[e] = <<>> \/ st[e].stalled)
ReadDead(e) ==
    /\ ReadDeadCond(e)
    /\ st' = FinishSt(e, "io", TRUE)
    /\ Released(e, st[e].obj)
    /\ Log([a |-> "ReadDead", s |-> e[1], side |-> e[2]])
    /\ UNCHANGED <<sess, chan, killed, nf, tampered, resets, recorded, verified, cmode, ackc, tpd, sfaults>>

CanStep(e) == \/ st[e].pc = "idle" /\ MayStart(e[1])
              \/ st[e].pc \in WritePcs
              \/ CanRecv(e)
              \/ ReadDeadCond(e)
Stuck(s) == \A e \in Ends : e[1] = s => ~CanStep(e)

\* the context deadline: the caller closes the connection and returns ctx.Err(); the worker
\* unwinds on the dead connection and releases the object.  Only needed when nothing else moves.
Deadline(e) ==
    /\ st[e].pc \in ReadPcs /\ Stuck(e[1])
    /\ st' = FinishSt(e, "ctx", TRUE)
    /\ Released(e, st[e].obj)
    /\ Log([a |-> "Deadline", s |-> e[1], side |-> e[2]])
    /\ UNCHANGED <<sess, chan, killed, nf, tampered, resets, recorded, verified, cmode, ackc, tpd, sfaults>>

(* ------------------------------ adversary / faults --------------------- *)
Tag(f, t) == [f EXCEPT !.tag = t]

\* frames the adversary may put in place of the head frame f travelling to e
Replacements(e, f) ==
    LET me == Cfg(e)  pr == Cfg(Peer(e)) IN
    \* garbage type, oversize length, unparsable payload
    {Tag([f EXCEPT !.t = "junk"], "corrupt"), Tag([f EXCEPT !.sz = "over"], "corrupt"),
     Tag([f EXCEPT !.sz = "bad"], "corrupt"), Tag(Other("proto"), "corrupt")}
    \cup \* out of order: an ack where credentials travel, credentials where an ack travels
    (IF f.t = "cred" THEN {Tag(Ack(0), "corrupt"), Tag(Ack(2), "corrupt")}
     ELSE {Tag(MakeCred(Peer(e)), "corrupt")})
    \cup \* an ack with the opposite meaning
    (IF f.t = "ack" THEN {Tag(Ack(IF f.err = 0 THEN 6 ELSE 0), "forge")} ELSE {})
    \cup \* credentials recorded elsewhere: other verifier, other claimant, reflected, garbled signature;
         \* the payload of a foreign type; an identity key that does not parse
    (IF f.t = "cred" THEN
        {Tag([f EXCEPT !.ctype = "signed", !.pay = p], "replay") :
            p \in {Sig(pr.id, pr.pid, "pZ"), Sig("iZ", "pZ", me.pid), Sig(me.id, me.pid, pr.pid),
                   Sig(pr.id, "garbled", me.pid),
                   [NoPay EXCEPT !.k = "unparse"], [NoPay EXCEPT !.k = "badkey"]}}
     ELSE {})
    \cup \* a credentials frame observed earlier on ANY connection (also of this verifier), replayed as it was
    (IF f.t = "cred" THEN {Tag(r, "recorded") : r \in recorded \ {f}} ELSE {})
    \cup \* fields removed from the wire (zero values are not transmitted)
    (IF f.t = "cred" THEN
        {Tag([f EXCEPT !.ver = 0], "strip"), Tag([f EXCEPT !.cver = ""], "strip"),
         Tag([f EXCEPT !.pay = NoPay], "strip"), Tag([f EXCEPT !.ctype = "skip"], "strip"),
         Tag(Cred("skip", NoPay, 0, ""), "strip")} \ {Tag(f, "strip")}
     ELSE {})

Adv_Replace(e) ==
    /\ "replace" \in FaultKinds /\ nf < MaxFaults
    /\ chan[e] # <<>> /\ st[e].got = 0 /\ ~st[e].stalled /\ st[e].pc # "done"
    /\ Head(chan[e]).tag = "honest"
    /\ \E f2 \in {r \in Replacements(e, Head(chan[e])) : r.tag \in TamperTags} :
         /\ chan' = [chan EXCEPT ![e] = <<f2>> \o Tail(@)]
         /\ Log([a |-> "Replace", s |-> e[1], side |-> e[2], f |-> f2])
    /\ nf' = nf + 1 /\ tampered' = [tampered EXCEPT ![e[1]] = TRUE]
    /\ sfaults' = [sfaults EXCEPT ![e[1]] = @ + 1]
    /\ UNCHANGED <<sess, st, killed, pooled, resets, recorded, verified, cmode, ackc, tpd>>

\* an unsolicited frame while the reader waits and nothing is in flight
Injections(e) ==
    {Tag(Other("junk"), "corrupt"), Tag(Other("proto"), "corrupt"),
     Tag(Ack(0), "forge"), Tag(Ack(2), "forge"), Tag(MakeCred(Peer(e)), "forge"),
     Tag([Ack(0) EXCEPT !.sz = "over"], "corrupt")}
Adv_Inject(e) ==
    /\ "inject" \in FaultKinds /\ nf < MaxFaults
    /\ st[e].pc \in ReadPcs /\ chan[e] = <<>> /\ st[e].got = 0 /\ ~killed[e[1]]
    /\ \E f2 \in Injections(e) :
         /\ chan' = [chan EXCEPT ![e] = <<f2>>]
         /\ Log([a |-> "Inject", s |-> e[1], side |-> e[2], f |-> f2])
    /\ nf' = nf + 1 /\ tampered' = [tampered EXCEPT ![e[1]] = TRUE]
    /\ sfaults' = [sfaults EXCEPT ![e[1]] = @ + 1]
    /\ UNCHANGED <<sess, st, killed, pooled, resets, recorded, verified, cmode, ackc, tpd>>

\* truncation: the rest of the frame in flight (beyond what e consumed) never arrives; the reader
\* has consumed a truncated frame iff it already consumed a part of it
Adv_Stall(e) ==
    /\ "stall" \in FaultKinds /\ nf < MaxFaults
    /\ chan[e] # <<>> /\ ~st[e].stalled /\ st[e].pc # "done" /\ ~killed[e[1]]
    /\ st' = [st EXCEPT ![e] = [@ EXCEPT !.stalled = TRUE, !.taint = @ \/ st[e].got > 0]]
    /\ nf' = nf + 1
    /\ Log([a |-> "Stall", s |-> e[1], side |-> e[2], got |-> st[e].got])
    /\ sfaults' = [sfaults EXCEPT ![e[1]] = @ + 1]
    /\ tpd' = [tpd EXCEPT ![e] = IF ~st[e].taint /\ st[e].got > 0 THEN PeerIndependent(e) ELSE @]
    /\ UNCHANGED <<sess, chan, killed, pooled, tampered, resets, recorded, verified, cmode, ackc>>

\* the transport is cut: nothing in flight is delivered any more
Adv_Kill(s) ==
    /\ "kill" \in FaultKinds /\ nf < MaxFaults
    /\ ~killed[s] /\ \E e \in Ends : e[1] = s /\ st[e].pc \notin {"idle", "done"}
    /\ killed' = [killed EXCEPT ![s] = TRUE]
    /\ nf' = nf + 1
    /\ Log([a |-> "Kill", s |-> s, side |-> "-"])
    /\ sfaults' = [sfaults EXCEPT ![s] = @ + 1]
    /\ UNCHANGED <<sess, st, chan, pooled, tampered, resets, recorded, verified, cmode, ackc, tpd>>

\* context cancelled at a frame boundary (or inside a frame): like Deadline, at any time
Adv_Cancel(e) ==
    /\ "cancel" \in FaultKinds /\ nf < MaxFaults
    /\ st[e].pc \notin {"idle", "done"}
    /\ st' = FinishSt(e, "ctx", TRUE)
    /\ Released(e, st[e].obj)
    /\ nf' = nf + 1
    /\ Log([a |-> "Cancel", s |-> e[1], side |-> e[2]])
    /\ sfaults' = [sfaults EXCEPT ![e[1]] = @ + 1]
    /\ UNCHANGED <<sess, chan, killed, tampered, resets, recorded, verified, cmode, ackc, tpd>>

SysNext == \/ \E s \in Sessions : Open(s)
           \/ \E e \in Ends : \/ AcquireFresh(e) \/ AcquirePooled(e) \/ WriteOk(e) \/ WriteFail(e)
                              \/ (\E q \in 1..4 : Recv(e, q)) \/ ReadDead(e) \/ Deadline(e)
AdvNext == \/ \E e \in Ends : Adv_Replace(e) \/ Adv_Inject(e) \/ Adv_Stall(e) \/ Adv_Cancel(e)
           \/ \E s \in Sessions : Adv_Kill(s)
Next == SysNext \/ AdvNext

Spec == Init /\ [][Next]_vars /\ WF_vars(SysNext)

(* ------------------------------ properties ----------------------------- *)
AllDone == \A e \in Ends : st[e].pc = "done"
Ok(e) == st[e].verdict = "ok"

TypeOK ==
    /\ \A e \in Ends : st[e].pc \in {"idle", "done"} \cup ReadPcs \cup WritePcs
    /\ \A e \in Ends : Len(chan[e]) <= 3
    /\ nf \in 0..MaxFaults

\* no fault: both ends reach the same verdict
Agreement ==
    \A s \in Sessions :
        (nf = 0 /\ st[<<s, "O">>].pc = "done" /\ st[<<s, "I">>].pc = "done")
            => (Ok(<<s, "O">>) <=> Ok(<<s, "I">>))

\* success => the credentials this end consumed from the wire justify it, and the values
\* handed to the caller (-> context) are those of the wire
SuccessSoundAt(e) ==
    Ok(e) =>
      LET w == st[e].wire  c == Cfg(e)  r == st[e].res IN
      /\ w.t = "cred"
      /\ w.ver \in c.acc /\ r.ver = w.ver
      /\ ~Banned(w.cver) /\ r.cver = w.cver
      /\ c.mode = "verify" => /\ w.ctype = "signed" /\ w.pay.k = "sig"
                              /\ w.pay.a = Cfg(Peer(e)).pid /\ w.pay.b = c.pid
                              /\ r.id = w.pay.id
      /\ c.mode = "skip" => r.id = "-"
SuccessSound == \A e \in Ends : SuccessSoundAt(e)

\* success on an untampered connection => each version is in the other's accepted list,
\* and a verifying end attached the peer's own identity
MutualGating ==
    \A e \in Ends : (Ok(e) /\ ~tampered[e[1]]) =>
        /\ Cfg(Peer(e)).ver \in Cfg(e).acc /\ Cfg(e).ver \in Cfg(Peer(e)).acc
        /\ Cfg(e).mode = "verify" => st[e].res.id = Cfg(Peer(e)).id

\* credentials signed for other endpoints never satisfy a verifying end
ReplayRejected ==
    \A e \in Ends :
        LET w == st[e].wire IN
        (Cfg(e).mode = "verify" /\ w.t = "cred" /\ w.pay.k = "sig"
            /\ ~(w.pay.a = Cfg(Peer(e)).pid /\ w.pay.b = Cfg(e).pid)) => ~Ok(e)

\* an end that consumed a truncated / oversized / out-of-order / garbage frame never succeeds
FaultNeverSuccess == \A e \in Ends : st[e].taint => ~Ok(e)

\* ... and neither does its peer ("an error or deadline on BOTH sides"): the end that hits the malformed frame
\* answers with an error ack or just closes, and its peer is still waiting for a reply - unless the peer no
\* longer depended on it (PeerIndependent: the malformed frame stands for frame 4, the responder's last ack).  Stated for sessions whose only fault is
\* that frame (a second fault could forge the success of the peer).
CorruptionEndsBoth ==
    \A e \in Ends : (st[e].taint /\ ~tpd[e] /\ sfaults[e[1]] = 1) => ~Ok(Peer(e))

\* without faults nobody needs the deadline and nobody sees an I/O error
NoFaultClean == nf = 0 => \A e \in Ends : st[e].verdict \notin {"ctx", "io", "unmarshal", "notHandshake"}

\* without faults compatible, mode-compatible peers do succeed (the spec is not vacuous)
Compatible(e) ==
    LET c == Cfg(e)  p == Cfg(Peer(e)) IN
    /\ p.ver \in c.acc /\ ~Banned(p.cver) /\ (c.mode = "verify" => p.mode = "verify")
Completeness ==
    \A s \in Sessions :
        (nf = 0 /\ st[<<s, "O">>].pc = "done" /\ st[<<s, "I">>].pc = "done"
            /\ Compatible(<<s, "O">>) /\ Compatible(<<s, "I">>)
            /\ resets = AllFields)
          => Ok(<<s, "O">>) /\ Ok(<<s, "I">>)

\* every object is back in the pool at the end, and (repaired release) carries nothing over
PoolAccounting ==
    AllDone => BagCardinality(pooled) <= 2 * Cardinality(Sessions)
PoolClean == resets = AllFields => \A o \in BagToSet(pooled) : o = ZeroObj

\* error or deadline on both sides, never an unbounded wait
Terminates == <>[]AllDone

Inv == /\ TypeOK /\ Agreement /\ SuccessSound /\ MutualGating /\ ReplayRejected
       /\ FaultNeverSuccess /\ CorruptionEndsBoth /\ NoFaultClean /\ Completeness /\ PoolAccounting /\ PoolClean
=============================================================================
