\* what if the long-lived checker kept state across connections (remembered verified payloads, or verified remote peer ids)?  every
\* distinct unsound end state of two consecutive sessions in which a credentials frame observed earlier is
\* replayed, with a history leading there.  Executed on the real code (same checker instance for both
\* sessions), none may reproduce.
INIT Init
NEXT Next
CONSTANTS
  Sessions = {1, 2}
  SessionSpace <- SpacePoolS
  MaxFaults = 1
  FaultKinds = {"replace"}
  ChunkPts = {}
  ResetChoices <- RepairedOnly
  TamperTags <- Replays
  CacheChoices = {"payload", "peer"}
  AckCodeChoices <- CodeAcks
  Concurrent = FALSE
  RecordHist = TRUE
INVARIANT EmitUnsound
VIEW view
CHECK_DEADLOCK FALSE
