SPECIFICATION TraceSpec
CONSTANTS
  Sessions = {1, 2, 3}
  SessionSpace <- NoSpace
  MaxFaults = 2
  FaultKinds <- AllKinds
  ChunkPts = {1, 2, 3}
  ResetChoices <- RepairedOnly
  TamperTags <- AllTags
  CacheChoices = {"none"}
  AckCodeChoices <- CodeAcks
  Concurrent = TRUE
  RecordHist = FALSE
INVARIANTS Agreement SuccessSound MutualGating ReplayRejected FaultNeverSuccess CorruptionEndsBoth
CONSTRAINT Mark
POSTCONDITION TraceAccepted
CHECK_DEADLOCK FALSE
