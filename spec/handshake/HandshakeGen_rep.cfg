\* exhaustive: every replaced / injected frame (replayed, stripped, forged, malformed) against
\* compatible peers in every combination of verification modes
INIT Init
NEXT Next
CONSTANTS
  Sessions = {1}
  SessionSpace <- SpaceRep
  MaxFaults = 1
  FaultKinds = {"replace", "inject"}
  ChunkPts = {}
  ResetChoices <- RepairedOnly
  TamperTags <- AllTags
  CacheChoices = {"none"}
  AckCodeChoices <- CodeAcks
  Concurrent = FALSE
  RecordHist = TRUE
INVARIANT Emit
CHECK_DEADLOCK FALSE
