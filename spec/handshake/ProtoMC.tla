------------------------------- MODULE ProtoMC -------------------------------
(* Model-checking instances and behaviour generation for ProtoHandshake.       *)
EXTENDS ProtoHandshake, VerifEmit, SequencesExt
ASSUME EmitReset

Offers == {<<>>, <<1>>, <<0>>, <<1, 0>>, <<0, 1>>}
Outs == {[pt |-> 0, encs |-> q] : q \in Offers}
Ins == {[allowed |-> a, first |-> CHOOSE x \in a : \A y \in a : x <= y, supported |-> sup] :
            a \in {{0}, {1}, {0, 1}}, sup \in {{}, {0}, {1}, {0, 1}}}
SpaceAll == [s \in Sessions |-> {[o |-> x, i |-> y] : x \in Outs, y \in Ins}]
\* two connections: whatever the first one negotiated must not influence the second
InsS == {[allowed |-> {0}, first |-> 0, supported |-> sup] : sup \in {{}, {1}, {0, 1}}}
SpaceS == [s \in Sessions |-> {[o |-> x, i |-> y] : x \in Outs, y \in InsS}]

Repaired == {AllFields}
OneMissing == {AllFields \ {f} : f \in AllFields}
AllKinds == {"replace", "stall", "kill", "cancel"}

EndSeq == SetToSeq(Ends)
PoolSeq == SetToSeq(BagToSet(pooled))
SideOut(x) == [pt |-> x.pt, encs |-> x.encs]
Behaviour ==
    [kind |-> "proto", resets |-> resets, steps |-> hist,
     psess |-> [s \in Sessions |-> [o |-> sess[s].o, i |-> sess[s].i]],
     pends |-> [k \in 1..Len(EndSeq) |->
                 [s |-> EndSeq[k][1], side |-> EndSeq[k][2],
                  verdict |-> st[EndSeq[k]].verdict, res |-> st[EndSeq[k]].res]],
     ppooled |-> [k \in 1..Len(PoolSeq) |-> [o |-> PoolSeq[k], n |-> pooled[PoolSeq[k]]]]]
Emit == EmitWhen(AllDone, Behaviour)
EmitUnsound == EmitWhen(AllDone /\ ~(Agreement /\ ResponderSound /\ InitiatorSound /\ MutualChoice), Behaviour)
=============================================================================
