\* proto negotiation: two overlapping sessions on the shared pool, every configuration, one fault
SPECIFICATION Spec
CONSTANTS
  Sessions = {1, 2}
  SessionSpace <- SpaceS
  MaxFaults = 1
  FaultKinds <- AllKinds
  ResetChoices <- Repaired
  Concurrent = TRUE
  RecordHist = FALSE
INVARIANTS Agreement ResponderSound InitiatorSound MutualChoice FaultNeverSuccess CorruptionEndsBoth PoolClean
VIEW view
CHECK_DEADLOCK FALSE
