\* exhaustive: every behaviour of one session with at most one fault (small configuration space)
INIT Init
NEXT Next
CONSTANTS
  Sessions = {1}
  SessionSpace <- SpaceFaultSmall
  MaxFaults = 1
  FaultKinds <- AllKinds
  ChunkPts = {2}
  ResetChoices <- RepairedOnly
  TamperTags <- AllTags
  CacheChoices = {"none"}
  AckCodeChoices <- CodeAcks
  Concurrent = FALSE
  RecordHist = TRUE
INVARIANT Emit
CHECK_DEADLOCK FALSE
