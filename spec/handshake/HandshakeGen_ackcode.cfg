\* what if an oversized frame / an unparsable payload were answered with ack code 0?  every distinct unsound end
\* state with a history leading there, executed on the real code
INIT Init
NEXT Next
CONSTANTS
  Sessions = {1}
  SessionSpace <- SpaceRep
  MaxFaults = 1
  FaultKinds = {"replace", "inject"}
  ChunkPts = {2}
  ResetChoices <- RepairedOnly
  TamperTags <- CorruptOnly
  CacheChoices = {"none"}
  AckCodeChoices <- NullAcks
  Concurrent = FALSE
  RecordHist = TRUE
INVARIANT EmitUnsound
VIEW view
CHECK_DEADLOCK FALSE
