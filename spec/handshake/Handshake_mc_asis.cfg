\* as mc_pool, but release() as it was before the repair (clears only type/payload/ack):
\* TLC must find the version-gating bypass (MutualGating / SuccessSound violated)
SPECIFICATION Spec
CONSTANTS
  Sessions = {1, 2}
  SessionSpace <- SpacePool
  MaxFaults = 0
  FaultKinds = {}
  ChunkPts = {}
  ResetChoices <- AsIsOnly
  TamperTags <- AllTags
  CacheChoices = {"none"}
  AckCodeChoices <- CodeAcks
  Concurrent = FALSE
  RecordHist = FALSE
INVARIANTS TypeOK Agreement SuccessSound MutualGating ReplayRejected FaultNeverSuccess CorruptionEndsBoth NoFaultClean Completeness PoolAccounting PoolClean
VIEW view
CHECK_DEADLOCK FALSE
