\* (quick: small space)  what if release() forgot one field - or the two it forgot before the repair?  For every such variant of the model: every distinct end state of
\* two consecutive sessions (second one possibly with a field stripped from its credentials) that breaks
\* the property, with a history that leads there.  Executed on the real code, none may reproduce.
INIT Init
NEXT Next
CONSTANTS
  Sessions = {1, 2}
  SessionSpace <- SpaceResidueQ
  MaxFaults = 1
  FaultKinds = {"replace"}
  ChunkPts = {}
  ResetChoices <- ForgetSome
  TamperTags <- StripOnly
  CacheChoices = {"none"}
  AckCodeChoices <- CodeAcks
  Concurrent = FALSE
  RecordHist = TRUE
INVARIANT EmitUnsound
VIEW view
CHECK_DEADLOCK FALSE
