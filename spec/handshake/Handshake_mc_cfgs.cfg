\* every configuration pair, no faults: Agreement, MutualGating, Completeness
SPECIFICATION Spec
CONSTANTS
  Sessions = {1}
  SessionSpace <- SpaceCV
  MaxFaults = 0
  FaultKinds = {}
  ChunkPts = {}
  ResetChoices <- RepairedOnly
  TamperTags <- AllTags
  CacheChoices = {"none"}
  AckCodeChoices <- CodeAcks
  Concurrent = FALSE
  RecordHist = FALSE
INVARIANTS TypeOK Agreement SuccessSound MutualGating ReplayRejected FaultNeverSuccess CorruptionEndsBoth NoFaultClean Completeness PoolAccounting PoolClean
VIEW view
CHECK_DEADLOCK FALSE
