\* two sessions overlapping arbitrarily on the shared pool, every choice of pooled object,
\* second peer with version 0 / no client version / other identity, one tampered frame
SPECIFICATION Spec
CONSTANTS
  Sessions = {1, 2}
  SessionSpace <- SpacePool
  MaxFaults = 1
  FaultKinds = {"replace"}
  ChunkPts = {}
  ResetChoices <- RepairedOnly
  TamperTags <- AllTags
  CacheChoices = {"none"}
  AckCodeChoices <- CodeAcks
  Concurrent = TRUE
  RecordHist = FALSE
INVARIANTS TypeOK Agreement SuccessSound MutualGating ReplayRejected FaultNeverSuccess CorruptionEndsBoth NoFaultClean Completeness PoolAccounting PoolClean
VIEW view
CHECK_DEADLOCK FALSE
