------------------------------ MODULE LdiffAll ------------------------------
(* C07 stated for *every* requester at once.  A repaired requester's index is Fresh(its      *)
(* contents) (invariant Canonical of Ldiff, checked on the same model), so quantifying over  *)
(* all contents covers all requester states against every reachable state of the modelled    *)
(* (remote) peers - without multiplying the state space by the requester's states.           *)
EXTENDS LdiffMC

AllConts == [Ids -> 0..MaxHead]
\* all fresh indexes for every tuning, tabulated once (constant level, evaluated at start-up)
FreshTab == TLCEval([l \in LGs |-> TLCEval([t \in THs |-> TLCEval([c \in AllConts |-> FreshT(c, t, l)])])])

\* every requester tuning x every requester contents, against every reachable remote (tuned on its own)
DiffExactAllRequesters ==
    \A r \in Peers : idx[r].ovf \/ \A l \in LGs, t \in THs : \A c \in AllConts : DiffGood(FreshTab[l][t][c], idx[r])

\* C08 towards the protocol: the advertised top hash identifies the contents - among equally tuned
\* indexes exactly (no two contents share a top-hash term; in particular the "Nil child writes nothing"
\* concatenation creates no collision), and an index tuned differently can only advertise the same
\* hash if it holds the same contents
HashIdentifiesContents ==
    \A p \in Peers \ Legacy : \A c \in AllConts :
        /\ (c = idx[p].cont) <=> (FreshTab[idx[p].lg][idx[p].th][c].hsh[<<>>] = idx[p].hsh[<<>>])
        /\ \A l \in LGs, t \in THs : (FreshTab[l][t][c].hsh[<<>>] = idx[p].hsh[<<>>]) => (c = idx[p].cont)
=============================================================================
