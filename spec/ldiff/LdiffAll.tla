------------------------------ MODULE LdiffAll ------------------------------
(* C07 stated for *every* requester at once.  A repaired requester's index is Fresh(its      *)
(* contents) (invariant Canonical of Ldiff, checked on the same model), so quantifying over  *)
(* all contents covers all requester states against every reachable state of the modelled    *)
(* (remote) peers - without multiplying the state space by the requester's states.           *)
EXTENDS LdiffMC

AllConts == [Ids -> 0..MaxHead]
\* all fresh indexes, tabulated once (constant level, evaluated at start-up)
FreshTab == TLCEval([t \in THs |-> TLCEval([c \in AllConts |-> FreshT(c, t)])])

DiffExactAllRequesters ==
    \A r \in Peers : idx[r].ovf \/ \A c \in AllConts : DiffGood(FreshTab[th][c], idx[r])

\* C08 towards the protocol: the advertised top hash identifies the contents (no two contents share
\* a top-hash term - in particular the "Nil child writes nothing" concatenation creates no collision)
HashIdentifiesContents ==
    \A p \in Peers \ Legacy : \A c \in AllConts :
        (c = idx[p].cont) <=> (FreshTab[th][c].hsh[<<>>] = idx[p].hsh[<<>>])
=============================================================================
