SPECIFICATION GenSpec
CONSTANTS
  DF = 3
  D = 3
  Ids <- Ids3_6
  IdPath <- U3
  THs = {1, 2}
  LGs = {1}
  MaxHead = 2
  Peers <- LR
  Legacy <- OnlyR
  MaxSet = 2
  MaxCnt = 99
  FIX_SET_COUNT = TRUE
  FIX_MERGE_UP = TRUE
  FIX_NIL_HASH = TRUE
  DEV_SAME_COUNT_EQUAL = FALSE
  GenDepth = 12
  GenMany = 2
  GenPick = 1
INVARIANT Emit
CHECK_DEADLOCK FALSE
