SPECIFICATION PairSpec
CONSTANTS
  DF = 3
  D = 3
  Ids <- Ids3_3
  IdPath <- U3
  THs = {1, 2}
  LGs = {1}
  MaxHead = 2
  Peers <- LR
  Legacy <- NoPeer
  MaxSet = 1
  MaxCnt = 99
  FIX_SET_COUNT = TRUE
  FIX_MERGE_UP = TRUE
  FIX_NIL_HASH = TRUE
  DEV_SAME_COUNT_EQUAL = FALSE
  GenDepth = 2
  GenMany = 0
  GenPick = 0
INVARIANT Emit
CHECK_DEADLOCK FALSE
