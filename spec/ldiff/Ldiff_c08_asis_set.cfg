SPECIFICATION Spec
CONSTANTS
  DF = 2
  D = 3
  Ids <- Ids2_4
  IdPath <- U2
  THs = {1, 2}
  LGs = {1}
  MaxHead = 2
  Peers <- JustL
  Legacy <- NoPeer
  MaxSet = 2
  MaxCnt = 6
  FIX_SET_COUNT = FALSE
  FIX_MERGE_UP = TRUE
  FIX_NIL_HASH = TRUE
  DEV_SAME_COUNT_EQUAL = FALSE
INVARIANT TypeOK
INVARIANT Canonical
INVARIANT FreshIsFill
INVARIANT HashIdentifiesContents
INVARIANT DepthBound
CONSTRAINT CntBound
CHECK_DEADLOCK FALSE
