SPECIFICATION GenSpec
CONSTANTS
  DF = 2
  D = 3
  Ids <- Ids2_6
  IdPath <- U2
  THs = {1, 2, 3}
  LGs = {1}
  MaxHead = 2
  Peers <- JustL
  Legacy <- NoPeer
  MaxSet = 3
  MaxCnt = 99
  FIX_SET_COUNT = TRUE
  FIX_MERGE_UP = TRUE
  FIX_NIL_HASH = TRUE
  DEV_SAME_COUNT_EQUAL = FALSE
  GenDepth = 12
  GenMany = 4
  GenPick = 1
INVARIANT Emit
CHECK_DEADLOCK FALSE
