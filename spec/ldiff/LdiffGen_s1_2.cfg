SPECIFICATION GenSpec
CONSTANTS
  DF = 2
  D = 3
  Ids <- Ids2_6
  IdPath <- U2
  THs = {1, 2, 3}
  MaxHead = 2
  Peers <- JustL
  Legacy <- NoPeer
  MaxSet = 3
  MaxCnt = 99
  FIX_SET_COUNT = TRUE
  FIX_MERGE_UP = TRUE
  FIX_NIL_HASH = TRUE
  GenDepth = 12
  GenMany = 4
  GenPick = 1
INVARIANT Emit
CHECK_DEADLOCK FALSE
