SPECIFICATION TraceSpec
CONSTANTS
  DF = 3
  D = 3
  Ids <- Ids3_6
  IdPath <- U3
  THs = {1, 2, 3}
  LGs = {1}
  MaxHead = 2
  Peers <- LR
  Legacy <- OnlyR
  MaxSet = 3
  MaxCnt = 99
  FIX_SET_COUNT = TRUE
  FIX_MERGE_UP = TRUE
  FIX_NIL_HASH = TRUE
  DEV_SAME_COUNT_EQUAL = FALSE
INVARIANT ObsCanonical
INVARIANT ObsDiffExact
INVARIANT InSync
CONSTRAINT Mark
POSTCONDITION TraceAccepted
CHECK_DEADLOCK FALSE
