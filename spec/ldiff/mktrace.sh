#!/bin/sh
mkt() { # name DF D Ids IdPath Legacy
cat > $1 <<EOF
SPECIFICATION TraceSpec
CONSTANTS
  DF = $2
  D = $3
  Ids <- $4
  IdPath <- $5
  THs = {1, 2, 3}
  LGs = $LG
  MaxHead = 2
  Peers <- LR
  Legacy <- $6
  MaxSet = 3
  MaxCnt = 99
  FIX_SET_COUNT = TRUE
  FIX_MERGE_UP = TRUE
  FIX_NIL_HASH = TRUE
  DEV_SAME_COUNT_EQUAL = FALSE
INVARIANT ObsCanonical
INVARIANT ObsDiffExact
INVARIANT InSync
CONSTRAINT Mark
POSTCONDITION TraceAccepted
CHECK_DEADLOCK FALSE
EOF
}
LG="{1}"
mkt LdiffTrace_u2_cur.cfg 2 3 Ids2_6 U2 NoPeer
mkt LdiffTrace_u2_leg.cfg 2 3 Ids2_6 U2 OnlyR
mkt LdiffTrace_u3_cur.cfg 3 3 Ids3_6 U3 NoPeer
mkt LdiffTrace_u3_leg.cfg 3 3 Ids3_6 U3 OnlyR
LG="{1, 2}"
mkt LdiffTrace_u4_cur.cfg 2 4 Ids4_5 U4 NoPeer
mkt LdiffTrace_u4_leg.cfg 2 4 Ids4_5 U4 OnlyR
