#!/bin/sh
# generation configs (run inside spec/ldiff)
mkg() { # name DF D Ids IdPath THs Peers Legacy MaxSet GenDepth GenMany GenPick
cat > $1 <<EOF
SPECIFICATION GenSpec
CONSTANTS
  DF = $2
  D = $3
  Ids <- $4
  IdPath <- $5
  THs = $6
  LGs = $LG
  MaxHead = 2
  Peers <- $7
  Legacy <- $8
  MaxSet = $9
  MaxCnt = 99
  FIX_SET_COUNT = TRUE
  FIX_MERGE_UP = TRUE
  FIX_NIL_HASH = TRUE
  DEV_SAME_COUNT_EQUAL = FALSE
  GenDepth = ${10}
  GenMany = ${11}
  GenPick = ${12}
INVARIANT Emit
CHECK_DEADLOCK FALSE
EOF
}
LG="{1}"
# exhaustive (every history of the given length), single peer, no multi-element Set
mkg LdiffGen_x1.cfg 2 3 Ids2_3 U2 "{1, 2}" JustL NoPeer 1 3 0 0
mkg LdiffGen_x1t.cfg 2 3 Ids2_3 U2 "{1, 2}" JustL NoPeer 1 4 0 0
# simulated histories, single peer, with multi-element Set (C08)
mkg LdiffGen_s1_2.cfg 2 3 Ids2_6 U2 "{1, 2, 3}" JustL NoPeer 3 12 4 1
mkg LdiffGen_s1_3.cfg 3 3 Ids3_6 U3 "{1, 2, 3}" JustL NoPeer 3 12 4 1
mkg LdiffGen_s1_4.cfg 2 4 Ids4_5 U4 "{1, 2}" JustL NoPeer 3 12 4 1
# simulated histories of two peers with the diff after every step (C07)
mkg LdiffGen_s2_2.cfg 2 3 Ids2_6 U2 "{1, 2, 3}" LR NoPeer 2 10 2 1
mkg LdiffGen_s2_3.cfg 3 3 Ids3_6 U3 "{1, 2, 3}" LR NoPeer 2 10 2 1
mkg LdiffGen_s2_4.cfg 2 4 Ids4_5 U4 "{1, 2}" LR NoPeer 2 10 2 1
# the same against a legacy remote
mkg LdiffGen_l2_2.cfg 2 3 Ids2_6 U2 "{1, 2, 3}" LR OnlyR 2 12 2 1
mkg LdiffGen_l2_3.cfg 3 3 Ids3_6 U3 "{1, 2}" LR OnlyR 2 12 2 1
# every pair of contents, both sides freshly filled (C07)
mkg LdiffGen_p2.cfg 2 3 Ids2_3c U2 "{1, 2}" LR NoPeer 1 2 0 0
mkg LdiffGen_p2t.cfg 2 3 Ids2_4 U2 "{1, 2}" LR NoPeer 1 2 0 0
mkg LdiffGen_p3t.cfg 3 3 Ids3_3 U3 "{1, 2}" LR NoPeer 1 2 0 0
# independently tuned peers with different divide factors (DF^1 / DF^2), depth 4
LG="{1, 2}"
mkg LdiffGen_p4m.cfg 2 4 Ids4_3 U4 "{1, 2}" LR NoPeer 1 2 0 0
mkg LdiffGen_s1_4m.cfg 2 4 Ids4_5 U4 "{1, 2}" JustL NoPeer 3 12 4 1
mkg LdiffGen_s2_4m.cfg 2 4 Ids4_5 U4 "{1, 2}" LR NoPeer 2 10 2 1
mkg LdiffGen_l2_4m.cfg 2 4 Ids4_5 U4 "{1, 2}" LR OnlyR 2 12 2 1
LG="{1}"
sed -i 's/^SPECIFICATION GenSpec/SPECIFICATION PairSpec/' LdiffGen_p2.cfg LdiffGen_p2t.cfg LdiffGen_p3t.cfg LdiffGen_p4m.cfg
