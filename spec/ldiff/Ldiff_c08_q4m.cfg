SPECIFICATION Spec
CONSTANTS
  DF = 2
  D = 4
  Ids <- Ids4_4
  IdPath <- U4
  THs = {1, 2}
  LGs = {1, 2}
  MaxHead = 2
  Peers <- JustL
  Legacy <- NoPeer
  MaxSet = 2
  MaxCnt = 99
  FIX_SET_COUNT = TRUE
  FIX_MERGE_UP = TRUE
  FIX_NIL_HASH = TRUE
  DEV_SAME_COUNT_EQUAL = FALSE
INVARIANT TypeOK
INVARIANT Canonical
INVARIANT FreshIsFill
INVARIANT HashIdentifiesContents
INVARIANT DepthBound
CHECK_DEADLOCK FALSE
