------------------------------ MODULE LdiffTrace ------------------------------
(* Trace validation (code -> spec).  harness/ldiff TestRecord drives real indexes (the real   *)
(* requester "L" and a remote "R" that is either a real index or the frozen legacy package)   *)
(* with random operations and writes one NDJSON line per operation: name, arguments and the   *)
(* *projected post-state observed through the exported API* (materialised ranges, counters,   *)
(* hash-equality classes, nil hashes, elements), and one line per diff run (variant,          *)
(* transport, reported lists, the requests of every round).                                   *)
(*                                                                                            *)
(* Two things are decided on every line:                                                      *)
(*  - property predicates, evaluated on the *logged real observations* only (a failure is a   *)
(*    violation of C08 / C07 by the code):                                                    *)
(*      ObsCanonical  the logged state of every repaired index is the projection of           *)
(*                    Fresh(logged elements)                                                  *)
(*      ObsDiffExact  the logged diff result is the set-theoretic difference of the logged    *)
(*                    elements of "L" and "R", each id once                                   *)
(*  - conformance: the action of Ldiff with the logged arguments must produce the logged      *)
(*    projection (and RunDiff the logged rounds / result).  A mismatch is drift, counted; the *)
(*    model then re-synchronises on Fresh(logged elements) (exactly the logged state whenever *)
(*    ObsCanonical holds).  A legacy index that left the modelled depth (ovf) or drifted, and *)
(*    a repaired index whose logged state is not canonical, is "lost": nothing more is        *)
(*    predicted about it until the next Reset (the property predicates go on being checked). *)
(* Many runs are concatenated; a Reset line starts a new one and carries every index's own   *)
(* threshold and divide-factor exponent (par).                                                *)
EXTENDS LdiffMC, VerifEmit

ASSUME HwReset /\ TLCSet(3, 0)
Trace == ndJsonDeserialize(TraceFileName)

VARIABLES l,         \* next line
          obs,       \* [Peers -> logged projection]
          lastDiff,  \* the last logged diff line (or [ev |-> "none"])
          lost,      \* legacy peers the model no longer describes
          drift      \* number of lines the model did not predict
tvars == <<idx, l, obs, lastDiff, lost, drift>>

(* ---- projections ---- *)
Idx(s) == 1..Len(s)
ObsCont(o) == [i \in Ids |-> IF \E k \in Idx(o.els) : o.els[k][1] = i
                               THEN (CHOOSE e \in {o.els[k] : k \in Idx(o.els)} : e[1] = i)[2] ELSE 0]
ObsProj(o) == [mat  |-> {o.mat[k] : k \in Idx(o.mat)},
               cnt  |-> {<<o.mat[k], o.cnt[k]>> : k \in Idx(o.mat)},
               nil  |-> {o.mat[k] : k \in {j \in Idx(o.mat) : o.nil[j]}},
               part |-> {{o.mat[j] : j \in {j \in Idx(o.mat) : o.cls[j] = o.cls[k]}} : k \in Idx(o.mat)},
               cont |-> ObsCont(o)]
ModelProj(x) == [mat  |-> x.mat,
                 cnt  |-> {<<q, x.cnt[q]>> : q \in x.mat},
                 nil  |-> {q \in x.mat : x.hsh[q] = Nil},
                 part |-> {{r \in x.mat : x.hsh[r] = x.hsh[q]} : q \in x.mat},
                 cont |-> x.cont]

(* ---- property predicates on logged observations ---- *)
ObsCanonical == \A p \in Peers \ Legacy : ObsProj(obs[p]) = ModelProj(FreshLike(idx[p], ObsCont(obs[p])))

SeqSet(s) == {s[k] : k \in Idx(s)}
NoDup(s)  == Cardinality(SeqSet(s)) = Len(s)
ObsDiffExact ==
    lastDiff.ev = "Diff" =>
        LET cl == ObsCont(obs["L"])
            cr == ObsCont(obs["R"])
            d  == lastDiff
        IN  /\ d.err = ""
            /\ NoDup(d.new \o d.ours \o d.theirs \o d.removed)
            /\ SeqSet(d.new) = ExpNew(cl, cr) /\ SeqSet(d.removed) = ExpRemoved(cl, cr)
            /\ IF d.variant = "Diff"
                 THEN SeqSet(d.ours) = ExpOurs(cl, cr) \cup ExpTheirs(cl, cr) /\ d.theirs = <<>>
                 ELSE SeqSet(d.ours) = ExpOurs(cl, cr) /\ SeqSet(d.theirs) = ExpTheirs(cl, cr)

(* ---- conformance steps ---- *)
IsEvent(e) == l <= Len(Trace) /\ Trace[l].ev = e /\ l' = l + 1

\* the model's next index for peer p, given what the action computes and what was logged
Adopt(p, computed, st) ==     \* FreshLike: the fresh index with this peer's own threshold / divide factor
    IF p \in lost THEN [ix |-> computed, ok |-> TRUE, lose |-> FALSE]
    ELSE IF ModelProj(computed) = ObsProj(st) /\ ~computed.ovf THEN [ix |-> computed, ok |-> TRUE, lose |-> FALSE]
    ELSE IF p \in Legacy THEN [ix |-> computed, ok |-> computed.ovf, lose |-> TRUE]
    ELSE IF ModelProj(FreshLike(computed, ObsCont(st))) = ObsProj(st) THEN [ix |-> FreshLike(computed, ObsCont(st)), ok |-> FALSE, lose |-> FALSE]
    ELSE [ix |-> computed, ok |-> FALSE, lose |-> TRUE]    \* not canonical (ObsCanonical fails): cannot follow

Step(p, computed, st) ==
    LET a == Adopt(p, computed, st)
    IN  /\ idx' = [idx EXCEPT ![p] = a.ix]
        /\ obs' = [obs EXCEPT ![p] = st]
        /\ lost' = IF a.lose THEN lost \cup {p} ELSE lost
        /\ drift' = IF a.ok THEN drift ELSE drift + 1
        /\ lastDiff' = [ev |-> "none"]

TrSet == /\ IsEvent("Set")
         /\ LET e == Trace[l] IN Step(e.peer, DoSet(idx[e.peer], e.els, FixSet(e.peer)), e.st)
TrRemove ==
    /\ IsEvent("Remove")
    /\ LET e == Trace[l]
           present == idx[e.peer].cont[e.id] # 0
       IN  /\ Step(e.peer, IF present THEN DoRemove(idx[e.peer], e.id, FixMerge(e.peer)) ELSE idx[e.peer], e.st)
TrDiff ==
    /\ IsEvent("Diff")
    /\ LET e   == Trace[l]
           res == RunDiff(idx["L"], idx["R"])
           asked == [k \in Idx(e.asked) |-> {Req(e.asked[k][j].p, e.asked[k][j].el) : j \in Idx(e.asked[k])}]
           same == /\ res.ok /\ res.asked = asked
                   /\ BagOf(SeqSet(e.new)) = res.acc.new /\ BagOf(SeqSet(e.removed)) = res.acc.removed
                   /\ IF e.variant = "Diff"
                        THEN BagOf(SeqSet(e.ours)) = [i \in Ids |-> res.acc.ours[i] + res.acc.theirs[i]]
                        ELSE BagOf(SeqSet(e.ours)) = res.acc.ours /\ BagOf(SeqSet(e.theirs)) = res.acc.theirs
       IN  /\ lastDiff' = e
           /\ drift' = IF lost # {} \/ same THEN drift ELSE drift + 1
    /\ UNCHANGED <<idx, obs, lost>>
TrReset ==
    /\ IsEvent("Reset")
    /\ idx' = [p \in Peers |-> NewIndex(Trace[l].par[p].th, Trace[l].par[p].lg)]
    /\ obs' = Trace[l].st
    /\ lastDiff' = [ev |-> "none"] /\ lost' = {} /\ drift' = drift

TraceInit ==
    /\ l = 2 /\ Trace[1].ev = "Reset"
    /\ idx = [p \in Peers |-> NewIndex(Trace[1].par[p].th, Trace[1].par[p].lg)]
    /\ obs = Trace[1].st
    /\ lastDiff = [ev |-> "none"] /\ lost = {} /\ drift = 0
TraceNext == TrSet \/ TrRemove \/ TrDiff \/ TrReset
TraceSpec == TraceInit /\ [][TraceNext]_tvars

\* the model agrees with the logged state wherever it still claims to describe it
InSync == \A p \in Peers \ lost : ModelProj(idx[p]) = ObsProj(obs[p])

Mark == HwMark(l) /\ TLCSet(3, drift)
TraceAccepted == PrintT(<<"TRACE-DRIFT", TLCGet(3)>>) /\ HwAccepted(Len(Trace))
=============================================================================
