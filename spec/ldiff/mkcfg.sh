#!/bin/sh
# regenerates the TLC configs of the ldiff family (run inside spec/ldiff)
mk() { # name DF D Ids IdPath THs Peers Legacy MaxSet MaxCnt FS FM FN invariants constraint
cat > $1 <<EOF
SPECIFICATION Spec
CONSTANTS
  DF = $2
  D = $3
  Ids <- $4
  IdPath <- $5
  THs = $6
  LGs = $LG
  MaxHead = 2
  Peers <- $7
  Legacy <- $8
  MaxSet = $9
  MaxCnt = ${10}
  FIX_SET_COUNT = ${11}
  FIX_MERGE_UP = ${12}
  FIX_NIL_HASH = ${13}
  DEV_SAME_COUNT_EQUAL = ${DEV:-FALSE}
EOF
for i in ${14}; do echo "INVARIANT $i" >> $1; done
[ -n "${15}" ] && echo "CONSTRAINT ${15}" >> $1
echo "CHECK_DEADLOCK FALSE" >> $1
}
LG="{1}"
C08INV="TypeOK Canonical FreshIsFill HashIdentifiesContents DepthBound"
C07INV="TypeOK Canonical DiffExactAllRequesters"
C07PAIR="TypeOK Canonical DiffExact SameContentsSameHash"
# ---- C08, registered (all repairs on): one peer, every operation kind incl. multi-element Set
mk Ldiff_c08_q2.cfg 2 3 Ids2_5 U2 "{1, 2}" JustL NoPeer 2 99 TRUE TRUE TRUE "$C08INV" ""
mk Ldiff_c08_q3.cfg 3 3 Ids3_4 U3 "{1, 2}" JustL NoPeer 2 99 TRUE TRUE TRUE "$C08INV" ""
mk Ldiff_c08_t2.cfg 2 3 Ids2_6 U2 "{1, 2, 3}" JustL NoPeer 2 99 TRUE TRUE TRUE "$C08INV" ""
mk Ldiff_c08_t3.cfg 3 3 Ids3_6 U3 "{1, 2, 3}" JustL NoPeer 2 99 TRUE TRUE TRUE "$C08INV" ""
mk Ldiff_c08_t4.cfg 2 4 Ids4_5 U4 "{1, 2}" JustL NoPeer 3 99 TRUE TRUE TRUE "$C08INV" ""
# ---- C08, behaviour of the code before the repairs, one deviation at a time (TLC must find it)
mk Ldiff_c08_asis_set.cfg 2 3 Ids2_4 U2 "{1, 2}" JustL NoPeer 2 6 FALSE TRUE TRUE "$C08INV" "CntBound"
mk Ldiff_c08_asis_merge.cfg 2 3 Ids2_4 U2 "{1, 2}" JustL NoPeer 2 6 TRUE FALSE TRUE "$C08INV" "CntBound"
# ---- C07, registered: every repaired requester (all contents) against every reachable remote
mk Ldiff_c07_q2.cfg 2 3 Ids2_5 U2 "{1, 2}" OnlyR NoPeer 1 99 TRUE TRUE TRUE "$C07INV" ""
mk Ldiff_c07_q3.cfg 3 3 Ids3_4 U3 "{1, 2}" OnlyR NoPeer 1 99 TRUE TRUE TRUE "$C07INV" ""
mk Ldiff_c07_t2.cfg 2 3 Ids2_6 U2 "{1, 2, 3}" OnlyR NoPeer 1 99 TRUE TRUE TRUE "$C07INV" ""
mk Ldiff_c07_t3.cfg 3 3 Ids3_6 U3 "{1, 2, 3}" OnlyR NoPeer 1 99 TRUE TRUE TRUE "$C07INV" ""
mk Ldiff_c07_t4.cfg 2 4 Ids4_5 U4 "{1, 2}" OnlyR NoPeer 1 99 TRUE TRUE TRUE "$C07INV" ""
# two explicit peers evolving independently (small): the same property stated on a reachable pair
mk Ldiff_c07_pair.cfg 2 3 Ids2_3 U2 "{1, 2}" LR NoPeer 1 99 TRUE TRUE TRUE "$C07PAIR" ""
# ---- C07 against a legacy remote (as-is maintenance: counter drift, one-level merge, stale map entries)
mk Ldiff_c07_legacy_q.cfg 2 3 Ids2_3c U2 "{1, 2}" OnlyR OnlyR 1 5 TRUE TRUE TRUE "TypeOK DiffExactAllRequesters" "CntBound"
mk Ldiff_c07_legacy_t.cfg 2 3 Ids2_4 U2 "{1, 2}" OnlyR OnlyR 1 7 TRUE TRUE TRUE "TypeOK DiffExactAllRequesters" "CntBound"
mk Ldiff_c07_legacy_t3.cfg 3 3 Ids3_4 U3 "{1, 2}" OnlyR OnlyR 1 6 TRUE TRUE TRUE "TypeOK DiffExactAllRequesters" "CntBound"
# ---- C07, compareResults before the repair (TLC must find the missed ids)
mk Ldiff_c07_asis_nil.cfg 2 3 Ids2_4 U2 "{1, 2}" OnlyR NoPeer 1 99 TRUE TRUE FALSE "$C07INV" ""
# ---- independently tuned indexes incl. different divide factors (DF^1 and DF^2), depth 4
LG="{1, 2}"
mk Ldiff_c08_q4m.cfg 2 4 Ids4_4 U4 "{1, 2}" JustL NoPeer 2 99 TRUE TRUE TRUE "$C08INV" ""
mk Ldiff_c08_t4m.cfg 2 4 Ids4_5 U4 "{1, 2}" JustL NoPeer 2 99 TRUE TRUE TRUE "$C08INV" ""
mk Ldiff_c07_q4m.cfg 2 4 Ids4_4 U4 "{1, 2}" OnlyR NoPeer 1 99 TRUE TRUE TRUE "$C07INV" ""
mk Ldiff_c07_t4m.cfg 2 4 Ids4_5 U4 "{1, 2, 3}" OnlyR NoPeer 1 99 TRUE TRUE TRUE "$C07INV" ""
mk Ldiff_c07_legacy_t4m.cfg 2 4 Ids4_3 U4 "{1, 2}" OnlyR OnlyR 1 6 TRUE TRUE TRUE "TypeOK DiffExactAllRequesters" "CntBound"
LG="{1}"
# ---- deviation "same count and same hash => equal": exact for equally tuned peers, TLC must refute it
# ---- as soon as requester and remote choose their thresholds independently
DEV=TRUE
mk Ldiff_c07_dev_samecount.cfg 2 3 Ids2_3c U2 "{1, 2}" OnlyR NoPeer 1 99 TRUE TRUE TRUE "$C07INV" ""
mk Ldiff_c07_dev_samecount_1th.cfg 2 3 Ids2_4 U2 "{2}" OnlyR NoPeer 1 99 TRUE TRUE TRUE "$C07INV" ""
DEV=FALSE
