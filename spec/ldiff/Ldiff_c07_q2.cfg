SPECIFICATION Spec
CONSTANTS
  DF = 2
  D = 3
  Ids <- Ids2_5
  IdPath <- U2
  THs = {1, 2}
  MaxHead = 2
  Peers <- OnlyR
  Legacy <- NoPeer
  MaxSet = 1
  MaxCnt = 99
  FIX_SET_COUNT = TRUE
  FIX_MERGE_UP = TRUE
  FIX_NIL_HASH = TRUE
INVARIANT TypeOK
INVARIANT Canonical
INVARIANT DiffExactAllRequesters
CHECK_DEADLOCK FALSE
