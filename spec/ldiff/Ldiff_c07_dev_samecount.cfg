SPECIFICATION Spec
CONSTANTS
  DF = 2
  D = 3
  Ids <- Ids2_3c
  IdPath <- U2
  THs = {1, 2}
  LGs = {1}
  MaxHead = 2
  Peers <- OnlyR
  Legacy <- NoPeer
  MaxSet = 1
  MaxCnt = 99
  FIX_SET_COUNT = TRUE
  FIX_MERGE_UP = TRUE
  FIX_NIL_HASH = TRUE
  DEV_SAME_COUNT_EQUAL = TRUE
INVARIANT TypeOK
INVARIANT Canonical
INVARIANT DiffExactAllRequesters
CHECK_DEADLOCK FALSE
