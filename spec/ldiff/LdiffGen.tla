------------------------------ MODULE LdiffGen ------------------------------
(* Behaviour generation for the Go replay (harness/ldiff TestReplay): the actions of Ldiff   *)
(* with a history variable. Every step records the operation, its arguments and what the     *)
(* specification predicts afterwards: the projected state of the acting index (materialised  *)
(* ranges, counters, hash-equality classes, which hashes are Nil, the elements) and - when   *)
(* there is a requester "L" and another peer - the result of the diff and the requests of    *)
(* every round. Exhaustive mode emits each distinct history of length GenDepth once,         *)
(* -simulate one file per trace.                                                             *)
EXTENDS LdiffMC, VerifEmit, SequencesExt, Randomization

CONSTANTS GenDepth,      \* length of the emitted histories
          GenMany,       \* number of (randomly chosen) multi-element Set calls offered per state
          GenPick        \* 0: every peer / id / head is offered (exhaustive); k > 0: random subsets (simulation)
VARIABLE hist
gvars == <<idx, hist>>

ASSUME EmitReset

\* projected state of an index: aligned sequences over its materialised ranges
Proj(x) ==
    LET ps == SetToSeq(x.mat)
        n  == Len(ps)
    IN  [mat |-> ps,
         cnt |-> [k \in 1..n |-> x.cnt[ps[k]]],
         cls |-> [k \in 1..n |-> CHOOSE j \in 1..n : /\ x.hsh[ps[j]] = x.hsh[ps[k]]
                                                       /\ \A i \in 1..(j - 1) : x.hsh[ps[i]] # x.hsh[ps[k]]],
         nil |-> [k \in 1..n |-> x.hsh[ps[k]] = Nil],
         els |-> SetToSeq(Els(x.cont, <<>>)),
         ovf |-> x.ovf]

BagSet(b) == {i \in Ids : b[i] > 0}
DiffRec(ix) ==
    IF "L" \in Peers /\ Others # {}
      THEN LET r   == CHOOSE q \in Others : TRUE
               res == RunDiff(ix["L"], ix[r])
           IN  [has |-> TRUE, ok |-> res.ok,
                new |-> BagSet(res.acc.new), ours |-> BagSet(res.acc.ours),
                theirs |-> BagSet(res.acc.theirs), removed |-> BagSet(res.acc.removed),
                once |-> \A i \in Ids : res.acc.new[i] + res.acc.ours[i] + res.acc.theirs[i] + res.acc.removed[i] <= 1,
                asked |-> [k \in 1..Len(res.asked) |-> SetToSeq(res.asked[k])],
                eqTop |-> ix["L"].hsh[<<>>] = ix[r].hsh[<<>>]]
      ELSE [has |-> FALSE]

\* the history keeps only operations and arguments (cheap successors); expectations are computed
\* when a behaviour is emitted, by running the operations again from the empty indexes
Op(op, p, es, i) == [op |-> op, peer |-> p, els |-> es, id |-> i]
Pick(S, k) == IF k = 0 THEN S ELSE RandomSubset(k, S)

GenInit == Init /\ hist = <<>>
GenNext ==
    /\ Len(hist) < GenDepth
    /\ \E p \in Pick(Peers, GenPick) :
         \/ \E i \in Pick(Ids, 2 * GenPick), h \in Pick(Heads, GenPick) :
              \/ SetNew(p, i, h) /\ hist' = Append(hist, Op("SetNew", p, <<<<i, h>>>>, i))
              \/ SetUpdate(p, i, h) /\ hist' = Append(hist, Op("SetUpdate", p, <<<<i, h>>>>, i))
         \/ \E es \in RandomSubset(GenMany, ElSeqs) :
              SetMany(p, es) /\ hist' = Append(hist, Op("SetMany", p, es, ""))
         \/ \E i \in Pick(Ids, 2 * GenPick) :
              \/ RemoveId(p, i) /\ hist' = Append(hist, Op("RemoveId", p, <<>>, i))
              \/ RemoveMissing(p, i) /\ hist' = Append(hist, Op("RemoveMissing", p, <<>>, i))
GenSpec == GenInit /\ [][GenNext]_gvars

\* every pair of contents, each side filled in one Set call (two-step histories, no further steps)
AllContsG == [Ids -> 0..MaxHead]
PairInit == \E par \in [Peers -> THs \X LGs] : \E cl, cr \in AllContsG :
                 LET sl == SeqOfSet(Els(cl, <<>>))
                     sr == SeqOfSet(Els(cr, <<>>))
                 IN  /\ hist = <<Op("SetMany", "L", sl, ""), Op("SetMany", "R", sr, "")>>
                     /\ idx = [p \in Peers |-> DoSet(NewIndex(par[p][1], par[p][2]), IF p = "L" THEN sl ELSE sr, TRUE)]
PairSpec == PairInit /\ [][FALSE]_gvars

Apply(ix, o) ==
    IF o.op \in {"SetNew", "SetUpdate", "SetMany"}
      THEN [ix EXCEPT ![o.peer] = DoSet(@, o.els, FixSet(o.peer))]
    ELSE IF o.op = "RemoveId" THEN [ix EXCEPT ![o.peer] = DoRemove(@, o.id, FixMerge(o.peer))]
    ELSE ix
RECURSIVE Annot(_, _)
Annot(ix, h) ==
    IF h = <<>> THEN <<>>
    ELSE LET o == Head(h)
             ix1 == Apply(ix, o)
         IN  <<[op |-> o.op, peer |-> o.peer, els |-> o.els, id |-> o.id,
                st |-> Proj(ix1[o.peer]), diff |-> DiffRec(ix1)]>> \o Annot(ix1, Tail(h))

Behaviour == [spec |-> "Ldiff",
              cfg |-> [df |-> DF, d |-> D, ids |-> [i \in Ids |-> IdPath[i]],
                       par |-> [p \in Peers |-> [th |-> idx[p].th, lg |-> idx[p].lg]],   \* each index's own tuning
                       peers |-> Peers, legacy |-> Legacy,
                       fix |-> [set |-> FIX_SET_COUNT, merge |-> FIX_MERGE_UP, nil |-> FIX_NIL_HASH]],
              steps |-> Annot([p \in Peers |-> NewIndex(idx[p].th, idx[p].lg)], hist)]
Emit == EmitWhen(Len(hist) = GenDepth, Behaviour)
=============================================================================
