SPECIFICATION Spec
CONSTANTS
  DF = 2
  D = 3
  Ids <- Ids2_3c
  IdPath <- U2
  THs = {1, 2}
  LGs = {1}
  MaxHead = 2
  Peers <- OnlyR
  Legacy <- OnlyR
  MaxSet = 1
  MaxCnt = 5
  FIX_SET_COUNT = TRUE
  FIX_MERGE_UP = TRUE
  FIX_NIL_HASH = TRUE
  DEV_SAME_COUNT_EQUAL = FALSE
INVARIANT TypeOK
INVARIANT DiffExactAllRequesters
CONSTRAINT CntBound
CHECK_DEADLOCK FALSE
