------------------------------ MODULE LdiffMC ------------------------------
(* Model-checking instances of Ldiff: id universes (id -> path of its hash). *)
EXTENDS Ldiff

\* DF = 2, D = 3: a,b share two digits, c shares one with them; d,e,f on the other side
U2 == ("a" :> <<0, 0, 0>>) @@ ("b" :> <<0, 0, 1>>) @@ ("c" :> <<0, 1, 0>>) @@
      ("d" :> <<1, 0, 0>>) @@ ("e" :> <<1, 1, 0>>) @@ ("f" :> <<1, 1, 1>>)
Ids2_3 == {"a", "b", "d"}
Ids2_3c == {"a", "b", "c"}
Ids2_4 == {"a", "b", "c", "d"}
Ids2_5 == {"a", "b", "c", "d", "e"}
Ids2_6 == {"a", "b", "c", "d", "e", "f"}

\* DF = 3, D = 3: a,b,c share two digits, d,e one with them, f alone
U3 == ("a" :> <<0, 0, 0>>) @@ ("b" :> <<0, 0, 1>>) @@ ("c" :> <<0, 0, 2>>) @@
      ("d" :> <<0, 1, 0>>) @@ ("e" :> <<0, 2, 2>>) @@ ("f" :> <<2, 1, 0>>)
Ids3_3 == {"a", "b", "d"}
Ids3_4 == {"a", "b", "d", "f"}
Ids3_5 == {"a", "b", "c", "d", "f"}
Ids3_6 == {"a", "b", "c", "d", "e", "f"}

\* DF = 2, D = 4: a deeper chain a,b / c / d / e
U4 == ("a" :> <<0, 0, 0, 0>>) @@ ("b" :> <<0, 0, 0, 1>>) @@ ("c" :> <<0, 0, 1, 0>>) @@
      ("d" :> <<0, 1, 0, 0>>) @@ ("e" :> <<1, 0, 0, 0>>)
Ids4_3 == {"a", "b", "c"}
Ids4_4 == {"a", "b", "c", "d"}
Ids4_5 == {"a", "b", "c", "d", "e"}

JustL  == {"L"}
LR     == {"L", "R"}
NoPeer == {}
OnlyR  == {"R"}
=============================================================================
