------------------------------- MODULE Ldiff -------------------------------
(* Range-hash head index of any-sync (app/ldiff/diff.go, hashrange.go) and the      *)
(* round-based diff between two such indexes (diff.go Diff / CompareDiff /          *)
(* compareResults, answered by getRange; the wire adapters in                       *)
(* commonspace/headsync/remotediff.go and commonspace/object/keyvalue/remotediff.go *)
(* only re-encode Range / RangeResult).                                             *)
(*                                                                                  *)
(* Abstraction.  The 2^64 hash space is a tree of ranges: genTupleRanges cuts a     *)
(* range into DF children, recursively.  A hash is therefore modelled as a *path*   *)
(* (D digits base DF) and a range as a path prefix; <<>> is the top range           *)
(* [0, MaxUint64].  IdPath maps every id to the path of xxhash(id); it is injective *)
(* at depth D so that a depth-D range never holds more than one id and never has to *)
(* be divided (the code would go on dividing below depth D; the harness picks real  *)
(* ids accordingly).  Range hashes are symbolic terms: term equality = hash         *)
(* equality up to blake3 collisions.  As in the code, an empty range and a range    *)
(* the index keeps no hash for both carry the same value Nil, and a divided range   *)
(* hashes the *concatenation* of its children's hashes (Nil contributes nothing).   *)
(*                                                                                  *)
(* One action per public call (Set / RemoveId hold d.mu for the whole call); the    *)
(* maintenance inside a call is transcribed step by step from addElement /          *)
(* removeElement / makeBottomRanges / recalculateHashes, including the element      *)
(* counters and the dirty set.  Diff is a pure function of the two indexes (both    *)
(* are read under RLock; the property is about quiescent indexes).                  *)
(*                                                                                  *)
(* Named deviations (the behaviour of the code before the repairs), switchable:     *)
(*   FIX_SET_COUNT = FALSE : Set of an existing id runs addElement (counters drift) *)
(*   FIX_MERGE_UP  = FALSE : removeElement merges the leaf's parent only            *)
(*   FIX_NIL_HASH  = FALSE : compareResults treats two Nil hashes as "equal, skip"  *)
(*   DEV_SAME_COUNT_EQUAL  : a plausible rewrite of the repaired test that is only   *)
(*                           wrong when the two sides are tuned differently          *)
(* Peers in Legacy always run the two as-is maintenance behaviours (a remote peer   *)
(* that has not been upgraded); the requester of a diff is always "L".              *)
(*                                                                                  *)
(* Tuning parameters are PER INDEX and independent: every index carries its own     *)
(* compare threshold th and its own divide factor DF^lg (lg from LGs; an index with *)
(* lg = 2 cuts a range into DF^2 children at once, which for DF = 2 are exactly the *)
(* grandchildren a DF = 2 index gets in two steps - the real genTupleRanges agrees, *)
(* the harness checks it).  A diff uses the requester's parameters for subdividing  *)
(* and for the threshold test, the remote answers from a tree built with its own.   *)
EXTENDS Integers, Sequences, FiniteSets, TLC

CONSTANTS DF,             \* base divide factor >= 2 (digits of the modelled hash)
          THs,            \* set of compare thresholds explored (each >= 1), chosen per index
          LGs,            \* set of exponents: an index divides a range into DF^lg children
          D,              \* depth of the modelled hash
          Ids,            \* id universe
          IdPath,         \* [Ids -> [1..D -> 0..DF-1]], injective
          MaxHead,        \* heads are 1..MaxHead, 0 = absent
          Peers,          \* {"L"} or {"L", "R"}
          Legacy,         \* subset of Peers running the as-is maintenance
          MaxSet,         \* maximal number of elements in one multi-element Set call
          MaxCnt,         \* bound on the top counter (only matters when counters drift)
          FIX_SET_COUNT, FIX_MERGE_UP, FIX_NIL_HASH,
          DEV_SAME_COUNT_EQUAL   \* deviation (never in the code): "counts equal /\ hashes equal => skip"

ASSUME DF >= 2 /\ D >= 1 /\ \A t \in THs : t >= 1
ASSUME \A l \in LGs : l >= 1 /\ l <= D
ASSUME \A i \in Ids : Len(IdPath[i]) = D /\ \A k \in 1..D : IdPath[i][k] \in 0..(DF - 1)
ASSUME \A i, j \in Ids : i # j => IdPath[i] # IdPath[j]
ASSUME Legacy \subseteq Peers

VARIABLES idx     \* [Peers -> index]: cont (id -> head | 0), mat (materialised ranges),
                  \*                   div (divided ranges), cnt, hsh (per materialised range),
                  \*                   ovf (left the modelled depth, legacy only),
                  \*                   th, lg (the index's own parameters, chosen in Init, constant)
vars == <<idx>>

Heads == 1..MaxHead
FixSet(p)   == IF p \in Legacy THEN FALSE ELSE FIX_SET_COUNT
FixMerge(p) == IF p \in Legacy THEN FALSE ELSE FIX_MERGE_UP

(* ------------------------------ paths and ranges ------------------------------ *)
Digits      == 0..(DF - 1)
Paths       == UNION {[1..n -> Digits] : n \in 0..D}
Pre(q, k)   == SubSeq(q, 1, k)
Front(q)    == SubSeq(q, 1, Len(q) - 1)
PrefixOf(p, q) == Len(p) <= Len(q) /\ SubSeq(q, 1, Len(p)) = p
\* the DF^k children of range p for an index with exponent k, in the order of genTupleRanges
RECURSIVE KidSeq(_, _), KidFold(_, _, _)
KidSeq(p, k)     == IF k = 0 THEN <<p>> ELSE KidFold(p, k, 0)
KidFold(p, k, d) == IF d = DF THEN <<>> ELSE KidSeq(Append(p, d), k - 1) \o KidFold(p, k, d + 1)
CanDivide(p, k)  == Len(p) + k <= D
KidTab == TLCEval([k \in LGs |-> TLCEval([p \in {q \in Paths : CanDivide(q, k)} |-> KidSeq(p, k)])])   \* constant table
Kids(p, k) == {KidTab[k][p][j] : j \in 1..Len(KidTab[k][p])}
\* TLCEval (here and below) only makes TLC evaluate a function / set constructor eagerly instead of
\* re-evaluating its body on every application; it is the identity.
Restrict(f, S) == TLCEval([x \in S |-> f[x]])

\* ids / elements of contents c whose hash lies in range p (the skiplist scan from..to)
IdsUnder    == TLCEval([p \in Paths |-> TLCEval({j \in Ids : PrefixOf(p, IdPath[j])})])   \* constant table
IdsIn(c, p) == {j \in IdsUnder[p] : c[j] # 0}
Els(c, p)   == {<<i, c[i]>> : i \in IdsIn(c, p)}
N(c, p)     == Cardinality(IdsIn(c, p))

(* ------------------------------ hash terms ------------------------------ *)
Nil          == [k |-> "N", s |-> {}, c |-> <<>>]
\* calcElementsHash: nil for zero elements, otherwise blake3 over id,head of the elements in order
LeafHash(c, p) == IF N(c, p) = 0 THEN Nil ELSE [k |-> "L", s |-> Els(c, p), c |-> <<>>]
\* calcDividedHash: blake3 over the concatenated child hashes (a nil child writes nothing)
NodeHash(hs) == [k |-> "D", s |-> {}, c |-> SelectSeq(hs, LAMBDA h : h # Nil)]

(* ------------------------------ range-tree maintenance ------------------------------ *)
\* t = [mat, div, cnt, hsh, dirty, ovf] is the hashRanges structure during a call, c the skiplist.

\* makeBottomRanges(rng = p): create the DF children with counts and hashes from the skiplist
\* (new objects replace stale map entries); a child above the threshold is divided at once.
RECURSIVE MakeBottom(_, _, _), MakeBottomKids(_, _, _, _)
MakeBottom(t, c, p) ==
    LET kids == Kids(p, t.lg)
        nm   == t.mat \cup kids
        t1   == [t EXCEPT !.mat = nm,
                          !.div = @ \ kids,
                          !.cnt = TLCEval([q \in nm |-> IF q \in kids THEN N(c, q) ELSE t.cnt[q]]),
                          !.hsh = TLCEval([q \in nm |-> IF q \in kids THEN LeafHash(c, q) ELSE t.hsh[q]])]
    IN  MakeBottomKids(t1, c, p, {q \in kids : N(c, q) > t.th /\ CanDivide(q, t.lg)})
MakeBottomKids(t, c, p, S) ==
    IF S = {} THEN t
    ELSE LET q  == CHOOSE x \in S : TRUE
             t1 == [t EXCEPT !.dirty = (@ \ {p}) \cup {q}, !.div = @ \cup {q}]
         IN  MakeBottomKids(MakeBottom(t1, c, q), c, p, S \ {q})

\* the walk of addElement / removeElement: top, then getBottomRange while the range is divided
Levels(t)        == {k \in 0..D : k % t.lg = 0}          \* depths at which this index has ranges
LeafLen(t, path) == CHOOSE k \in Levels(t) : /\ Pre(path, k) \notin t.div
                                             /\ \A j \in Levels(t) : j < k => Pre(path, j) \in t.div
OnWalk(t, path, k) == {Pre(path, j) : j \in {i \in Levels(t) : i <= k}}

\* addElement(elHash): c is the skiplist *after* sl.Set
AddElement(t, c, path) ==
    LET k  == LeafLen(t, path)
        L  == Pre(path, k)
        w  == OnWalk(t, path, k)
        t1 == [t EXCEPT !.cnt = TLCEval([q \in DOMAIN @ |-> IF q \in w THEN @[q] + 1 ELSE @[q]]),
                        !.dirty = @ \cup {L}]
        t2 == IF t1.cnt[L] > t.th
                THEN IF CanDivide(L, t.lg) THEN MakeBottom([t1 EXCEPT !.div = @ \cup {L}], c, L)
                     ELSE [t1 EXCEPT !.ovf = TRUE]   \* the code would divide below the modelled depth
                ELSE t1
    IN  IF k > 0 THEN [t2 EXCEPT !.dirty = @ \ {Pre(path, k - t.lg)}] ELSE t2

\* repaired Set of an existing id: no counter changes, the leaf holding the id is recomputed
UpdateElement(t, path) ==
    LET k == LeafLen(t, path) IN [t EXCEPT !.dirty = @ \cup {Pre(path, k)}]

\* the merge inside removeElement: the children of P leave the map, P becomes a leaf
Merge(t, P) ==
    LET kids == Kids(P, t.lg)
        nm   == t.mat \ kids
    IN  [t EXCEPT !.mat = nm, !.div = (@ \ kids) \ {P}, !.cnt = Restrict(@, nm),
                  !.hsh = Restrict(@, nm), !.dirty = @ \ kids]

\* repaired removeElement: keep merging upwards while the enclosing range fits the threshold
RECURSIVE MergeUp(_, _)
MergeUp(t, r) ==
    LET P == Pre(r, Len(r) - t.lg)
    IN  IF P # <<>> /\ t.cnt[P] <= t.th THEN MergeUp(Merge(t, P), P)
        ELSE [t EXCEPT !.dirty = @ \cup {r}]

\* removeElement(elHash), after sl.Remove
RemoveElement(t, path, fixMerge) ==
    LET k  == LeafLen(t, path)
        L  == Pre(path, k)
        w  == OnWalk(t, path, k)
        t1 == [t EXCEPT !.cnt = TLCEval([q \in DOMAIN @ |-> IF q \in w THEN @[q] - 1 ELSE @[q]])]
        P  == Pre(path, k - t.lg)
    IN  IF fixMerge THEN MergeUp(t1, L)
        ELSE IF t1.cnt[P] <= t.th /\ P # <<>>
               THEN [Merge(t1, P) EXCEPT !.dirty = @ \cup {P}]
               ELSE [t1 EXCEPT !.dirty = @ \cup {L}]

\* recalculateHashes: every dirty range and then each of its ancestors is recomputed from the
\* current child hashes / the skiplist until nothing is dirty (a fixpoint, so the processing
\* order inside the code does not matter); an undivided range also gets its exact count back.
RECURSIVE NewHash(_, _, _, _)
NewHash(t, c, clo, q) ==
    IF q \notin clo THEN t.hsh[q]
    ELSE IF q \in t.div THEN NodeHash([j \in 1..Len(KidTab[t.lg][q]) |-> NewHash(t, c, clo, KidTab[t.lg][q][j])])
    ELSE LeafHash(c, q)
Recalc(t, c) ==
    LET clo == TLCEval({q \in t.mat : \E x \in t.dirty : PrefixOf(q, x)})
    IN  [cont |-> c, mat |-> t.mat, div |-> t.div, ovf |-> t.ovf, th |-> t.th, lg |-> t.lg,
         cnt  |-> TLCEval([q \in t.mat |-> IF q \in clo /\ q \notin t.div THEN N(c, q) ELSE t.cnt[q]]),
         hsh  |-> TLCEval([q \in t.mat |-> NewHash(t, c, clo, q)])]

Tree(x) == [mat |-> x.mat, div |-> x.div, cnt |-> x.cnt, hsh |-> x.hsh, dirty |-> {}, ovf |-> x.ovf,
            th |-> x.th, lg |-> x.lg]

\* diff.Set(elements...): per element sl.Remove, sl.Set, addElement; one recalculateHashes at the end
RECURSIVE SetFold(_, _, _, _)
SetFold(t, c, es, fixSet) ==
    IF es = <<>> THEN [t |-> t, c |-> c]
    ELSE LET i  == Head(es)[1]
             c1 == [c EXCEPT ![i] = Head(es)[2]]
             t1 == IF c[i] # 0 /\ fixSet THEN UpdateElement(t, IdPath[i])
                                          ELSE AddElement(t, c1, IdPath[i])
         IN  SetFold(t1, c1, Tail(es), fixSet)
DoSet(x, es, fixSet) == LET r == SetFold(Tree(x), x.cont, es, fixSet) IN Recalc(r.t, r.c)

\* diff.RemoveId(id) of a present id
DoRemove(x, i, fixMerge) ==
    LET c1 == [x.cont EXCEPT ![i] = 0] IN Recalc(RemoveElement(Tree(x), IdPath[i], fixMerge), c1)

\* ldiff.New(DF^l, t): top range divided, its children created, top recomputed
EmptyCont == [i \in Ids |-> 0]
NewIndex(t, l) ==
    LET t0 == [mat |-> {<<>>}, div |-> {<<>>}, cnt |-> (<<>> :> 0), hsh |-> (<<>> :> Nil), dirty |-> {}, ovf |-> FALSE,
               th |-> t, lg |-> l]
        t1 == MakeBottom(t0, EmptyCont, <<>>)
    IN  Recalc([t1 EXCEPT !.dirty = {<<>>}], EmptyCont)

(* ------------------------------ the index a fresh fill produces ------------------------------ *)
\* declaratively: a range (at a depth the index has) is divided iff it is the top or holds more than
\* the threshold t - for an index with threshold t and exponent l
IsFreshDiv(c, t, l, p) == Len(p) % l = 0 /\ CanDivide(p, l) /\ (p = <<>> \/ N(c, p) > t)
FreshDivT(c, t, l) == {p \in Paths : IsFreshDiv(c, t, l, p)}
FreshMatT(c, t, l) == {<<>>} \cup UNION {Kids(p, l) : p \in FreshDivT(c, t, l)}
RECURSIVE FreshHashT(_, _, _, _)
FreshHashT(c, t, l, p) ==
    IF IsFreshDiv(c, t, l, p)
      THEN NodeHash([j \in 1..Len(KidTab[l][p]) |-> FreshHashT(c, t, l, KidTab[l][p][j])])
      ELSE LeafHash(c, p)
FreshT(c, t, l) == LET m == FreshMatT(c, t, l)
                   IN  [cont |-> c, mat |-> m, div |-> FreshDivT(c, t, l), ovf |-> FALSE, th |-> t, lg |-> l,
                        cnt |-> TLCEval([q \in m |-> N(c, q)]), hsh |-> TLCEval([q \in m |-> FreshHashT(c, t, l, q)])]
FreshLike(x, c) == FreshT(c, x.th, x.lg)      \* the fresh index with the parameters of x
\* operationally: New, then one Set call with all elements (in some order)
RECURSIVE SeqOfSet(_)
SeqOfSet(S) == IF S = {} THEN <<>> ELSE LET e == CHOOSE x \in S : TRUE IN <<e>> \o SeqOfSet(S \ {e})
FreshByFill(x) == DoSet(NewIndex(x.th, x.lg), SeqOfSet(Els(x.cont, <<>>)), TRUE)

(* ------------------------------ the diff ------------------------------ *)
Req(p, el) == [p |-> p, el |-> el]
\* diff.getRange: hash and counter of a materialised range; the elements if the range is not
\* materialised or the request asks for them
GetRange(x, r) ==
    LET m == r.p \in x.mat
    IN  IF m /\ ~r.el THEN [hash |-> x.hsh[r.p], count |-> x.cnt[r.p], els |-> {}]
        ELSE LET es == Els(x.cont, r.p)
             IN  [hash |-> IF m THEN x.hsh[r.p] ELSE Nil, count |-> Cardinality(es), els |-> es]

ZeroBag      == TLCEval([i \in Ids |-> 0])
AddBag(b, S) == TLCEval([i \in Ids |-> b[i] + IF i \in S THEN 1 ELSE 0])
ZeroAcc      == [new |-> ZeroBag, ours |-> ZeroBag, theirs |-> ZeroBag, removed |-> ZeroBag]
HeadIn(S, i) == (CHOOSE e \in S : e[1] = i)[2]
\* compareElementsGreater (compareElementsEqual reports ours and theirs in one list)
CmpEls(acc, my, ot) ==
    LET mi == {e[1] : e \in my}
        oi == {e[1] : e \in ot}
        bo == mi \cap oi
    IN  [new     |-> AddBag(acc.new, oi \ mi),
         removed |-> AddBag(acc.removed, mi \ oi),
         theirs  |-> AddBag(acc.theirs, {i \in bo : HeadIn(ot, i) > HeadIn(my, i)}),
         ours    |-> AddBag(acc.ours, {i \in bo : HeadIn(ot, i) < HeadIn(my, i)})]

\* the first test of compareResults; as-is: bytes.Equal(myRes.Hash, otherRes.Hash)
HashesSayEqual(my, ot) ==
    IF DEV_SAME_COUNT_EQUAL THEN my.count = ot.count /\ my.hash = ot.hash
    ELSE /\ my.hash = ot.hash
         /\ (FIX_NIL_HASH => (my.hash # Nil \/ (my.count = 0 /\ ot.count = 0)))

\* compareResults for one requested range; st = [acc, prep, ok]
CompareResults(xl, r, my, ot, st) ==
    IF HashesSayEqual(my, ot) THEN st
    ELSE IF Cardinality(ot.els) = ot.count
      THEN IF Cardinality(my.els) = my.count
             THEN [st EXCEPT !.acc = CmpEls(@, my.els, ot.els)]
             ELSE [st EXCEPT !.acc = CmpEls(@, GetRange(xl, Req(r.p, TRUE)).els, ot.els)]
    ELSE IF (ot.count <= xl.th /\ Cardinality(ot.els) = 0) \/ Cardinality(my.els) = my.count
      THEN [st EXCEPT !.prep = @ \cup {Req(r.p, TRUE)}]
    ELSE IF ~CanDivide(r.p, xl.lg)
      THEN [st EXCEPT !.ok = FALSE]            \* would leave the modelled depth, see DiffGood
      ELSE [st EXCEPT !.prep = @ \cup {Req(q, FALSE) : q \in Kids(r.p, xl.lg)}]   \* the requester's divide factor

RECURSIVE RoundFold(_, _, _, _)
RoundFold(xl, xr, S, st) ==
    IF S = {} THEN st
    ELSE LET r == CHOOSE x \in S : TRUE
         IN  RoundFold(xl, xr, S \ {r}, CompareResults(xl, r, GetRange(xl, r), GetRange(xr, r), st))

\* Diff / CompareDiff: one round per Ranges call on the remote; asked = the requests of every round
RECURSIVE DiffLoop(_, _, _, _, _)
DiffLoop(xl, xr, toSend, acc, asked) ==
    IF toSend = {} THEN [acc |-> acc, asked |-> asked, ok |-> TRUE]
    ELSE IF Len(asked) >= D + 3 THEN [acc |-> acc, asked |-> asked, ok |-> FALSE]
    ELSE LET st == RoundFold(xl, xr, toSend, [acc |-> acc, prep |-> {}, ok |-> TRUE])
         IN  IF ~st.ok THEN [acc |-> st.acc, asked |-> Append(asked, toSend), ok |-> FALSE]
             ELSE DiffLoop(xl, xr, st.prep, st.acc, Append(asked, toSend))
RunDiff(xl, xr) == DiffLoop(xl, xr, {Req(<<>>, FALSE)}, ZeroAcc, <<>>)

\* the set-theoretic difference the property demands
Present(c)     == {i \in Ids : c[i] # 0}
ExpNew(cl, cr)     == Present(cr) \ Present(cl)
ExpRemoved(cl, cr) == Present(cl) \ Present(cr)
ExpOurs(cl, cr)    == {i \in Present(cl) \cap Present(cr) : cl[i] > cr[i]}
ExpTheirs(cl, cr)  == {i \in Present(cl) \cap Present(cr) : cl[i] < cr[i]}
BagOf(S)       == TLCEval([i \in Ids |-> IF i \in S THEN 1 ELSE 0])
ExactAcc(acc, cl, cr) ==
    /\ acc.new = BagOf(ExpNew(cl, cr))         /\ acc.removed = BagOf(ExpRemoved(cl, cr))
    /\ acc.ours = BagOf(ExpOurs(cl, cr))       /\ acc.theirs = BagOf(ExpTheirs(cl, cr))

(* ------------------------------ actions ------------------------------ *)
ElSeqs == UNION {[1..n -> Ids \X Heads] : n \in 2..MaxSet}

\* every index gets its own threshold and divide factor
Init == \E par \in [Peers -> THs \X LGs] : idx = [p \in Peers |-> NewIndex(par[p][1], par[p][2])]

SetNew(p, i, h) ==
    /\ idx[p].cont[i] = 0
    /\ idx' = [idx EXCEPT ![p] = DoSet(@, <<<<i, h>>>>, FixSet(p))]
SetUpdate(p, i, h) ==                       \* existing id, same or another head
    /\ idx[p].cont[i] # 0
    /\ idx' = [idx EXCEPT ![p] = DoSet(@, <<<<i, h>>>>, FixSet(p))]
SetMany(p, es) ==                           \* several elements, duplicates of an id allowed
    /\ idx' = [idx EXCEPT ![p] = DoSet(@, es, FixSet(p))]
RemoveId(p, i) ==
    /\ idx[p].cont[i] # 0
    /\ idx' = [idx EXCEPT ![p] = DoRemove(@, i, FixMerge(p))]
RemoveMissing(p, i) ==                      \* ErrElementNotFound, nothing changes
    /\ idx[p].cont[i] = 0
    /\ UNCHANGED vars

Next == \E p \in Peers :
          \/ \E i \in Ids, h \in Heads : SetNew(p, i, h) \/ SetUpdate(p, i, h)
          \/ \E es \in ElSeqs : SetMany(p, es)
          \/ \E i \in Ids : RemoveId(p, i) \/ RemoveMissing(p, i)
Spec == Init /\ [][Next]_vars

\* only relevant when counters drift (as-is Set): keeps the reachable set finite
CntBound == \A p \in Peers : idx[p].cnt[<<>>] <= MaxCnt

(* ------------------------------ properties ------------------------------ *)
WellFormed(x) ==
    /\ <<>> \in x.div /\ x.div \subseteq x.mat
    /\ DOMAIN x.cnt = x.mat /\ DOMAIN x.hsh = x.mat
    /\ \A q \in x.div : CanDivide(q, x.lg) /\ Kids(q, x.lg) \subseteq x.mat
TypeOK == \A p \in Peers : /\ idx[p].cont \in [Ids -> 0..MaxHead] /\ WellFormed(idx[p])
                           /\ idx[p].th \in THs /\ idx[p].lg \in LGs

\* C08: structure, counters and every range hash are those of a freshly filled index
IsCanonical(x) == x = FreshLike(x, x.cont)
Canonical == \A p \in Peers \ Legacy : IsCanonical(idx[p])
\* "freshly filled in one call" is what the declarative definition says
FreshIsFill == \A p \in Peers : FreshByFill(idx[p]) = FreshLike(idx[p], idx[p].cont)
\* what C08 promises to the protocol: equally tuned peers advertise equal top hashes iff their contents
\* are equal; however two peers are tuned, equal top hashes mean equal contents
SameContentsSameHash ==
    \A p, q \in Peers \ Legacy :
        /\ (idx[p].hsh[<<>>] = idx[q].hsh[<<>>]) => (idx[p].cont = idx[q].cont)
        /\ (idx[p].th = idx[q].th /\ idx[p].lg = idx[q].lg /\ idx[p].cont = idx[q].cont)
              => (idx[p].hsh[<<>>] = idx[q].hsh[<<>>])
\* a repaired index never needs to divide a depth-D range (so the modelled depth is not a
\* restriction for it); a legacy index whose drifting counters made it divide below depth D has
\* left the model (ovf) and nothing is claimed about it from then on
DepthBound == \A p \in Peers \ Legacy : ~idx[p].ovf

\* C07: the diff "L" runs against any other peer is exact, reports each id once and terminates
DiffGood(xl, xr) ==
    LET res == RunDiff(xl, xr)
    IN  /\ res.ok /\ Len(res.asked) <= D + 2                    \* terminates, within D + 2 rounds
        /\ ExactAcc(res.acc, xl.cont, xr.cont)                  \* exact, each id once
        /\ (xl.hsh[<<>>] = xr.hsh[<<>>] => Len(res.asked) = 1)  \* equal top hashes: nothing asked
Others == Peers \ {"L"}
DiffExact == "L" \in Peers => \A r \in Others : idx[r].ovf \/ DiffGood(idx["L"], idx[r])
=============================================================================
