SPECIFICATION TraceSpec
CONSTANTS
  DF = 2
  D = 4
  Ids <- Ids4_5
  IdPath <- U4
  THs = {1, 2, 3}
  LGs = {1, 2}
  MaxHead = 2
  Peers <- LR
  Legacy <- OnlyR
  MaxSet = 3
  MaxCnt = 99
  FIX_SET_COUNT = TRUE
  FIX_MERGE_UP = TRUE
  FIX_NIL_HASH = TRUE
  DEV_SAME_COUNT_EQUAL = FALSE
INVARIANT ObsCanonical
INVARIANT ObsDiffExact
INVARIANT InSync
CONSTRAINT Mark
POSTCONDITION TraceAccepted
CHECK_DEADLOCK FALSE
