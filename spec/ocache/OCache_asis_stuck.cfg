SPECIFICATION Spec
CONSTANTS
  Ids <- Ids1
  Kinds <- AllKinds
  MinOps = 2
  MaxOps = 2
  PreModes <- PreBoth
  LoadOutcomes <- LoadBoth
  TryVerdicts <- TryAll
  CancelMode = "any"
  GCAll = FALSE
  MaxRetries = 3
  FIX_TRYREMOVE_LOADING = TRUE
  FIX_ADD_CLOSED = TRUE
  FIX_TRYREMOVE_ERR = FALSE
  CloseDeadline = TRUE
  BOUND_LOADS = FALSE
  Loose = FALSE
INVARIANT NoStuck
