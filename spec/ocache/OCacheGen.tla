------------------------------ MODULE OCacheGen ------------------------------
(***************************************************************************)
(* Behaviour generation for the schedule replay (harness/ocache).          *)
(*                                                                         *)
(* `hist` is the schedule that led to the current state, one code per step *)
(*     "<op>:<control point>:<environment choice>:<result>:<value>"        *)
(* and `last` is its last element.  The VIEW contains `last` but not       *)
(* `hist`: TLC then visits every (state, incoming step) pair exactly once, *)
(* i.e. every TRANSITION of OCache, and `hist` is the breadth-first path   *)
(* to it.  Every visited pair prints its path; the orchestrator keeps the  *)
(* paths that are not a prefix of another one (the leaves of the search    *)
(* tree), which together pass through every transition of the model.  The  *)
(* harness replays such a path step by step on the real cache and then     *)
(* lets the operations run to completion on their own.                     *)
(* In simulation mode (-simulate) only complete behaviours are printed.    *)
(***************************************************************************)
EXTENDS OCacheMC

VARIABLES hist, last
gvars == <<vars, hist, last>>
GenView == <<vars, last>>

Actor == CHOOSE o \in Ops : pc'[o] # pc[o] \/ loc'[o] # loc[o] \/ canc'[o] # canc[o]

IdsOf(s) == LET F[k \in 0..Len(s)] == IF k = 0 THEN "" ELSE F[k-1] \o ent[s[k]].id IN F[Len(s)]

Choice(o) ==
    CASE canc'[o] # canc[o] -> ""
      \* a wait left through the context (for cache Close: its deadline)
      [] pc[o] \in {"GWCw", "GWL", "PWL", "RWL", "RSCw"} /\ canc[o]
           /\ (\/ (pc'[o] = "done" /\ loc'[o].res = "ErrCtx")
               \/ (Kind(o) = "Close" /\ pc[o] = "RSCw" /\ ent'[loc[o].e].gu # ent[loc[o].e].gu)
               \/ (Kind(o) = "Close" /\ pc[o] = "RWL" /\ ~E(o).ld)) -> "ctx"
      [] pc[o] = "G3r" -> loc'[o].lo
      [] pc[o] = "T3" /\ pc'[o] # "panic" ->
           LET v == E(o).val
               yes == inst'[v].cc # inst[v].cc
               err == loc'[o].lo = "err" \/ loc'[o].res \in {"okErr", "notokErr"}
           IN (IF yes THEN "yes" ELSE "no") \o (IF err THEN "Err" ELSE "")
      [] pc[o] \in {"GC1", "C1"} /\ ~closed ->
           IF pc'[o] = "done" THEN "" ELSE IdsOf(<<loc'[o].e>> \o loc'[o].vs)
      [] OTHER -> ""

Code ==
    LET o == Actor IN
    ToString(o) \o ":" \o (IF canc'[o] # canc[o] THEN "Cancel" ELSE pc[o]) \o ":" \o Choice(o) \o ":"
      \o (IF pc'[o] = "panic" THEN "panic" ELSE IF pc'[o] = "done" THEN loc'[o].res ELSE "")
      \o ":" \o (IF pc'[o] = "done" THEN ToString(loc'[o].rv) ELSE "")

GenInit == Init /\ hist = <<>> /\ last = ""
GenNext == \/ /\ (Progress \/ CancelCtx)
              /\ hist' = Append(hist, Code) /\ last' = Code
           \/ /\ AllFinished /\ last # "END" /\ last' = "END" /\ UNCHANGED <<vars, hist>>
GenSpec == GenInit /\ [][GenNext]_gvars

Join(s) == LET F[k \in 0..Len(s)] == IF k = 0 THEN "" ELSE F[k-1] \o (IF k = 1 THEN "" ELSE ",") \o s[k] IN F[Len(s)]
OpCode(j) == ops[j].kind \o "." \o ops[j].id \o "." \o ToString(ops[j].arg)
Config == LET F[k \in 0..Len(ops)] == IF k = 0 THEN "" ELSE F[k-1] \o (IF k = 1 THEN "" ELSE ",") \o OpCode(k) IN F[Len(ops)]
Line == "BEH|" \o Config \o "|" \o Join(PreSeq(pre)) \o "|" \o Join(hist) \o "|" \o (IF AllFinished THEN "end" ELSE "cut")

\* exhaustive mode: every visited (state, step) pair; simulation mode: complete behaviours
EmitAll  == (hist # <<>> /\ last # "END") => PrintT(Line)
EmitDone == last = "END" => PrintT(Line)
=============================================================================
