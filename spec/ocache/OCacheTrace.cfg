SPECIFICATION TraceSpec
CONSTANTS
  Ids <- Ids2
  Kinds <- AllKinds
  MinOps = 1
  MaxOps = 1
  PreModes <- PreNone
  LoadOutcomes <- LoadBoth
  TryVerdicts <- TryAll
  CancelMode = "any"
  GCAll = FALSE
  MaxRetries = 3
  FIX_TRYREMOVE_LOADING = TRUE
  FIX_ADD_CLOSED = TRUE
  CloseDeadline = FALSE
  BOUND_LOADS = FALSE
  Loose = TRUE
  FIX_TRYREMOVE_ERR = TRUE
INVARIANT TypeOK
INVARIANT AtMostOneLive
INVARIANT HandedOutLoaded
INVARIANT NoDoubleClose
INVARIANT NoneOpenAfterShutdown
INVARIANT NoStaleAfterRemove
INVARIANT RemoveSameIdentity
INVARIANT ActiveIsOpen
INVARIANT NoPanic
CONSTRAINT Mark
POSTCONDITION TraceAccepted
CHECK_DEADLOCK FALSE
