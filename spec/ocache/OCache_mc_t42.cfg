SPECIFICATION Spec
CONSTANTS
  Ids <- Ids2
  Kinds <- FourKinds
  MinOps = 4
  MaxOps = 4
  PreModes <- PreBoth
  LoadOutcomes <- LoadVal
  TryVerdicts <- TryPlain
  CancelMode = "none"
  GCAll = FALSE
  MaxRetries = 3
  FIX_TRYREMOVE_LOADING = TRUE
  FIX_ADD_CLOSED = TRUE
  FIX_TRYREMOVE_ERR = TRUE
  CloseDeadline = TRUE
  BOUND_LOADS = FALSE
  Loose = FALSE
INVARIANT Inv
