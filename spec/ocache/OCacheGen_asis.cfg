SPECIFICATION GenSpec
CONSTANTS
  Ids <- Ids1
  Kinds <- AllKinds
  MinOps = 2
  MaxOps = 2
  PreModes <- PreBoth
  LoadOutcomes <- LoadBoth
  TryVerdicts <- TryAll
  CancelMode = "blocked"
  GCAll = TRUE
  MaxRetries = 3
  FIX_TRYREMOVE_LOADING = FALSE
  FIX_ADD_CLOSED = FALSE
  FIX_TRYREMOVE_ERR = FALSE
  CloseDeadline = TRUE
  BOUND_LOADS = FALSE
  Loose = FALSE
VIEW GenView
INVARIANT EmitAll
CHECK_DEADLOCK FALSE
