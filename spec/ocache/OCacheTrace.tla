----------------------------- MODULE OCacheTrace -----------------------------
(***************************************************************************)
(* Trace validation: an execution of the real cache recorded through the   *)
(* `verif` hooks of app/ocache (one NDJSON line per lock section / wake-up,*)
(* sequence numbers taken under the lock that protects the change) and the *)
(* harness-owned LoadFunc / Close / TryClose must be a behaviour of OCache,*)
(* and every invariant of OCache must hold in every recorded state.        *)
(*                                                                         *)
(* Goroutine slot g of the harness is operation g of the spec; an op.start *)
(* line re-initialises the slot.  Where the code takes a decision under a  *)
(* lock (hit / miss, same / other, busy / take) the spec FOLLOWS the       *)
(* recorded decision - a decision that differs from what the spec would    *)
(* have decided is counted in `drift` and its consequences are judged by   *)
(* the invariants (two loads, double close, ...).  Anything else that does *)
(* not fit (wrong control point, impossible result) rejects the trace.     *)
(* Several runs are concatenated; a `reset` line starts a fresh cache.     *)
(***************************************************************************)
EXTENDS OCacheMC, VerifEmit

ASSUME HwReset /\ TLCSet(3, -1)
Trace == ndJsonDeserialize(TraceFileName)

\* close(e.load) is not protected by a lock. Its line (load.close) is written just before the
\* close, so the channel may still be open until the closing goroutine writes its next line (lc);
\* and TryRemove, which tests the channel without blocking inside its c.mu section, is linearised
\* anywhere between the previous c.mu section of the log and its own line (ro).
VARIABLES l, drift,
          lc,    \* per slot: the entry whose load channel that goroutine is closing right now (0: none)
          ro     \* entries whose load channel may have been open at some moment since the last c.mu section
tvars == <<vars, l, drift, lc, ro>>

NSlots == Trace[1].slots
X == Trace[l]
Has(f) == f \in DOMAIN X
G == X.g

Idle == [kind |-> "Idle", id |-> NoId, arg |-> 0]

FreshState ==
    /\ ops = [j \in 1..NSlots |-> Idle] /\ pre = {} /\ closed = FALSE
    /\ data = [i \in IdSet |-> 0] /\ ent = <<>> /\ inst = <<>>
    /\ pc = [j \in 1..NSlots |-> "done"] /\ loc = [j \in 1..NSlots |-> NoLoc]
    /\ canc = [j \in 1..NSlots |-> FALSE] /\ panicked = FALSE /\ snap = [j \in 1..NSlots |-> {}]

TraceInit == l = 2 /\ drift = 0 /\ Trace[1].ev = "reset" /\ FreshState /\ ro = {} /\ lc = [j \in 1..NSlots |-> 0]

Ev(e)    == l <= Len(Trace) /\ X.ev = e
Adv      == l' = l + 1
CMuEvents == {"get.closed", "get.hit", "get.miss", "isclosing", "pick.miss", "load.fail", "load.fail.aborted",
              "remove.closed", "remove.absent", "remove.found", "removesame.closed", "removesame.same",
              "removesame.other", "tryremove.closed", "tryremove.absent", "tryremove.loading", "tryremove.found",
              "add.ok", "add.exists", "add.closed", "gc.closed", "gc.victim", "gc.scanned",
              "close.closed", "close.collect", "close.marked", "setclosed"}
RoUpdate == /\ lc' = IF X.ev = "reset" THEN [j \in 1..NSlots |-> 0]
                   ELSE IF X.ev = "load.close" THEN [lc EXCEPT ![G] = loc[G].e]
                   ELSE IF lc[G] # 0 /\ X.ev # "ctx.cancel" THEN [lc EXCEPT ![G] = 0] ELSE lc
            /\ LET open == {e \in 1..Len(ent') : ~ent'[e].ld} \cup ({lc'[j] : j \in 1..NSlots} \ {0}) IN
               ro' = IF X.ev = "reset" THEN {}
                     ELSE IF X.ev \in CMuEvents \/ (X.ev = "setactive" /\ pc[G] = "G4") THEN open
                     ELSE ro \cup open
Agree    == drift' = drift
Differ(b) == drift' = IF b THEN drift ELSE drift + 1
At(p)    == pc[G] = p
StIs(s)  == Has("st") /\ X.st = s

\* a new run: every operation of the previous one has returned
TrReset == /\ Ev("reset") /\ Adv /\ drift' = drift
           /\ \A o \in Ops : pc[o] \in {"done", "panic"}
           /\ ops' = [j \in 1..NSlots |-> Idle] /\ pre' = {} /\ closed' = FALSE
           /\ data' = [i \in IdSet |-> 0] /\ ent' = <<>> /\ inst' = <<>>
           /\ pc' = [j \in 1..NSlots |-> "done"] /\ loc' = [j \in 1..NSlots |-> NoLoc]
           /\ canc' = [j \in 1..NSlots |-> FALSE] /\ panicked' = FALSE /\ snap' = [j \in 1..NSlots |-> {}]

TrStart == /\ Ev("op.start") /\ Adv /\ Agree /\ pc[G] \in {"done", "panic"}
           /\ ops' = [ops EXCEPT ![G] = [kind |-> X.k, id |-> IF Has("id") THEN X.id ELSE NoId,
                                         arg |-> IF Has("arg") THEN X.arg ELSE 0]]
           /\ pc' = [pc EXCEPT ![G] = FirstPc(X.k)] /\ loc' = [loc EXCEPT ![G] = NoLoc]
           /\ canc' = [canc EXCEPT ![G] = FALSE] /\ snap' = [snap EXCEPT ![G] = {}]
           /\ UNCHANGED <<pre, closed, data, ent, inst, panicked>>

\* the operation returned: the result the spec computed must be the recorded one
TrRet == /\ Ev("op.ret") /\ Adv /\ Agree
         /\ IF X.res = "panic" THEN pc[G] = "panic"
            ELSE /\ pc[G] = "done" /\ loc[G].res = X.res
                 /\ (Kind(G) \in {"Get", "Pick"} /\ X.res = "ok") => loc[G].rv = (IF Has("i") THEN X.i ELSE 0)
         /\ UNCHANGED vars

TrCancel == /\ Ev("ctx.cancel") /\ Adv /\ Agree /\ canc' = [canc EXCEPT ![G] = TRUE]
            /\ UNCHANGED <<ops, pre, closed, data, ent, inst, pc, loc, panicked, snap>>

(* ------------------------------ Get / Pick / Add ----------------------- *)
TrG1 == /\ (Ev("get.closed") \/ Ev("get.hit") \/ Ev("get.miss")) /\ Adv /\ At("G1")
        /\ LET dec == IF X.ev = "get.closed" THEN "closed" ELSE IF X.ev = "get.hit" THEN "hit" ELSE "miss" IN
           G1D(G, dec) /\ Differ(dec = G1Dec(G))

TrGWC == /\ Ev("waitclose") /\ Adv /\ At("GWC") /\ GWC(G) /\ Differ(X.st = E(G).st)
TrGWCw == /\ (Ev("waitclose.woken") \/ Ev("waitclose.ctx")) /\ Adv /\ Agree /\ GWCw(G)
          /\ (X.ev = "waitclose.ctx") <=> (pc'[G] = "done")

TrG3 == /\ Ev("load.start") /\ Adv /\ Agree /\ G3(G) /\ Len(inst') = X.i
TrG3r == /\ (Ev("load.end.val") \/ Ev("load.end.err")) /\ Adv /\ Agree /\ G3r(G)
         /\ loc'[G].lo = (IF X.ev = "load.end.val" THEN "val" ELSE "err") /\ loc[G].i = X.i

\* publish: the value (setActive under c.mu + e.mx) or the error and whether the load was aborted
TrG4 == \/ /\ Ev("setactive") /\ At("G4") /\ Adv /\ loc[G].lo = "val" /\ G4D(G, FALSE) /\ Differ(X.st = E(G).st)
        \/ /\ (Ev("load.fail") \/ Ev("load.fail.aborted")) /\ Adv /\ Agree /\ loc[G].lo = "err"
           /\ G4D(G, X.ev = "load.fail.aborted")
TrG4b == /\ Ev("load.close") /\ Adv /\ Agree /\ G4b(G)

TrWaitLoad == /\ (Ev("waitload.done") \/ Ev("waitload.ctx")) /\ Adv /\ Agree
              /\ (At("GWL") /\ GWL(G)) \/ (At("PWL") /\ PWL(G)) \/ (At("RWL") /\ RWL(G))
              /\ (X.ev = "waitload.ctx") => (pc'[G] = "done" /\ loc'[G].res = "ErrCtx")
              /\ (X.ev = "waitload.done") => ~(pc'[G] = "done" /\ loc'[G].res = "ErrCtx")

\* Pick reads the state under e.mx (isclosing); pick.miss without it = no entry
TrP1 == \/ /\ Ev("isclosing") /\ Adv /\ At("P1") /\ data[ops[G].id] # 0 /\ P1(G)
           /\ Differ(X.st = ent[data[ops[G].id]].st)
        \/ /\ Ev("pick.miss") /\ Adv /\ Agree
           /\ IF At("P1") THEN data[ops[G].id] = 0 /\ P1(G)
              ELSE pc[G] = "done" /\ loc[G].res = "ErrNotExists" /\ UNCHANGED vars

TrA1 == /\ (Ev("add.ok") \/ Ev("add.exists") \/ Ev("add.closed")) /\ Adv /\ Agree /\ A1(G)
        /\ loc'[G].res = (CASE X.ev = "add.ok" -> "ok" [] X.ev = "add.exists" -> "ErrExists" [] OTHER -> "ErrClosed")
        /\ X.ev = "add.ok" => Len(inst') = X.i

(* ------------------------------ Remove / RemoveSame / Close ------------ *)
TrR1 == /\ (Ev("remove.closed") \/ Ev("remove.absent") \/ Ev("remove.found")) /\ Adv /\ Agree /\ R1(G)
        /\ (X.ev = "remove.found") <=> (pc'[G] = "RWL")
        /\ (X.ev = "remove.closed") <=> (pc'[G] = "done" /\ loc'[G].res = "ErrClosed")

TrRS1 == /\ (Ev("removesame.closed") \/ Ev("removesame.same") \/ Ev("removesame.other")) /\ Adv /\ At("RS1")
         /\ LET dec == IF X.ev = "removesame.closed" THEN "closed" ELSE IF X.ev = "removesame.same" THEN "same" ELSE "other" IN
            RS1D(G, dec) /\ Differ(dec = RS1Dec(G))

\* setClosing under e.mx, first time or after a wake-up, with or without waiting
TrSetClosing ==
    /\ (Ev("setclosing.busy") \/ Ev("setclosing.set")) /\ Adv /\ (At("RSC") \/ At("RSCw") \/ At("TSC"))
    /\ LET dec == IF X.ev = "setclosing.busy" THEN "busy" ELSE IF X.st = "closed" THEN "closed" ELSE "take" IN
       /\ Differ(dec = SetClosingDec(G))
       /\ \/ /\ At("RSC") /\ SetClosingWaitD(G, dec) /\ UNCHANGED <<ops, pre, closed, data, inst, canc, panicked, snap>>
          \/ /\ At("RSCw") /\ loc[G].g \in E(G).cg /\ SetClosingWaitD(G, dec)
             /\ UNCHANGED <<ops, pre, closed, data, inst, canc, panicked, snap>>
          \/ /\ At("TSC") /\ TSCD(G, dec)
TrSetClosingCtx == /\ Ev("setclosing.ctx") /\ Adv /\ Agree /\ At("RSCw") /\ canc[G] /\ Kind(G) # "Close"
                   /\ Ret(G, loc[G], "ErrCtx", 0)
                   /\ UNCHANGED <<ops, pre, closed, data, ent, inst, canc, panicked, snap>>

TrRC  == /\ Ev("close.start") /\ Adv /\ Agree /\ At("RC") /\ RC(G) /\ E(G).val = X.i
TrRCe == /\ Ev("close.end") /\ Adv /\ Agree /\ RCe(G)
TrCD  == /\ Ev("setclosed") /\ Adv /\ (At("RCD") \/ At("TCD")) /\ Differ(X.st = E(G).st) /\ (RCD(G) \/ TCD(G))

(* ------------------------------ TryRemove / GC ------------------------- *)
TrT1 == /\ (Ev("tryremove.closed") \/ Ev("tryremove.absent") \/ Ev("tryremove.loading") \/ Ev("tryremove.found"))
        /\ Adv /\ At("T1")
        /\ LET dec == CASE X.ev = "tryremove.closed" -> "closed" [] X.ev = "tryremove.absent" -> "absent"
                         [] X.ev = "tryremove.loading" -> "loading" [] OTHER -> "found" IN
           /\ T1D(G, dec)
           /\ \/ dec = T1Dec(G) /\ Agree
              \* the load channel was still open when TryRemove looked (see ro)
              \/ dec = "loading" /\ T1Dec(G) = "found" /\ data[ops[G].id] \in ro /\ Agree
              \/ dec # T1Dec(G) /\ ~(dec = "loading" /\ T1Dec(G) = "found" /\ data[ops[G].id] \in ro)
                 /\ dec \in {"loading", "found"} /\ T1Dec(G) \in {"loading", "found"} /\ drift' = drift + 1

TrT3 == /\ (Ev("tryclose.yes") \/ Ev("tryclose.no") \/ Ev("tryclose.yesErr") \/ Ev("tryclose.noErr")) /\ Adv /\ Agree
        /\ At("T3") /\ T3(G) /\ E(G).val = X.i
        /\ LET yes == X.ev \in {"tryclose.yes", "tryclose.yesErr"}  err == X.ev \in {"tryclose.yesErr", "tryclose.noErr"} IN
           /\ yes <=> (inst'[X.i].cc # inst[X.i].cc)
           /\ err <=> (loc'[G].lo = "err" \/ loc'[G].res \in {"okErr", "notokErr"})
TrTSA == /\ Ev("setactive") /\ At("TSA") /\ Adv /\ Differ(X.st = E(G).st) /\ TSA(G)

\* GC scans under c.mu: the victims are recorded one by one (their state was read under e.mx
\* a moment earlier, so it is not re-checked here), then the lock is released
TrGCClosed == /\ Ev("gc.closed") /\ Adv /\ Agree /\ At("GC1") /\ closed /\ GC1(G)
TrGCVictim == /\ Ev("gc.victim") /\ Adv /\ Agree /\ At("GC1") /\ data[X.id] # 0
              /\ loc' = [loc EXCEPT ![G].vs = Append(@, data[X.id])]
              /\ UNCHANGED <<ops, pre, closed, data, ent, inst, pc, canc, panicked, snap>>
TrGCScanned == /\ Ev("gc.scanned") /\ Adv /\ Agree /\ At("GC1") /\ ~closed
               /\ Next0(G, loc[G], "ok")
               /\ UNCHANGED <<ops, pre, closed, data, ent, inst, canc, panicked, snap>>

TrCloseClosed == /\ Ev("close.closed") /\ Adv /\ Agree /\ At("C1") /\ closed /\ C1(G)
TrCloseCollect == /\ Ev("close.collect") /\ Adv /\ Agree /\ At("C1") /\ ~closed /\ data[X.id] # 0
                  /\ loc' = [loc EXCEPT ![G].vs = Append(@, data[X.id])]
                  /\ ent' = [ent EXCEPT ![data[X.id]].cd = ent[data[X.id]].cs]
                  /\ UNCHANGED <<ops, pre, closed, data, inst, pc, canc, panicked, snap>>
TrCloseMarked == /\ Ev("close.marked") /\ Adv /\ Agree /\ At("C1") /\ ~closed
                 /\ closed' = TRUE
                 /\ {loc[G].vs[k] : k \in 1..Len(loc[G].vs)} = InMap
                 /\ Next0(G, loc[G], "ok")
                 /\ UNCHANGED <<ops, pre, data, ent, inst, canc, panicked, snap>>

TraceStep == \/ TrReset \/ TrStart \/ TrRet \/ TrCancel
             \/ TrG1 \/ TrGWC \/ TrGWCw \/ TrG3 \/ TrG3r \/ TrG4 \/ TrG4b \/ TrWaitLoad \/ TrP1 \/ TrA1
             \/ TrR1 \/ TrRS1 \/ TrSetClosing \/ TrSetClosingCtx \/ TrRC \/ TrRCe \/ TrCD
             \/ TrT1 \/ TrT3 \/ TrTSA \/ TrGCClosed \/ TrGCVictim \/ TrGCScanned
             \/ TrCloseClosed \/ TrCloseCollect \/ TrCloseMarked
TraceNext == TraceStep /\ RoUpdate
TraceSpec == TraceInit /\ [][TraceNext]_tvars

\* high-water mark; when the whole trace has been consumed remember the smallest drift
Mark == /\ HwMark(l)
        /\ IF l = Len(Trace) + 1 /\ (TLCGet(3) = -1 \/ drift < TLCGet(3)) THEN TLCSet(3, drift) ELSE TRUE
TraceAccepted == /\ HwAccepted(Len(Trace))
                 /\ PrintT(<<"TRACE-DRIFT", TLCGet(3)>>)

=============================================================================
