------------------------------ MODULE OCacheMC ------------------------------
(* Model-checking instances of OCache: constant definitions referenced by the *.cfg files. *)
EXTENDS OCache
AllKinds   == <<"Get", "Pick", "Add", "Remove", "RemoveSame", "TryRemove", "GC", "Close">>
CoreKinds  == <<"Get", "Add", "Remove", "TryRemove", "Close">>
FourKinds  == <<"Get", "Remove", "TryRemove", "Close">>
CloserKinds == <<"Get", "Remove", "RemoveSame", "TryRemove", "Close">>
Ids1       == <<"a">>
Ids2       == <<"a", "b">>
PreBoth    == {"none", "some"}
PreNone    == {"none"}
LoadBoth   == {"val", "err"}
LoadVal    == {"val"}
TryPlain   == {"yes", "no"}
TryAll     == {"yes", "no", "yesErr", "noErr"}
=============================================================================
