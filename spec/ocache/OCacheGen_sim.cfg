SPECIFICATION GenSpec
CONSTANTS
  Ids <- Ids2
  Kinds <- AllKinds
  MinOps = 3
  MaxOps = 4
  PreModes <- PreBoth
  LoadOutcomes <- LoadBoth
  TryVerdicts <- TryAll
  CancelMode = "blocked"
  GCAll = TRUE
  MaxRetries = 3
  FIX_TRYREMOVE_LOADING = TRUE
  FIX_ADD_CLOSED = TRUE
  FIX_TRYREMOVE_ERR = TRUE
  CloseDeadline = TRUE
  BOUND_LOADS = FALSE
  Loose = FALSE
INVARIANT EmitDone
CHECK_DEADLOCK FALSE
