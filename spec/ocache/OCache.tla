------------------------------- MODULE OCache -------------------------------
(***************************************************************************)
(* Object cache of any-sync (app/ocache/ocache.go, entry.go), property C16.*)
(*                                                                         *)
(* The cache is a map id -> *entry protected by c.mu; every entry has its  *)
(* own lock e.mx, a load channel (closed once the load finished) and a     *)
(* close channel that is re-made every time the entry goes to `closing`.   *)
(* Every operation of the API is a process whose steps are exactly the     *)
(* lock sections and blocking points of the code: one action = the code    *)
(* between two `gate:` hooks of the verif build (app/ocache/ocache_verif.go)*)
(* = one c.mu / e.mx critical section, one blocking wait together with the *)
(* section that follows the wake-up, or one harness-owned callback         *)
(* (LoadFunc start / return, Object.Close start / return, TryClose).       *)
(*                                                                         *)
(* Environment choices: outcome of a load (value / error), verdict of      *)
(* TryClose (yes / no, with or without error), cancellation of a caller's  *)
(* context, the set and order of GC victims (expiry, map order) and the    *)
(* order in which Close walks the map.                                     *)
(*                                                                         *)
(* Deviations of the code from the repaired behaviour are switchable:      *)
(*   FIX_TRYREMOVE_LOADING  TryRemove skips an entry whose load has not    *)
(*                          finished / has failed (as-is: nil TryClose)    *)
(*   FIX_ADD_CLOSED         Add on a closed cache returns ErrClosed        *)
(*                          (as-is: inserts, the instance is never closed) *)
(*   FIX_TRYREMOVE_ERR      TryRemove finishes the entry (closeAndDelete / *)
(*                          setActive) also when TryClose returned an error*)
(*                          (as-is: returns, entry stays `closing` forever)*)
(***************************************************************************)
EXTENDS Integers, Sequences, FiniteSets, TLC

CONSTANTS
    Ids,             \* sequence of object ids, e.g. <<"a","b">>
    Kinds,           \* sequence of operation kinds that may occur in a configuration
    MinOps, MaxOps,  \* size of the operation multiset
    PreModes,        \* subset of {"none","some"}: may ids be loaded before the concurrent phase
    LoadOutcomes,    \* subset of {"val","err"}
    TryVerdicts,     \* subset of {"yes","no","yesErr","noErr"}
    CancelMode,      \* "none" | "blocked" (only while the op is blocked or inside loadFunc) | "any" (see Cancel)
    GCAll,           \* TRUE: GC takes every active entry (ttl < 0 in the harness); FALSE: any subset
    MaxRetries,      \* maxLoadRetries of the code (3)
    FIX_TRYREMOVE_LOADING, FIX_ADD_CLOSED, FIX_TRYREMOVE_ERR,
    Loose,           \* FALSE in the design; TRUE only for trace validation (see AfterLoadE)
    CloseDeadline,   \* TRUE: the environment may let Close's deadline (closeTimeout) expire while Close
                     \* waits for a load or for another closer
    BOUND_LOADS      \* deviation, FALSE = the code: Close waits for in-flight loads WITHOUT bound
                     \* (context.Background()); only the wait for another closer is bounded by the
                     \* deadline. TRUE = Close gives up on a loading entry at the deadline, too.

VARIABLES
    ops,       \* the configuration: sequence of [kind, id, arg]; fixed after Init
    pre,       \* the configuration: ids loaded before the concurrent phase; fixed after Init
    closed,    \* c.closed
    data,      \* c.data : id -> entry index, 0 = absent
    ent,       \* all entries ever made (sequence of records)
    inst,      \* all instances ever made (sequence of records)
    pc, loc,   \* per operation: control point and locals
    canc,      \* per operation: its context has been cancelled
    panicked,  \* some operation panicked
    snap       \* history: per lookup, the instances whose removal had completed when it started

vars == <<ops, pre, closed, data, ent, inst, pc, loc, canc, panicked, snap>>

IdSet   == {Ids[k] : k \in 1..Len(Ids)}
KindSet == {Kinds[k] : k \in 1..Len(Kinds)}
NoId    == "-"
IdKinds == {"Get", "Pick", "Add", "Remove", "RemoveSame", "TryRemove"}
CtxKinds == {"Get", "Pick", "Remove", "RemoveSame"}
Ops     == 1..Len(ops)

NewEntry(id, st, val, ld) ==
    [id |-> id, st |-> st, val |-> val, ld |-> ld, err |-> FALSE, ab |-> FALSE,
     gen |-> 0, cg |-> {}, cs |-> FALSE, cd |-> FALSE, gu |-> FALSE]
    \* st: loading/active/closing/closed; val: instance index (0 = nil); ld: load channel closed;
    \* err/ab: loadErr set / loadAborted; gen: number of close channels made (current one = gen,
    \* 0 = nil channel); cg: closed close-channel generations; cs: cancel func set; cd: load ctx cancelled;
    \* gu: cache Close gave up on this entry at its deadline while another closer held it
NewInst(id, st, how) == [id |-> id, st |-> st, cc |-> 0, how |-> how]
    \* st: loading / live / closing / closed / gone (closed and deleted from the map) / failed
NoLoc == [e |-> 0, g |-> 0, i |-> 0, rt |-> 0, ld |-> FALSE, lo |-> "", ab |-> FALSE,
          vs |-> <<>>, res |-> "", rv |-> 0, st |-> FALSE]

Kind(o) == ops[o].kind
E(o)    == ent[loc[o].e]
Gone    == {i \in 1..Len(inst) : inst[i].st = "gone"}

(* ------------------------------ configurations ------------------------- *)
KindIdx(k) == CHOOSE j \in 1..Len(Kinds) : Kinds[j] = k
IdIdx(i)   == IF i = NoId THEN 0 ELSE CHOOSE j \in 1..Len(Ids) : Ids[j] = i
OpTypes == {[kind |-> k, id |-> i] : k \in KindSet \cap IdKinds, i \in IdSet}
             \cup {[kind |-> k, id |-> NoId] : k \in KindSet \ IdKinds}
Leq(s, t) == \/ KindIdx(s.kind) < KindIdx(t.kind)
             \/ KindIdx(s.kind) = KindIdx(t.kind) /\ IdIdx(s.id) <= IdIdx(t.id)
\* multisets = non-decreasing sequences
OpSeqs == UNION {{s \in [1..n -> OpTypes] : \A j \in 1..(n-1) : Leq(s[j], s[j+1])} : n \in MinOps..MaxOps}
PreSets == (IF "none" \in PreModes THEN {{}} ELSE {}) \cup
           (IF "some" \in PreModes THEN (SUBSET IdSet) \ {{}} ELSE {})
\* ids are interchangeable: keep one representative (the first id that occurs is Ids[1])
UsedIds(s, p) == {s[j].id : j \in 1..Len(s)} \cup p
Canonical(s, p) == \A k \in 2..Len(Ids) : Ids[k] \in UsedIds(s, p) => Ids[k-1] \in UsedIds(s, p)

PreSeq(p) == \* preloaded ids in the order of Ids
    LET F[k \in 0..Len(Ids)] ==
          IF k = 0 THEN <<>> ELSE IF Ids[k] \in p THEN Append(F[k-1], Ids[k]) ELSE F[k-1]
    IN F[Len(Ids)]
PreIdx(p, id) == CHOOSE j \in 1..Len(PreSeq(p)) : PreSeq(p)[j] = id

FirstPc(k) == CASE k = "Get" -> "G1" [] k = "Pick" -> "P1" [] k = "Add" -> "A1"
                [] k = "Remove" -> "R1" [] k = "RemoveSame" -> "RS1" [] k = "TryRemove" -> "T1"
                [] k = "GC" -> "GC1" [] k = "Close" -> "C1"

InitWith(s, p) ==
    LET ps == PreSeq(p) IN
    /\ pre = p
    /\ ops = [j \in 1..Len(s) |->
                [kind |-> s[j].kind, id |-> s[j].id,
                 \* RemoveSame is called with the instance its caller obtained before the
                 \* concurrent phase (a preloaded one), or with a foreign object (-1)
                 arg |-> IF s[j].kind = "RemoveSame" /\ s[j].id \in p THEN PreIdx(p, s[j].id)
                         ELSE IF s[j].kind = "RemoveSame" THEN -1 ELSE 0]]
    /\ closed = FALSE
    /\ ent = [j \in 1..Len(ps) |-> NewEntry(ps[j], "active", j, TRUE)]
    /\ inst = [j \in 1..Len(ps) |-> NewInst(ps[j], "live", "load")]
    /\ data = [i \in IdSet |-> IF i \in p THEN PreIdx(p, i) ELSE 0]
    /\ pc = [j \in 1..Len(s) |-> FirstPc(s[j].kind)]
    /\ loc = [j \in 1..Len(s) |-> NoLoc]
    /\ canc = [j \in 1..Len(s) |-> FALSE]
    /\ panicked = FALSE
    /\ snap = [j \in 1..Len(s) |-> {}]

Init == \E s \in OpSeqs, p \in PreSets : Canonical(s, p) /\ InitWith(s, p)

(* ------------------------------ helpers -------------------------------- *)
Goto(o, p)      == pc' = [pc EXCEPT ![o] = p]
SetLoc(o, r)    == loc' = [loc EXCEPT ![o] = r]
\* operation o returns result r (and value v)
Ret(o, l, r, v) == /\ pc' = [pc EXCEPT ![o] = "done"]
                   /\ loc' = [loc EXCEPT ![o] = [NoLoc EXCEPT !.res = r, !.rv = v, !.st = l.st]]
Panic(o)        == /\ pc' = [pc EXCEPT ![o] = "panic"] /\ panicked' = TRUE
                   /\ UNCHANGED <<ops, pre, closed, data, ent, inst, loc, canc, snap>>
Started(o)      == snap' = IF loc[o].st THEN snap ELSE [snap EXCEPT ![o] = Gone]

\* Close / GC walk a list of entries; other operations return
Next0(o, l, r) ==
    IF Kind(o) \in {"Close", "GC"}
    THEN IF l.vs = <<>> THEN Ret(o, l, "ok", 0)
         ELSE /\ SetLoc(o, [l EXCEPT !.e = Head(l.vs), !.vs = Tail(l.vs), !.g = 0, !.lo = ""])
              /\ Goto(o, IF Kind(o) = "Close" THEN "RWL" ELSE "TSC")
    ELSE Ret(o, l, r, 0)

\* all orderings of a finite set of entry indices
Perms(S) == {s \in [1..Cardinality(S) -> S] : \A a, b \in 1..Cardinality(S) : a # b => s[a] # s[b]}

InMap == {data[i] : i \in IdSet} \ {0}

\* A select with both the channel ready and the context done may take either branch; in
\* "blocked" mode (used to generate replayable schedules) a cancelled context wins.
ChanOK(o) == CancelMode # "blocked" \/ ~canc[o]

(* ------------------------------ Get ------------------------------------ *)
\* c.mu: closed? lookup, or insert a loading placeholder (single flight).
\* The decision the code takes is a parameter so that trace validation can follow the decision
\* the implementation took (and let the invariants judge its consequences).
G1Dec(o) == IF closed THEN "closed" ELSE IF data[ops[o].id] # 0 THEN "hit" ELSE "miss"
G1D(o, dec) ==
    /\ pc[o] = "G1" /\ Started(o)
    /\ LET id == ops[o].id  l == [loc[o] EXCEPT !.st = TRUE] IN
       CASE dec = "closed" -> Ret(o, l, "ErrClosed", 0) /\ UNCHANGED <<data, ent>>
         [] dec = "hit" -> /\ data[id] # 0
                           /\ SetLoc(o, [l EXCEPT !.e = data[id], !.ld = FALSE]) /\ Goto(o, "GWC")
                           /\ UNCHANGED <<data, ent>>
         [] dec = "miss" -> /\ ent' = Append(ent, NewEntry(id, "loading", 0, FALSE))
                            /\ data' = [data EXCEPT ![id] = Len(ent) + 1]
                            /\ SetLoc(o, [l EXCEPT !.e = Len(ent) + 1, !.ld = TRUE]) /\ Goto(o, "GWC")
    /\ UNCHANGED <<ops, pre, closed, inst, canc, panicked>>
G1(o) == G1D(o, G1Dec(o))

\* waitClose, e.mx: closing -> remember the channel and wait; closed -> retry; else go on:
\* the loader derives the load context and stores its cancel func (setCancel, e.mx) before
\* it enters LoadFunc; a waiter goes to waitLoad
GWC(o) ==
    /\ pc[o] = "GWC"
    /\ CASE E(o).st = "closing" -> SetLoc(o, [loc[o] EXCEPT !.g = E(o).gen]) /\ Goto(o, "GWCw") /\ UNCHANGED ent
         [] E(o).st = "closed"  -> Goto(o, "G1") /\ SetLoc(o, [loc[o] EXCEPT !.e = 0]) /\ UNCHANGED ent
         [] OTHER -> /\ Goto(o, IF loc[o].ld THEN "G3" ELSE "GWL") /\ UNCHANGED loc
                     /\ ent' = IF loc[o].ld THEN [ent EXCEPT ![loc[o].e].cs = TRUE] ELSE ent
    /\ UNCHANGED <<ops, pre, closed, data, inst, canc, panicked, snap>>

\* blocked on the close channel observed in GWC
GWCw(o) ==
    /\ pc[o] = "GWCw"
    /\ \/ /\ loc[o].g \in E(o).cg /\ ChanOK(o) /\ Goto(o, "G1") /\ SetLoc(o, [loc[o] EXCEPT !.g = 0, !.e = 0])
       \/ /\ canc[o] /\ Ret(o, loc[o], "ErrCtx", 0)
    /\ UNCHANGED <<ops, pre, closed, data, ent, inst, canc, panicked, snap>>

\* loader: LoadFunc is entered -> a new instance starts loading
G3(o) ==
    /\ pc[o] = "G3"
    /\ inst' = Append(inst, NewInst(ops[o].id, "loading", "load"))
    /\ SetLoc(o, [loc[o] EXCEPT !.i = Len(inst) + 1]) /\ Goto(o, "G3r")
    /\ UNCHANGED <<ops, pre, closed, data, ent, canc, panicked, snap>>

\* LoadFunc returns a value or an error; aborted = the load's context is done
G3r(o) ==
    /\ pc[o] = "G3r"
    /\ \E out \in LoadOutcomes :
         /\ inst' = [inst EXCEPT ![loc[o].i].st = IF out = "val" THEN "live" ELSE "failed"]
         /\ SetLoc(o, [loc[o] EXCEPT !.lo = out, !.ab = (canc[o] \/ E(o).cd)])
    /\ Goto(o, "G4")
    /\ UNCHANGED <<ops, pre, closed, data, ent, canc, panicked, snap>>

\* c.mu: publish value and state := active (unconditionally), or record the error and delete
G4D(o, aborted) ==
    /\ pc[o] = "G4"
    /\ IF loc[o].lo = "err"
       THEN /\ ent' = [ent EXCEPT ![loc[o].e].err = TRUE, ![loc[o].e].ab = aborted]
            /\ data' = [data EXCEPT ![ops[o].id] = 0]
       ELSE /\ ent' = [ent EXCEPT ![loc[o].e].val = loc[o].i, ![loc[o].e].st = "active"]
            /\ UNCHANGED data
    /\ Goto(o, "G4b") /\ SetLoc(o, [loc[o] EXCEPT !.lo = "", !.ab = FALSE, !.i = 0])
    /\ UNCHANGED <<ops, pre, closed, inst, canc, panicked, snap>>

G4(o) == G4D(o, loc[o].ab)

\* what Get does with (value, err) of a finished load: retry an aborted load, else return
\* (Loose: Get reads ctx.Err() some time after the wake-up, so a recorded trace does not tell
\* whether a concurrent cancellation was seen; both outcomes are admitted there)
AfterLoadE(o, l, e) ==
    LET may == e.err /\ e.ab /\ l.rt < MaxRetries IN
    \/ /\ may /\ (Loose \/ ~canc[o])
       /\ SetLoc(o, [l EXCEPT !.rt = l.rt + 1, !.e = 0, !.ld = FALSE]) /\ Goto(o, "G1")
    \/ /\ IF Loose THEN TRUE ELSE ~(may /\ ~canc[o])
       /\ Ret(o, l, IF e.err THEN "ErrLoad" ELSE "ok", e.val)
AfterLoad(o, l) == AfterLoadE(o, l, ent[l.e])

\* close(e.load) (deferred), then Get evaluates the result
G4b(o) ==
    /\ pc[o] = "G4b"
    /\ IF E(o).ld THEN Panic(o)
       ELSE /\ ent' = [ent EXCEPT ![loc[o].e].ld = TRUE]
            /\ AfterLoadE(o, loc[o], E(o))
            /\ UNCHANGED <<ops, pre, closed, data, inst, canc, panicked, snap>>

\* waiter: waitLoad
GWL(o) ==
    /\ pc[o] = "GWL"
    /\ \/ E(o).ld /\ ChanOK(o) /\ AfterLoad(o, loc[o])
       \/ canc[o] /\ Ret(o, loc[o], "ErrCtx", 0)
    /\ UNCHANGED <<ops, pre, closed, data, ent, inst, canc, panicked, snap>>

(* ------------------------------ Pick ----------------------------------- *)
P1(o) ==
    /\ pc[o] = "P1" /\ Started(o)
    /\ LET id == ops[o].id  l == [loc[o] EXCEPT !.st = TRUE] IN
       IF data[id] = 0 \/ ent[data[id]].st \in {"closing", "closed"}
       THEN Ret(o, l, "ErrNotExists", 0)
       ELSE SetLoc(o, [l EXCEPT !.e = data[id]]) /\ Goto(o, "PWL")
    /\ UNCHANGED <<ops, pre, closed, data, ent, inst, canc, panicked>>

PWL(o) ==
    /\ pc[o] = "PWL"
    /\ \/ E(o).ld /\ ChanOK(o) /\ Ret(o, loc[o], IF E(o).err THEN "ErrLoad" ELSE "ok", E(o).val)
       \/ canc[o] /\ Ret(o, loc[o], "ErrCtx", 0)
    /\ UNCHANGED <<ops, pre, closed, data, ent, inst, canc, panicked, snap>>

(* ------------------------------ Add ------------------------------------ *)
A1(o) ==
    /\ pc[o] = "A1"
    /\ LET id == ops[o].id IN
       IF FIX_ADD_CLOSED /\ closed THEN Ret(o, loc[o], "ErrClosed", 0) /\ UNCHANGED <<data, ent, inst>>
       ELSE IF data[id] # 0 THEN Ret(o, loc[o], "ErrExists", 0) /\ UNCHANGED <<data, ent, inst>>
       ELSE /\ inst' = Append(inst, NewInst(id, "live", "add"))
            /\ ent' = Append(ent, NewEntry(id, "active", Len(inst) + 1, TRUE))
            /\ data' = [data EXCEPT ![id] = Len(ent) + 1]
            /\ Ret(o, [loc[o] EXCEPT !.i = Len(inst) + 1], "ok", 0)
    /\ UNCHANGED <<ops, pre, closed, canc, panicked, snap>>

(* ------------------------------ Remove / RemoveSame / Close: removeCtx -- *)
R1(o) ==
    /\ pc[o] = "R1"
    /\ LET id == ops[o].id IN
       IF closed THEN Ret(o, loc[o], "ErrClosed", 0)
       ELSE IF data[id] = 0 THEN Ret(o, loc[o], "ErrNotExists", 0)
       ELSE SetLoc(o, [loc[o] EXCEPT !.e = data[id]]) /\ Goto(o, "RWL")
    /\ UNCHANGED <<ops, pre, closed, data, ent, inst, canc, panicked, snap>>

\* identity test under c.mu: the stored value must be exactly the given one
RS1Dec(o) == IF closed THEN "closed"
             ELSE IF data[ops[o].id] # 0 /\ ent[data[ops[o].id]].val = ops[o].arg THEN "same" ELSE "other"
RS1D(o, dec) ==
    /\ pc[o] = "RS1"
    /\ LET id == ops[o].id IN
       CASE dec = "closed" -> Ret(o, loc[o], "ErrClosed", 0)
         [] dec = "same"   -> data[id] # 0 /\ SetLoc(o, [loc[o] EXCEPT !.e = data[id]]) /\ Goto(o, "RWL")
         [] dec = "other"  -> Ret(o, loc[o], "ErrNotExists", 0)
    /\ UNCHANGED <<ops, pre, closed, data, ent, inst, canc, panicked, snap>>

RS1(o) == RS1D(o, RS1Dec(o))

\* waitLoad of removeCtx (Close waits with a background context)
RWL(o) ==
    /\ pc[o] = "RWL"
    /\ \/ /\ E(o).ld /\ (ChanOK(o) \/ (Kind(o) = "Close" /\ ~BOUND_LOADS))
          /\ IF E(o).err THEN Next0(o, loc[o], "ErrLoad") ELSE Goto(o, "RSC") /\ UNCHANGED loc
       \/ /\ canc[o] /\ Kind(o) # "Close" /\ Ret(o, loc[o], "ErrCtx", 0)
       \* (deviation) Close's deadline also bounds the wait for a load: the entry is skipped
       \/ /\ canc[o] /\ Kind(o) = "Close" /\ BOUND_LOADS /\ Next0(o, loc[o], "ok")
    /\ UNCHANGED <<ops, pre, closed, data, ent, inst, canc, panicked, snap>>

\* the e.mx section of setClosing(wait = TRUE): loop while closing, else take the entry
SetClosingDec(o) == IF E(o).st = "closing" THEN "busy" ELSE IF E(o).st = "closed" THEN "closed" ELSE "take"
SetClosingWaitD(o, dec) ==
    CASE dec = "busy" ->
           /\ SetLoc(o, [loc[o] EXCEPT !.g = E(o).gen]) /\ Goto(o, "RSCw") /\ UNCHANGED ent
      [] dec = "closed" -> Next0(o, loc[o], "notok") /\ UNCHANGED ent
      [] dec = "take" -> /\ ent' = [ent EXCEPT ![loc[o].e].st = "closing", ![loc[o].e].gen = @ + 1]
                         /\ Goto(o, "RC") /\ SetLoc(o, [loc[o] EXCEPT !.g = 0])
SetClosingWait(o) == SetClosingWaitD(o, SetClosingDec(o))

RSC(o) ==
    /\ pc[o] = "RSC" /\ SetClosingWait(o)
    /\ UNCHANGED <<ops, pre, closed, data, inst, canc, panicked, snap>>

\* blocked on the close channel of another closer; after the wake-up the loop re-checks under e.mx
\* Close's closing context is bounded by closeTimeout: when the deadline has expired (canc of the
\* Close operation) Close logs the error, gives up on this entry and goes on with the next one
RSCw(o) ==
    /\ pc[o] = "RSCw"
    /\ \/ loc[o].g \in E(o).cg /\ ChanOK(o) /\ SetClosingWait(o)
       \/ canc[o] /\ Kind(o) # "Close" /\ Ret(o, loc[o], "ErrCtx", 0) /\ UNCHANGED ent
       \/ /\ canc[o] /\ Kind(o) = "Close" /\ Next0(o, loc[o], "ok")
          /\ ent' = [ent EXCEPT ![loc[o].e].gu = TRUE]
    /\ UNCHANGED <<ops, pre, closed, data, inst, canc, panicked, snap>>

\* Object.Close is entered
RC(o) ==
    /\ pc[o] = "RC"
    /\ IF E(o).val = 0 THEN Panic(o)
       ELSE /\ inst' = [inst EXCEPT ![E(o).val].cc = @ + 1,
                                    ![E(o).val].st = IF @ = "live" THEN "closing" ELSE @]
            /\ Goto(o, "RCe")
            /\ UNCHANGED <<ops, pre, closed, data, ent, loc, canc, panicked, snap>>

\* Object.Close returns
RCe(o) ==
    /\ pc[o] = "RCe"
    /\ inst' = [inst EXCEPT ![E(o).val].st = IF @ = "closing" THEN "closed" ELSE @]
    /\ Goto(o, "RCD")
    /\ UNCHANGED <<ops, pre, closed, data, ent, loc, canc, panicked, snap>>

\* closeAndDelete, c.mu (+ e.mx in setClosed): close(e.close) panics on a nil / closed channel
CloseAndDelete(o, r) ==
    IF E(o).gen = 0 \/ E(o).gen \in E(o).cg THEN Panic(o)
    ELSE /\ ent' = [ent EXCEPT ![loc[o].e].st = "closed", ![loc[o].e].cg = @ \cup {E(o).gen}]
         /\ data' = [data EXCEPT ![E(o).id] = 0]          \* delete(c.data, e.id): whatever is there
         /\ inst' = IF E(o).val # 0 /\ inst[E(o).val].st = "closed"
                    THEN [inst EXCEPT ![E(o).val].st = "gone"] ELSE inst
         /\ Next0(o, loc[o], r)
         /\ UNCHANGED <<ops, pre, closed, canc, panicked, snap>>

RCD(o) == pc[o] = "RCD" /\ CloseAndDelete(o, "ok")

(* ------------------------------ TryRemove / GC victims ------------------ *)
\* c.mu: closed? lookup; repaired: an entry whose load channel is still open has no value to
\* try-close yet (busy)
T1Dec(o) == IF closed THEN "closed" ELSE IF data[ops[o].id] = 0 THEN "absent"
            ELSE IF FIX_TRYREMOVE_LOADING /\ ~ent[data[ops[o].id]].ld THEN "loading" ELSE "found"
T1D(o, dec) ==
    /\ pc[o] = "T1"
    /\ LET id == ops[o].id IN
       CASE dec = "closed"  -> Ret(o, loc[o], "ErrClosed", 0)
         [] dec = "absent"  -> Ret(o, loc[o], "ErrNotExists", 0)
         [] dec = "loading" -> Ret(o, loc[o], "notok", 0)
         [] dec = "found"   -> data[id] # 0 /\ SetLoc(o, [loc[o] EXCEPT !.e = data[id]]) /\ Goto(o, "TSC")
    /\ UNCHANGED <<ops, pre, closed, data, ent, inst, canc, panicked, snap>>

T1(o) == T1D(o, T1Dec(o))

\* setClosing(wait = FALSE), e.mx: somebody else closes it -> give up; else take the entry and
\* call e.value.TryClose - on a nil value (as-is: the load has not published yet) that call panics
TSCD(o, dec) ==
    /\ pc[o] = "TSC"
    /\ IF dec \in {"busy", "closed"}
       THEN Next0(o, loc[o], "notok") /\ UNCHANGED <<ent, panicked>>
       ELSE /\ ent' = [ent EXCEPT ![loc[o].e].st = "closing", ![loc[o].e].gen = @ + 1]
            /\ IF E(o).val = 0 THEN Goto(o, "panic") /\ panicked' = TRUE
               ELSE Goto(o, "T3") /\ UNCHANGED panicked
            /\ UNCHANGED loc
    /\ UNCHANGED <<ops, pre, closed, data, inst, canc, snap>>

TSC(o) == TSCD(o, SetClosingDec(o))

\* Object.TryClose: nil value -> panic; the object decides (and may report an error)
T3(o) ==
    /\ pc[o] = "T3"
    /\ IF E(o).val = 0 THEN Panic(o)
       ELSE /\ \E v \in TryVerdicts :
                 LET yes == v \in {"yes", "yesErr"}   err == v \in {"yesErr", "noErr"} IN
                 /\ inst' = IF yes THEN [inst EXCEPT ![E(o).val].cc = @ + 1,
                                                     ![E(o).val].st = IF @ = "live" THEN "closed" ELSE @]
                            ELSE inst
                 /\ IF err /\ Kind(o) = "TryRemove" /\ ~FIX_TRYREMOVE_ERR
                    THEN Ret(o, loc[o], IF yes THEN "okErr" ELSE "notokErr", 0)   \* entry stays closing
                    ELSE Goto(o, IF yes THEN "TCD" ELSE "TSA")
                         /\ SetLoc(o, [loc[o] EXCEPT !.lo = IF err THEN "err" ELSE ""])
            /\ UNCHANGED <<ops, pre, closed, data, ent, canc, panicked, snap>>

\* setActive(true), e.mx: close(e.close), state := active
TSA(o) ==
    /\ pc[o] = "TSA"
    /\ IF E(o).gen = 0 \/ E(o).gen \in E(o).cg THEN Panic(o)
       ELSE /\ ent' = [ent EXCEPT ![loc[o].e].st = "active", ![loc[o].e].cg = @ \cup {E(o).gen}]
            /\ Next0(o, loc[o], IF loc[o].lo = "err" THEN "notokErr" ELSE "notok")
            /\ UNCHANGED <<ops, pre, closed, data, inst, canc, panicked, snap>>

TCD(o) == pc[o] = "TCD" /\ CloseAndDelete(o, IF loc[o].lo = "err" THEN "okErr" ELSE "ok")

\* GC, c.mu: the expired active entries, in map order
GC1(o) ==
    /\ pc[o] = "GC1"
    /\ IF closed THEN Ret(o, loc[o], "ok", 0)
       ELSE LET act == {e \in InMap : ent[e].st = "active"} IN
            \E S \in (IF GCAll THEN {act} ELSE SUBSET act) : \E s \in Perms(S) :
                Next0(o, [loc[o] EXCEPT !.vs = s], "ok")
    /\ UNCHANGED <<ops, pre, closed, data, ent, inst, canc, panicked, snap>>

(* ------------------------------ Close ---------------------------------- *)
\* c.mu: closed := TRUE, cancel the running loads, collect every entry (map order)
C1(o) ==
    /\ pc[o] = "C1"
    /\ IF closed THEN Ret(o, loc[o], "ErrClosed", 0) /\ UNCHANGED <<closed, ent>>
       ELSE /\ closed' = TRUE
            /\ ent' = [e \in 1..Len(ent) |-> IF e \in InMap /\ ent[e].cs THEN [ent[e] EXCEPT !.cd = TRUE] ELSE ent[e]]
            /\ \E s \in Perms(InMap) : Next0(o, [loc[o] EXCEPT !.vs = s], "ok")
    /\ UNCHANGED <<ops, pre, data, inst, canc, panicked, snap>>

(* ------------------------------ environment: cancellation -------------- *)
Blocked(o) ==
    \/ pc[o] = "GWCw" /\ loc[o].g \notin E(o).cg
    \/ pc[o] \in {"GWL", "PWL", "RWL"} /\ ~E(o).ld
    \/ pc[o] = "RSCw" /\ loc[o].g \notin E(o).cg
    \/ pc[o] = "G3r"

\* A context is observed only at the waits, by the load (aborted?) and by Get's retry test, so
\* "any time" is represented by cancelling at the latest when such a point has been reached.
Observes(o) == pc[o] \in {"GWCw", "GWL", "PWL", "RWL", "RSCw", "G3r", "G4b"}

\* For cache Close the "context" is its own deadline (context.WithTimeout(closeTimeout), made after
\* the c.mu section): the environment lets it expire while Close waits for a load or another closer.
Cancel(o) ==
    /\ CancelMode # "none" /\ ~canc[o] /\ Observes(o)
    /\ Kind(o) \in CtxKinds \/ (CloseDeadline /\ Kind(o) = "Close" /\ pc[o] \in {"RWL", "RSCw"})
    /\ CancelMode = "blocked" => Blocked(o)
    /\ canc' = [canc EXCEPT ![o] = TRUE]
    /\ UNCHANGED <<ops, pre, closed, data, ent, inst, pc, loc, panicked, snap>>

(* ------------------------------ next-state ----------------------------- *)
GetLookup == \E o \in Ops : G1(o)
GetWaitClose == \E o \in Ops : GWC(o)
GetWaitCloseWoken == \E o \in Ops : GWCw(o)
LoadStart == \E o \in Ops : G3(o)
LoadReturn == \E o \in Ops : G3r(o)
LoadPublish == \E o \in Ops : G4(o)
LoadChanClose == \E o \in Ops : G4b(o)
GetWaitLoad == \E o \in Ops : GWL(o)
PickLookup == \E o \in Ops : P1(o)
PickWaitLoad == \E o \in Ops : PWL(o)
AddInsert == \E o \in Ops : A1(o)
RemoveLookup == \E o \in Ops : R1(o)
RemoveSameLookup == \E o \in Ops : RS1(o)
RemoveWaitLoad == \E o \in Ops : RWL(o)
RemoveSetClosing == \E o \in Ops : RSC(o)
RemoveSetClosingWoken == \E o \in Ops : RSCw(o)
ObjCloseStart == \E o \in Ops : RC(o)
ObjCloseEnd == \E o \in Ops : RCe(o)
RemoveCloseAndDelete == \E o \in Ops : RCD(o)
TryRemoveLookup == \E o \in Ops : T1(o)
TrySetClosing == \E o \in Ops : TSC(o)
ObjTryClose == \E o \in Ops : T3(o)
TryRevertActive == \E o \in Ops : TSA(o)
TryCloseAndDelete == \E o \in Ops : TCD(o)
GCScan == \E o \in Ops : GC1(o)
CloseMark == \E o \in Ops : C1(o)
CancelCtx == \E o \in Ops : Cancel(o)

Progress    == \/ GetLookup
               \/ GetWaitClose
               \/ GetWaitCloseWoken
               \/ LoadStart
               \/ LoadReturn
               \/ LoadPublish
               \/ LoadChanClose
               \/ GetWaitLoad
               \/ PickLookup
               \/ PickWaitLoad
               \/ AddInsert
               \/ RemoveLookup
               \/ RemoveSameLookup
               \/ RemoveWaitLoad
               \/ RemoveSetClosing
               \/ RemoveSetClosingWoken
               \/ ObjCloseStart
               \/ ObjCloseEnd
               \/ RemoveCloseAndDelete
               \/ TryRemoveLookup
               \/ TrySetClosing
               \/ ObjTryClose
               \/ TryRevertActive
               \/ TryCloseAndDelete
               \/ GCScan
               \/ CloseMark
AllFinished == \A o \in Ops : pc[o] \in {"done", "panic"}
Terminated  == AllFinished /\ UNCHANGED vars
Next == \/ GetLookup
        \/ GetWaitClose
        \/ GetWaitCloseWoken
        \/ LoadStart
        \/ LoadReturn
        \/ LoadPublish
        \/ LoadChanClose
        \/ GetWaitLoad
        \/ PickLookup
        \/ PickWaitLoad
        \/ AddInsert
        \/ RemoveLookup
        \/ RemoveSameLookup
        \/ RemoveWaitLoad
        \/ RemoveSetClosing
        \/ RemoveSetClosingWoken
        \/ ObjCloseStart
        \/ ObjCloseEnd
        \/ RemoveCloseAndDelete
        \/ TryRemoveLookup
        \/ TrySetClosing
        \/ ObjTryClose
        \/ TryRevertActive
        \/ TryCloseAndDelete
        \/ GCScan
        \/ CloseMark
        \/ CancelCtx \/ Terminated
Spec == Init /\ [][Next]_vars /\ WF_vars(Progress)

(* ------------------------------ properties ----------------------------- *)
TypeOK == /\ closed \in BOOLEAN /\ panicked \in BOOLEAN
          /\ \A i \in IdSet : data[i] \in 0..Len(ent)
          /\ \A e \in 1..Len(ent) : ent[e].st \in {"loading", "active", "closing", "closed"}
          /\ \A i \in 1..Len(inst) : inst[i].st \in {"loading", "live", "closing", "closed", "gone", "failed"}

Open(i) == inst[i].st \in {"loading", "live", "closing"}

\* at most one instance per id is loading / live / being closed: a load (or Add) for an id
\* starts only after the Close of the previous instance returned
AtMostOneLive == \A id \in IdSet : Cardinality({i \in 1..Len(inst) : inst[i].id = id /\ Open(i)}) <= 1

\* a lookup that returned successfully hands out an instance whose load had finished
HandedOutLoaded == \A o \in Ops : (Kind(o) \in {"Get", "Pick"} /\ pc[o] = "done" /\ loc[o].res = "ok")
                                   => (loc[o].rv # 0 /\ inst[loc[o].rv].st \notin {"loading", "failed"})

NoDoubleClose == \A i \in 1..Len(inst) : inst[i].cc <= 1

\* once Close has returned nothing is open (an operation that overlaps Close may still be
\* running, but it cannot hold or create an open instance)
\* Exception the code makes on purpose (comment in Close): an entry another closer holds when the
\* deadline expires is given up - what becomes of its instance is then up to that closer.
GivenUp(i) == \E e \in 1..Len(ent) : ent[e].val = i /\ ent[e].gu
NoneOpenAfterShutdown ==
    \A o \in Ops : (Kind(o) = "Close" /\ pc[o] = "done" /\ loc[o].res = "ok")
                    => \A i \in 1..Len(inst) : ~Open(i) \/ GivenUp(i)

\* a lookup that started after a removal completed never returns the removed instance
NoStaleAfterRemove == \A o \in Ops : (Kind(o) \in {"Get", "Pick"} /\ pc[o] = "done" /\ loc[o].res = "ok")
                                      => loc[o].rv \notin snap[o]

\* RemoveSame never closes an instance other than the one it was given
RemoveSameIdentity == \A o \in Ops : (Kind(o) = "RemoveSame" /\ pc[o] \in {"RC", "RCe", "RCD"})
                                      => E(o).val = ops[o].arg

\* an instance that is in the map and active is open; a closed/gone instance is not reachable
ActiveIsOpen == \A id \in IdSet : (data[id] # 0 /\ ent[data[id]].st = "active")
                                   => (ent[data[id]].val # 0 /\ inst[ent[data[id]].val].st = "live")

NoPanic == ~panicked

\* no operation blocks forever: whenever something is unfinished, some operation can take a
\* step without anybody's context being cancelled (loads / closes / try-closes always return)
WaitBlocked(o) == /\ \/ pc[o] \in {"GWCw", "RSCw"} /\ loc[o].g \notin E(o).cg
                     \/ pc[o] \in {"GWL", "PWL", "RWL"} /\ ~E(o).ld
                  /\ ~(canc[o] /\ (Kind(o) # "Close" \/ pc[o] = "RSCw" \/ BOUND_LOADS))
NoStuck == AllFinished \/ \E o \in Ops : pc[o] \notin {"done", "panic"} /\ ~WaitBlocked(o)
\* the same, by definition (slow; checked in the small configuration only)
NoStuckDef == NoStuck <=> (AllFinished \/ ENABLED Progress)

InvSafe == TypeOK /\ AtMostOneLive /\ HandedOutLoaded /\ NoDoubleClose /\ NoneOpenAfterShutdown
           /\ NoStaleAfterRemove /\ RemoveSameIdentity /\ ActiveIsOpen /\ NoPanic
Inv == InvSafe /\ NoStuck

Termination == <>[]AllFinished
=============================================================================
