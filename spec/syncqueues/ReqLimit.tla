------------------------------ MODULE ReqLimit ------------------------------
(* X02 - incoming request limiting of commonspace/sync (util/syncqueues/limit.go, guard.go and the   *)
(* gate sequence of requestManager.HandleStreamRequest).                                              *)
(*                                                                                                    *)
(* Part 1 (this module): syncqueues.Limit transcribed statement by statement. The limiter hands out   *)
(* per-peer tokens; the per-peer allowance PeerStep[counter] shrinks as the total number of tokens    *)
(* in use crosses TotalStep[counter] (NewLimit appends a copy of the last total step, so              *)
(* Len(TotalStep) = Len(PeerStep)). Excluded ids (the responsible nodes) have a fixed allowance.      *)
(* Indices are 1-based here, 0-based in the code.                                                     *)
EXTENDS Naturals, Sequences, FiniteSets, TLC

CONSTANTS Peers,        \* all ids
          Excluded,     \* subset of Peers with the fixed allowance ExLimit
          PeerStep,     \* descending sequence of per-peer allowances (as sorted by NewLimit)
          TotalStep,    \* ascending sequence of totals, last element duplicated (as built by NewLimit)
          ExLimit

ASSUME /\ Excluded \subseteq Peers
       /\ Len(PeerStep) = Len(TotalStep)
       /\ Len(PeerStep) >= 2

VARIABLES tokens,   \* [Peers -> Nat]   l.tokens
          total,    \* l.total          (tokens of non-excluded ids)
          exTotal,  \* l.excludedTotal
          counter,  \* l.counter + 1
          last      \* output of the last call (observation only)

vars == <<tokens, total, exTotal, counter, last>>
N == Len(TotalStep)

Init == /\ tokens = [p \in Peers |-> 0]
        /\ total = 0 /\ exTotal = 0 /\ counter = 1
        /\ last = [op |-> "init", p |-> "", res |-> TRUE]

(* func (l *Limit) Take(id string) bool *)
Take(p) ==
    IF p \in Excluded THEN
        IF tokens[p] >= ExLimit
        THEN /\ last' = [op |-> "take", p |-> p, res |-> FALSE]
             /\ UNCHANGED <<tokens, total, exTotal, counter>>
        ELSE /\ tokens' = [tokens EXCEPT ![p] = @ + 1]
             /\ exTotal' = exTotal + 1
             /\ last' = [op |-> "take", p |-> p, res |-> TRUE]
             /\ UNCHANGED <<total, counter>>
    ELSE
        IF tokens[p] >= PeerStep[counter]
        THEN /\ last' = [op |-> "take", p |-> p, res |-> FALSE]
             /\ UNCHANGED <<tokens, total, exTotal, counter>>
        ELSE /\ tokens' = [tokens EXCEPT ![p] = @ + 1]
             /\ total' = total + 1
             /\ counter' = IF total + 1 >= TotalStep[counter] /\ counter < N THEN counter + 1 ELSE counter
             /\ last' = [op |-> "take", p |-> p, res |-> TRUE]
             /\ UNCHANGED exTotal

(* func (l *Limit) Release(id string) *)
Release(p) ==
    IF tokens[p] = 0
    THEN /\ last' = [op |-> "release", p |-> p, res |-> FALSE]    \* no-op
         /\ UNCHANGED <<tokens, total, exTotal, counter>>
    ELSE /\ tokens' = [tokens EXCEPT ![p] = @ - 1]
         /\ last' = [op |-> "release", p |-> p, res |-> TRUE]
         /\ IF p \in Excluded
            THEN exTotal' = exTotal - 1 /\ UNCHANGED <<total, counter>>
            ELSE /\ total' = total - 1
                 /\ UNCHANGED exTotal
                 /\ counter' = IF total - 1 < TotalStep[counter]
                               THEN LET c1 == IF counter = N THEN counter - 1 ELSE counter
                                    IN  IF c1 > 1 THEN c1 - 1 ELSE c1
                               ELSE counter

Next == \E p \in Peers : Take(p) \/ Release(p)
Spec == Init /\ [][Next]_vars

-----------------------------------------------------------------------------
RECURSIVE SumOver(_, _)
SumOver(f, S) == IF S = {} THEN 0 ELSE LET x == CHOOSE x \in S : TRUE IN f[x] + SumOver(f, S \ {x})

TypeOK == /\ tokens \in [Peers -> Nat] /\ total \in Nat /\ exTotal \in Nat
CounterInRange == counter \in 1..N                      \* no index out of range in peerStep / totalStep
TotalIsSum == /\ total = SumOver(tokens, Peers \ Excluded)
              /\ exTotal = SumOver(tokens, Excluded)
PeerBound == \A p \in Peers : tokens[p] <= IF p \in Excluded THEN ExLimit ELSE PeerStep[1]
\* nobody is locked out: an id holding nothing is always granted a token (every allowance is >= 1)
IdleAdmitted == \A p \in Peers : tokens[p] = 0 =>
                    IF p \in Excluded THEN ExLimit > 0 ELSE tokens[p] < PeerStep[counter]
\* the allowance relaxes again: with nothing in use the limiter is back at its most generous level
QuiescentIsInitial == total = 0 => counter = 1
\* a failed Take and a Release of nothing change nothing
NoOpOnRefusal == [][last'.res = FALSE => UNCHANGED <<tokens, total, exTotal, counter>>]_vars
\* excluded ids neither consume nor are affected by the shared budget
ExcludedIsolated == [][\A p \in Excluded : (last'.p = p) => UNCHANGED <<total, counter>>]_vars
=============================================================================
