SPECIFICATION Spec
CONSTANTS Peers = {"p1","p2","p3","n1"}
 Excluded = {"n1"}
 PeerStep <- PS_c
 TotalStep <- TS_c
 ExLimit = 3
INVARIANTS TypeOK CounterInRange TotalIsSum PeerBound IdleAdmitted QuiescentIsInitial
PROPERTIES NoOpOnRefusal ExcludedIsolated
VIEW View
CHECK_DEADLOCK FALSE
