SPECIFICATION SpecEmit
CONSTANTS Peers = {"p1","p2","p3","n1"}
 Excluded = {"n1"}
 PeerStep <- PS_c
 TotalStep <- TS_c
 ExLimit = 3
VIEW View
CHECK_DEADLOCK FALSE
