SPECIFICATION SpecEmit
CONSTANTS Peers = {"p1","p2","p3"}
 Excluded = {}
 PeerStep <- PS_b
 TotalStep <- TS_b
 ExLimit = 1
VIEW View
CHECK_DEADLOCK FALSE
