SPECIFICATION Spec
CONSTANTS Peers = {"p1","p2","n1"}
 Excluded = {"n1"}
 PeerStep <- PS_a
 TotalStep <- TS_a
 ExLimit = 2
INVARIANTS TypeOK CounterInRange TotalIsSum PeerBound IdleAdmitted QuiescentIsInitial
PROPERTIES NoOpOnRefusal ExcludedIsolated
VIEW View
CHECK_DEADLOCK FALSE
