SPECIFICATION GSpec
CONSTANTS Peers = {"p1","p2","n1"}
 Excluded = {"n1"}
 PeerStep <- PS_g
 TotalStep <- TS_g
 ExLimit = 1
 Reqs <- ReqsG
 ReqPeer <- PeerG
 ReqObj <- ObjG
 MaxSteps = 14
INVARIANTS OnePerObject GuardIsHandling TokensAreHandlers ServedBound Quiescent CounterInRange TotalIsSum PeerBound
VIEW GView
CHECK_DEADLOCK FALSE
