------------------------------ MODULE ReqGateMC ------------------------------
EXTENDS ReqGate, VerifEmit
PS_g == <<2, 1>>
TS_g == <<3, 3>>
ReqsG == {"r1", "r2", "r3", "r4", "r5", "r6", "r7"}
PeerG == [r \in ReqsG |-> CASE r \in {"r1", "r2", "r3", "r4"} -> "p1" [] r \in {"r5", "r6"} -> "p2" [] OTHER -> "n1"]
ObjG  == [r \in ReqsG |-> CASE r \in {"r1", "r2", "r5"} -> "o1" [] r \in {"r3", "r6", "r7"} -> "o2" [] OTHER -> "o3"]
ReqsS == {"r1", "r2", "r3", "r5"}
ASSUME EmitReset
Emit == EmitWhen(done, [hist |-> hist, peer |-> ReqPeer, obj |-> ReqObj, peerStep |-> PeerStep, totalStep |-> TotalStep,
                       excluded |-> Excluded, exLimit |-> ExLimit])
GView == <<tokens, total, exTotal, counter, st, guard, done>>
=============================================================================
