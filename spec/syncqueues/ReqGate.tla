------------------------------ MODULE ReqGate ------------------------------
(* X02 part 2 - the gate sequence of requestManager.HandleStreamRequest (commonspace/sync):            *)
(*   incomingGuard.TryTake(peer-object) -> limit.Take(peer) -> handler -> limit.Release -> guard.Release *)
(* composed with the limiter of ReqLimit. A request is a (peer, object) pair; several requests for the *)
(* same pair may be in flight. Enter(r) is the part before the handler runs, Finish(r) the deferred    *)
(* releases after the handler returned (with or without an error).                                     *)
EXTENDS ReqLimit

CONSTANTS Reqs, ReqPeer, ReqObj, MaxSteps

VARIABLES st,      \* [Reqs -> {"new","in","ok","err","dup","many"}]
          guard,   \* set of <<peer, object>> held in incomingGuard
          hist,    \* behaviour so far (generation only)
          done

gvars == <<tokens, total, exTotal, counter, last, st, guard, hist, done>>
Key(r) == <<ReqPeer[r], ReqObj[r]>>
Handling == {r \in Reqs : st[r] = "in"}

GInit == /\ Init /\ st = [r \in Reqs |-> "new"] /\ guard = {} /\ hist = <<>> /\ done = FALSE

Enter(r) ==
    /\ st[r] = "new"
    /\ IF Key(r) \in guard
       THEN /\ st' = [st EXCEPT ![r] = "dup"]                     \* ErrDuplicateRequest
            /\ hist' = Append(hist, [act |-> "enter", r |-> r, res |-> "dup"])
            /\ UNCHANGED <<tokens, total, exTotal, counter, last, guard>>
       ELSE /\ Take(ReqPeer[r])
            /\ IF last'.res
               THEN /\ st' = [st EXCEPT ![r] = "in"] /\ guard' = guard \cup {Key(r)}
                    /\ hist' = Append(hist, [act |-> "enter", r |-> r, res |-> "in"])
               ELSE /\ st' = [st EXCEPT ![r] = "many"] /\ guard' = guard   \* ErrTooManyRequestsFromPeer, guard released
                    /\ hist' = Append(hist, [act |-> "enter", r |-> r, res |-> "many"])
    /\ UNCHANGED done

Finish(r, fail) ==
    /\ st[r] = "in"
    /\ Release(ReqPeer[r])
    /\ guard' = guard \ {Key(r)}
    /\ st' = [st EXCEPT ![r] = IF fail THEN "err" ELSE "ok"]
    /\ hist' = Append(hist, [act |-> "finish", r |-> r, res |-> IF fail THEN "err" ELSE "ok"])
    /\ UNCHANGED done

Stop == /\ ~done /\ done' = TRUE /\ UNCHANGED <<tokens, total, exTotal, counter, last, st, guard, hist>>

Over == Len(hist) >= MaxSteps \/ \A r \in Reqs : st[r] \notin {"new", "in"}
GNext == IF done THEN FALSE
         ELSE IF Over THEN Stop
         ELSE \E r \in Reqs : Enter(r) \/ \E f \in BOOLEAN : Finish(r, f)
GSpec == GInit /\ [][GNext]_gvars

-----------------------------------------------------------------------------
\* at most one handler per (peer, object)
OnePerObject == \A r1, r2 \in Handling : Key(r1) = Key(r2) => r1 = r2
\* the guard holds exactly the pairs being handled: nothing leaks, nothing is released early
GuardIsHandling == guard = {Key(r) : r \in Handling}
\* tokens in use = handlers running, per peer: released on every path
TokensAreHandlers == \A p \in Peers : tokens[p] = Cardinality({r \in Handling : ReqPeer[r] = p})
\* per-peer bound on concurrently served requests
ServedBound == \A p \in Peers : Cardinality({r \in Handling : ReqPeer[r] = p}) <= IF p \in Excluded THEN ExLimit ELSE PeerStep[1]
\* a refused request holds nothing
Quiescent == Handling = {} => guard = {} /\ total = 0 /\ exTotal = 0 /\ counter = 1
=============================================================================
