SPECIFICATION Spec
CONSTANTS Peers = {"p1","p2","p3"}
 Excluded = {}
 PeerStep <- PS_b
 TotalStep <- TS_b
 ExLimit = 1
INVARIANTS TypeOK CounterInRange TotalIsSum PeerBound IdleAdmitted QuiescentIsInitial
PROPERTIES NoOpOnRefusal ExcludedIsolated
VIEW View
CHECK_DEADLOCK FALSE
