SPECIFICATION SpecEmit
CONSTANTS Peers = {"p1","p2","n1"}
 Excluded = {"n1"}
 PeerStep <- PS_a
 TotalStep <- TS_a
 ExLimit = 2
VIEW View
CHECK_DEADLOCK FALSE
