------------------------------ MODULE ReqLimitMC ------------------------------
EXTENDS ReqLimit, Json, IOUtils
PS_a == <<3, 2, 1>>
TS_a == <<3, 6, 6>>
PS_b == <<2, 1>>
TS_b == <<2, 2>>
PS_c == <<4, 3, 2, 1>>
TS_c == <<2, 4, 7, 7>>
\* emission of every transition of the state graph (one JSON object per edge), -workers 1
EmitDir == IF "VERIF_EMIT_DIR" \in DOMAIN IOEnv THEN IOEnv.VERIF_EMIT_DIR ELSE "emit"
St(t, tt, e, c) == [tokens |-> t, total |-> tt, exTotal |-> e, counter |-> c,
                    peerAllow |-> PeerStep[c], totalAllow |-> TotalStep[c]]
EmitEdge == /\ TLCSet(1, TLCGet(1) + 1)
            /\ JsonSerialize(EmitDir \o "/e" \o ToString(1000000 + TLCGet(1)) \o ".json",
                 [pre |-> St(tokens, total, exTotal, counter), op |-> last'.op, p |-> last'.p, res |-> last'.res,
                  post |-> St(tokens', total', exTotal', counter'),
                  peerStep |-> PeerStep, totalStep |-> TotalStep, excluded |-> Excluded, exLimit |-> ExLimit])
ASSUME TLCSet(1, 0)
NextEmit == Next /\ EmitEdge
SpecEmit == Init /\ [][NextEmit]_vars
View == <<tokens, total, exTotal, counter>>
=============================================================================
