---------------------------- MODULE SpaceBindTrace ----------------------------
(* Trace validation for C13: single-byte mutations of real payloads (every constructor, every    *)
(* part, with and without recomputed content id), classified by the Go harness to the field they *)
(* fall in, with the verdict of the real validator and the facts an independent oracle computed   *)
(* on the real bytes.  Each line is one case of SpaceBind: the case, the observed verdict and     *)
(* the observed facts are adopted into the state and                                              *)
(*   - the property's invariants are evaluated on the OBSERVED verdict and facts                  *)
(*     (ObsAcceptImpliesBound, ObsByteMutationRejected): a failure is a violation;                *)
(*   - for mutations that hit exactly one known field the specification's own prediction          *)
(*     (Facts(P), outcome of Check) is compared with the observation; disagreement is counted     *)
(*     as drift (model and code differ without a property failure).                               *)
EXTENDS SpaceBind, VerifEmit

ASSUME HwReset /\ TLCSet(3, 0)
Trace == ndJsonDeserialize(TraceFileName)
VARIABLES l,        \* next line
          ofacts,   \* facts observed on the real bytes
          drift     \* number of lines where prediction and observation differ
tvars == <<vars, l, ofacts, drift>>

KnownField(x) == x.field \in BodyFields(x.part) \cup RawFields
MutOf(x) == [class |-> "field", part |-> x.part,
             field |-> IF KnownField(x) THEN x.field ELSE "content",
             how |-> "alt", rehash |-> x.rehash]
CaseOf(x) == [ca |-> x.ca, cb |-> x.ca, same |-> FALSE, entry |-> "payload", ident |-> "nil", mut |-> MutOf(x)]

\* coarse stage the harness can observe from outside (errors of the exported validators)
Coarse(v) == CASE v = "ok" -> "ok"
               [] v = "hdr_cid" -> "hdr_cid"
               [] v \in {"hdr_embed_acl", "hdr_embed_set"} -> "embed"
               [] v \in {"hdr_nodot", "hdr_key", "hdr_sig", "hdr_suffix", "hdr_o2o", "hdr_identity"} -> "hdr"
               [] v = "acl_cid" -> "acl_cid"
               [] OTHER -> "roots"

FactNames == {"hdrCid", "hdrSig", "hdrSuffix", "aclCid", "aclSig", "aclMaster", "setCid", "setSig",
              "embedAcl", "embedSet", "nameAcl", "nameSet", "aclHead", "v1"}

\* does the specification predict this observation? (only for mutations of exactly one known field)
Predicted(x) ==
    LET c  == CaseOf(x)
        pa == SpaceA(c.ca)
        p  == Mutate(pa, pa, c.mut)
        f  == Facts(p)
    IN /\ \A n \in FactNames : f[n] = x.facts[n]
       /\ Coarse(CheckPayload(p)) = (IF x.accepted THEN "ok" ELSE x.stage)

TraceInit == /\ l = 1 /\ drift = 0
             /\ cs = [ca |-> "createV0", cb |-> "createV0", same |-> FALSE, entry |-> "payload", ident |-> "nil", mut |-> NoMut]
             /\ verdict = "pending" /\ done = FALSE
             /\ ofacts = [n \in FactNames |-> TRUE]

TrObs == /\ l <= Len(Trace) /\ Trace[l].ev = "Obs" /\ l' = l + 1
         /\ LET x == Trace[l] IN
              /\ cs' = CaseOf(x)
              /\ verdict' = IF x.accepted THEN "ok" ELSE x.stage
              /\ done' = TRUE
              /\ ofacts' = x.facts
              /\ drift' = IF KnownField(x) /\ ~Predicted(x) THEN drift + 1 ELSE drift

TraceNext == TrObs
TraceSpec == TraceInit /\ [][TraceNext]_tvars

Line == Trace[l - 1]
\* acceptance => every signature and content id verifies and all parts name the same space, on the real bytes
ObsAcceptImpliesBound == (l > 1 /\ verdict = "ok") => BoundF(ofacts)
\* a single-byte mutation is rejected.  With the content id recomputed the mutated part may only be accepted
\* if the decoded content is unchanged (envelope / encoding) and nothing refers to the part's id
ObsByteMutationRejected ==
    (l > 1 /\ verdict = "ok") =>
        /\ Line.rehash
        /\ Line.field \in {"noop-encoding", "extra"}
        /\ \/ Line.part = "hdr" /\ Version(Line.ca) = 1
           \/ Line.part = "set" /\ Version(Line.ca) = 0

\* CONSTRAINT (always TRUE): remembers the position reached and the drift count in TLC registers; the first
\* drifting lines are printed
Mark == /\ HwMark(l)
        /\ IF drift > TLCGet(3)
           THEN TLCSet(3, drift) /\ (drift > 5 \/ PrintT(<<"TRACE-DRIFT-AT-LINE", l - 1>>))
           ELSE TRUE
TraceAccepted == /\ HwAccepted(Len(Trace))
                 /\ PrintT(<<"TRACE-DRIFT", TLCGet(3)>>)
=============================================================================
