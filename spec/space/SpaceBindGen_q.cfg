SPECIFICATION Spec
CONSTANTS
  CtorsA = {"createV0", "createV1", "deriveV0", "deriveV1", "o2o", "o2oAny"}
  CtorsB = {"createV1", "deriveV0"}
  Classes = {"none", "field", "id", "splice", "forge"}
  Entries = {"payload", "header"}
  Dropped = {}
  Lenient = {}
INVARIANT Inv
INVARIANT Emit
CHECK_DEADLOCK FALSE
