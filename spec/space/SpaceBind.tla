------------------------------ MODULE SpaceBind ------------------------------
(* Space creation payloads of any-sync and their validation - property C13.        *)
(* (commonspace/spacepayloads/payloads.go: StoragePayloadFor* constructors,         *)
(*  ValidateSpaceStorageCreatePayload / ValidateSpaceHeader; every create, push     *)
(*  and pull path of commonspace/spaceservice.go ends in that validator.)           *)
(*                                                                                  *)
(* Symbolic (Dolev-Yao style) model.  A payload is <<hdr, acl, set>>: header, ACL   *)
(* root and settings root, each [id, raw] with raw = [body, sig, extra]:            *)
(*     Cid(x)      content id of the byte string x   (injective)                    *)
(*     Sig(k, b)   signature of key k over body b    (valid only for exactly k, b)  *)
(*     K(S)        a key: S = {owner} an ordinary key, S = {x, y} the X25519-derived *)
(*                 key shared by x and y (symmetric by construction: DH(a,B)=DH(b,A)),*)
(*                 "junk" \in S: bytes that do not unmarshal as a key                *)
(*     RK(src)     a replication key                                                 *)
(* v1 headers embed the raw ACL root and the raw settings root (and the roots carry  *)
(* no space id); v0 headers embed nothing and both roots name the space id.          *)
(*                                                                                  *)
(* Byte strings with a textual / numeric encoding have several spellings of one value     *)
(* (a base-36 number with a leading zero or an upper-case digit, a content id in another    *)
(* multibase, a non-minimal varint or length inside a protobuf message).  Resp(t) is a term *)
(* that is byte-different from t and denotes the same value (Val(Resp(t)) = Val(t)); a body  *)
(* re-encoded that way keeps all its fields and differs in `enc`.  The code compares bytes,  *)
(* and so must it: every "respell" mutation is a mutation like any other.                    *)
(*                                                                                  *)
(* A case = two valid spaces A, B (constructor, owner relation) and one mutation of  *)
(* A's payload (class none / field / id / splice / forge; entry point full payload   *)
(* or header-only with an identity).  Check(..) transcribes the validator in the     *)
(* order of the code; there is one action per outcome (the check that rejects, or    *)
(* acceptance), so TLC's coverage shows that every check of the code rejects some    *)
(* case.  Bound / Facts state declaratively what the property demands.               *)
EXTENDS Integers, FiniteSets, Sequences, TLC

CONSTANTS CtorsA,      \* constructors used for space A
          CtorsB,      \* constructors used for space B
          Classes,     \* mutation classes explored
          Entries,     \* entry points explored: "payload", "header"
          Lenient,     \* comparisons done on the denoted VALUE instead of the bytes ({} = the code as it is);
                       \* like Dropped only used by the adequacy analysis
          Dropped      \* checks of the validator left out ({} = the code as it is).  Used only by the adequacy
                       \* analysis (SpaceBind_drop.cfg): with a check dropped TLC must find a counterexample,
                       \* i.e. the case set exercises that check as the only line of defence

AllCtors == {"createV0", "createV1", "deriveV0", "deriveV1", "o2o", "o2oAny"}
ASSUME CtorsA \subseteq AllCtors /\ CtorsB \subseteq AllCtors

(* ------------------------------- terms ------------------------------- *)
K(S)        == [k |-> S]
WellFormed(key) == "junk" \notin key.k
Mallory     == K({"m"})                   \* somebody else's well-formed key
JunkKey     == K({"junk"})
NoKey       == K({})
Cid(x)      == [cid |-> x]
Junk        == [junk |-> TRUE]
JunkCid     == Cid(Junk)
Sig(key, b) == [signer |-> key, over |-> b]
JunkSig     == Sig(JunkKey, Junk)
SigOK(s, key, b) == s = Sig(key, b)
RK(src)     == [rk |-> src]
NoDot       == [nodot |-> TRUE]           \* an id without "."
SpaceId(raw, rk) == [cid |-> Cid(raw), suffix |-> rk]
EmptySid    == [empty |-> TRUE]
NilRaw      == [nil |-> TRUE]
NilInfo     == [nil |-> TRUE]
\* another spelling of the same value / the value a term denotes
Resp(t)     == [f \in DOMAIN t \cup {"spell"} |-> IF f = "spell" THEN "other" ELSE t[f]]
Val1(t)     == IF "spell" \in DOMAIN t THEN [f \in DOMAIN t \ {"spell"} |-> t[f]] ELSE t
Val(t)      == LET u == Val1(t) IN
               IF {"cid", "suffix"} \subseteq DOMAIN u THEN [cid |-> Val1(u.cid), suffix |-> Val1(u.suffix)] ELSE u

Version(c) == IF c \in {"createV0", "deriveV0"} THEN 0 ELSE 1
IsO2O(c)   == c \in {"o2o", "o2oAny"}
Random(c)  == c \in {"createV0", "createV1"}
O2OTypes   == {"anytype.onetoone", "any.onetoone"}

(* ---------------------------- constructors ---------------------------- *)
\* x: owner (first party of a 1-1 space), y: second party of a 1-1 space, n: distinguishes two creations
OwnerKey(c, x, y)  == IF IsO2O(c) THEN K({x, y}) ELSE K({x})
MasterKey(c, x, y) == IF IsO2O(c) THEN K({x, y}) ELSE K({x, "master"})
Content(c, n)      == IF Random(c) THEN "rnd" \o n ELSE "det"      \* timestamps, seeds, encrypted keys
RepKey(c, x, y, n) == IF Random(c) THEN RK([n |-> n]) ELSE RK(OwnerKey(c, x, y))   \* given / fnv(public key)
TypeOf(c, n)       == CASE c = "o2o" -> "anytype.onetoone" [] c = "o2oAny" -> "any.onetoone" [] OTHER -> "T" \o n
Info(c, x, y)      == IF IsO2O(c) THEN [owner |-> K({x, y}), writers |-> {x, y}] ELSE NilInfo

MkRaw(body, key) == [body |-> body, sig |-> Sig(key, body), extra |-> "none"]
MkPart(raw)      == [id |-> Cid(raw), raw |-> raw]

AclBodyOf(c, x, y, n, sid) ==
    [identity |-> OwnerKey(c, x, y), masterKey |-> MasterKey(c, x, y), spaceId |-> sid,
     content |-> Content(c, n),
     identitySig |-> Sig(MasterKey(c, x, y), [rawid |-> OwnerKey(c, x, y)]),
     o2o |-> Info(c, x, y), enc |-> "canonical"]
SetBodyOf(c, x, y, n, sid, aclId) ==
    [aclHeadId |-> aclId, spaceId |-> sid, changeType |-> "any-sync.space",
     content |-> Content(c, n), identity |-> OwnerKey(c, x, y), enc |-> "canonical"]
HdrBodyOf(c, x, y, n, aclP, setP) ==
    [identity |-> OwnerKey(c, x, y), content |-> Content(c, n), type |-> TypeOf(c, n),
     repKey |-> RepKey(c, x, y, n),
     hpayload |-> IF IsO2O(c) THEN Info(c, x, y) ELSE [user |-> "payload"],
     aclPayload |-> aclP, settingPayload |-> setP,
     fproto |-> IF c = "o2oAny" THEN 2 ELSE 0, version |-> Version(c), enc |-> "canonical"]

Space(c, x, y, n) ==
    LET key == OwnerKey(c, x, y) IN
    IF Version(c) = 0
    THEN LET hraw == MkRaw(HdrBodyOf(c, x, y, n, NilRaw, NilRaw), key)
             sid  == SpaceId(hraw, hraw.body.repKey)
             acl  == MkPart(MkRaw(AclBodyOf(c, x, y, n, sid), key))
             set  == MkPart(MkRaw(SetBodyOf(c, x, y, n, sid, acl.id), key))
         IN [hdr |-> [id |-> sid, raw |-> hraw], acl |-> acl, set |-> set]
    ELSE LET acl  == MkPart(MkRaw(AclBodyOf(c, x, y, n, EmptySid), key))
             set  == MkPart(MkRaw(SetBodyOf(c, x, y, n, EmptySid, acl.id), key))
             hraw == MkRaw(HdrBodyOf(c, x, y, n, acl.raw, set.raw), key)
         IN [hdr |-> [id |-> SpaceId(hraw, hraw.body.repKey), raw |-> hraw], acl |-> acl, set |-> set]

(* ------------------------------- cases ------------------------------- *)
\* space A: owner a (1-1: a with b).  space B: the same owner again, or another owner (1-1: a with c)
SpaceA(c)        == Space(c, "a", "b", "1")
SpaceB(c, same)  == IF same THEN Space(c, "a", "b", "2")
                    ELSE IF IsO2O(c) THEN Space(c, "a", "c", "2") ELSE Space(c, "b", "c", "2")

Parts == {"hdr", "acl", "set"}
BodyFields(part) == CASE part = "hdr" -> {"identity", "content", "type", "repKey", "hpayload", "aclPayload",
                                          "settingPayload", "fproto", "version"}
                      [] part = "acl" -> {"identity", "masterKey", "spaceId", "content", "identitySig", "o2o"}
                      [] part = "set" -> {"aclHeadId", "spaceId", "changeType", "content", "identity"}
KeyFields == {"identity", "masterKey"}
RawFields == {"sig", "extra"}

Alt(part, f, old) ==
    CASE f \in KeyFields          -> Mallory
      [] f = "content"            -> "altered"
      [] f = "type"               -> "T-altered"
      [] f = "repKey"             -> RK([n |-> "altered"])
      [] f \in {"hpayload", "o2o"} -> Junk
      [] f \in {"aclPayload", "settingPayload"} -> Junk
      [] f = "fproto"             -> 7
      [] f = "version"            -> 1 - old
      [] f = "spaceId"            -> [cid |-> JunkCid, suffix |-> RK([n |-> "altered"])]
      [] f = "aclHeadId"          -> JunkCid
      [] f = "changeType"         -> "altered"
      [] f \in {"identitySig", "sig"} -> JunkSig
      [] f = "extra"              -> "x"

FieldMuts == {[class |-> "field", part |-> p, field |-> f, how |-> h, rehash |-> r] :
                 p \in Parts, f \in UNION {BodyFields(q) : q \in Parts} \cup RawFields,
                 h \in {"alt", "other", "junk", "respell"}, r \in BOOLEAN}
ValidFieldMut(m) == /\ m.field \in BodyFields(m.part) \cup RawFields
                    /\ m.how = "junk" => m.field \in KeyFields
                    /\ m.field = "extra" => m.how \in {"alt", "respell"}
                    /\ m.how = "respell" => m.field # "sig"
IdMuts == {[class |-> "id", part |-> "hdr", field |-> f, how |-> h, rehash |-> FALSE] :
              f \in {"cid", "suffix"}, h \in {"alt", "other", "respell"}}
          \cup {[class |-> "id", part |-> "hdr", field |-> "suffix", how |-> "nodot", rehash |-> FALSE]}
          \cup {[class |-> "id", part |-> p, field |-> "id", how |-> h, rehash |-> FALSE] :
                  p \in {"acl", "set"}, h \in {"alt", "other", "respell"}}
Components == {"hdr.id", "hdr.raw", "acl.id", "acl.raw", "set.id", "set.raw"}
SpliceMuts == {[class |-> "splice", fromB |-> S] : S \in (SUBSET Components) \ {{}}}
\* parts freshly signed by somebody (Mallory, or the owner himself) that name the ids of space A
ForgeKinds == {"set-other-right", "set-owner-right", "set-other-wronghead", "set-owner-wronghead",
               "acl-other", "acl-other-badmaster", "acl-other-junkmaster", "both-other", "both-owner",
               "both-other-badmaster", "both-other-junkmaster", "both-other-badaclsig",
               "set-other-wrongspace", "set-owner-wrongspace", "both-other-wrongspace", "both-other-aclwrongspace",
               "set-other-respellhead", "set-owner-respellhead", "set-other-respellspace", "set-owner-respellspace",
               "both-other-aclrespellspace",
               "hdr-owner-junkinfo"}
ForgeMuts  == {[class |-> "forge", kind |-> kd] : kd \in ForgeKinds}
NoMut      == [class |-> "none"]

Muts == {m \in FieldMuts : ValidFieldMut(m)} \cup IdMuts \cup SpliceMuts \cup ForgeMuts \cup {NoMut}

SetRawField(part, f, v)  == [part EXCEPT !.raw[f] = v]
SetBodyField(part, f, v) == [part EXCEPT !.raw.body[f] = v]
\* the adversary recomputes every public derivation of the part (content id; for the header also the suffix)
Rehash(pname, part) ==
    IF pname = "hdr" THEN [part EXCEPT !.id = SpaceId(part.raw, part.raw.body.repKey)]
    ELSE [part EXCEPT !.id = Cid(part.raw)]

Forged(body, key) == MkPart(MkRaw(body, key))

Mutate(PA, PB, m) ==
    CASE m.class = "none" -> PA
      [] m.class = "field" ->
           LET pa  == PA[m.part]
               pb  == PB[m.part]
               raw == m.field \in RawFields
               old == IF raw THEN pa.raw[m.field] ELSE pa.raw.body[m.field]
               new == CASE m.how \in {"alt", "respell"} -> Alt(m.part, m.field, old)
                        [] m.how = "junk" -> JunkKey
                        [] m.how = "other" -> IF raw THEN pb.raw[m.field] ELSE pb.raw.body[m.field]
               q   == IF m.how = "respell"
                      THEN (IF raw THEN SetRawField(pa, "extra", "respelled")
                                   ELSE SetBodyField(pa, "enc", "respelled-" \o m.field))   \* same fields, other bytes
                      ELSE IF raw THEN SetRawField(pa, m.field, new) ELSE SetBodyField(pa, m.field, new)
           IN [PA EXCEPT ![m.part] = IF m.rehash THEN Rehash(m.part, q) ELSE q]
      [] m.class = "id" ->
           IF m.part = "hdr"
           THEN [PA EXCEPT !.hdr.id[m.field] =
                    CASE m.how = "nodot" -> NoDot
                      [] m.how = "respell" -> Resp(PA.hdr.id[m.field])
                      [] m.how = "other" -> PB.hdr.id[m.field]
                      [] m.field = "cid"  -> JunkCid
                      [] OTHER            -> RK([n |-> "altered"])]
           ELSE [PA EXCEPT ![m.part].id = CASE m.how = "other" -> PB[m.part].id
                                            [] m.how = "respell" -> Resp(PA[m.part].id)
                                            [] OTHER -> JunkCid]
      [] m.class = "splice" ->
           LET Pick(c, a, b) == IF c \in m.fromB THEN b ELSE a IN
           [hdr |-> [id |-> Pick("hdr.id", PA.hdr.id, PB.hdr.id), raw |-> Pick("hdr.raw", PA.hdr.raw, PB.hdr.raw)],
            acl |-> [id |-> Pick("acl.id", PA.acl.id, PB.acl.id), raw |-> Pick("acl.raw", PA.acl.raw, PB.acl.raw)],
            set |-> [id |-> Pick("set.id", PA.set.id, PB.set.id), raw |-> Pick("set.raw", PA.set.raw, PB.set.raw)]]
      [] m.class = "forge" ->
           LET owner == PA.hdr.raw.body.identity
               who   == IF m.kind \in {"set-owner-right", "set-owner-wronghead", "set-owner-wrongspace", "both-owner",
                                      "set-owner-respellhead", "set-owner-respellspace"}
                        THEN owner ELSE Mallory
               sidAlt == [cid |-> JunkCid, suffix |-> RK([n |-> "altered"])]      \* some other space id
               wrongSet == m.kind \in {"set-other-wrongspace", "set-owner-wrongspace", "both-other-wrongspace"}
               aclOnly == {"acl-other", "acl-other-badmaster", "acl-other-junkmaster"}
               both  == {"both-other", "both-owner", "both-other-badmaster", "both-other-junkmaster", "both-other-badaclsig",
                         "both-other-wrongspace", "both-other-aclwrongspace", "both-other-aclrespellspace"}
               mk    == IF m.kind \in {"acl-other-junkmaster", "both-other-junkmaster"} THEN JunkKey ELSE who
               isig  == IF m.kind \in {"acl-other-badmaster", "both-other-badmaster"}
                        THEN Sig(K({"x"}), [rawid |-> who]) ELSE Sig(mk, [rawid |-> who])
               fac0  == Forged([PA.acl.raw.body EXCEPT !.identity = who, !.masterKey = mk, !.content = "forged",
                                                       !.identitySig = isig,
                                                       !.spaceId = CASE m.kind \in {"both-other-wrongspace", "both-other-aclwrongspace"} -> sidAlt
                                                                     [] m.kind = "both-other-aclrespellspace" -> Resp(PA.hdr.id)
                                                                     [] OTHER -> @], who)
               facl  == IF m.kind = "both-other-badaclsig" THEN Rehash("acl", [fac0 EXCEPT !.raw.sig = JunkSig]) ELSE fac0
               acl   == IF m.kind \in aclOnly \cup both THEN facl ELSE PA.acl
               head  == CASE m.kind \in {"set-other-wronghead", "set-owner-wronghead"} -> JunkCid
                          [] m.kind \in {"set-other-respellhead", "set-owner-respellhead"} -> Resp(PA.acl.id)
                          [] m.kind \in aclOnly -> PA.acl.id
                          [] OTHER -> acl.id
               fset  == Forged([PA.set.raw.body EXCEPT !.identity = who, !.content = "forged", !.aclHeadId = head,
                                                       !.spaceId = CASE wrongSet -> sidAlt
                                                                     [] m.kind \in {"set-other-respellspace", "set-owner-respellspace"} -> Resp(PA.hdr.id)
                                                                     [] OTHER -> @], who)
               set   == IF m.kind \in aclOnly THEN PA.set ELSE fset
               hraw  == MkRaw([PA.hdr.raw.body EXCEPT !.hpayload = Junk], owner)
           IN IF m.kind = "hdr-owner-junkinfo"
              THEN [PA EXCEPT !.hdr = [id |-> SpaceId(hraw, hraw.body.repKey), raw |-> hraw]]
              ELSE [PA EXCEPT !.acl = acl, !.set = set]

(* ----------------------- the validator, as coded ----------------------- *)
On(check) == check \notin Dropped
\* byte-exact comparison, as coded (value comparison only in the adequacy analysis)
Differ(check, a, b) == IF check \in Lenient THEN Val(a) # Val(b) ELSE a # b
\* ValidateSpaceHeader(rawHeaderWithId, identity, aclPayload, settingsPayload)
CheckHeader(h, ident, aclP, setP) ==
    LET b == h.raw.body IN
    IF On("hdr_nodot") /\ (h.id.suffix = NoDot) THEN "hdr_nodot"
    ELSE IF On("hdr_cid") /\ (Differ("hdr_cid", h.id.cid, Cid(h.raw))) THEN "hdr_cid"
    ELSE IF On("hdr_key") /\ (~WellFormed(b.identity)) THEN "hdr_key"
    ELSE IF On("hdr_sig") /\ (~SigOK(h.raw.sig, b.identity, b)) THEN "hdr_sig"
    ELSE IF On("hdr_suffix") /\ (Differ("hdr_suffix", h.id.suffix, b.repKey)) THEN "hdr_suffix"
    ELSE IF On("hdr_embed_acl") /\ (b.version = 1 /\ aclP # NilRaw /\ aclP # b.aclPayload) THEN "hdr_embed_acl"
    ELSE IF On("hdr_embed_set") /\ (b.version = 1 /\ setP # NilRaw /\ setP # b.settingPayload) THEN "hdr_embed_set"
    ELSE IF On("hdr_o2o") /\ (b.type \in O2OTypes /\ b.hpayload = Junk) THEN "hdr_o2o"
    ELSE IF On("hdr_identity") /\ (b.type \notin O2OTypes /\ ident # NoKey /\ b.identity # ident) THEN "hdr_identity"
    ELSE "ok"

\* validateCreateSpaceAclPayload
CheckAcl(a) ==
    LET b == a.raw.body IN
    IF On("acl_cid") /\ (Differ("acl_cid", a.id, Cid(a.raw))) THEN "acl_cid"
    ELSE IF On("acl_key") /\ (~WellFormed(b.identity)) THEN "acl_key"
    ELSE IF On("acl_sig") /\ (~SigOK(a.raw.sig, b.identity, b)) THEN "acl_sig"
    ELSE IF On("acl_masterkey") /\ (~WellFormed(b.masterKey)) THEN "acl_masterkey"
    ELSE IF On("acl_master") /\ (~SigOK(b.identitySig, b.masterKey, [rawid |-> b.identity])) THEN "acl_master"
    ELSE "ok"

\* validateCreateSpaceSettingsPayload
CheckSet(s) ==
    LET b == s.raw.body IN
    IF On("set_cid") /\ (Differ("set_cid", s.id, Cid(s.raw))) THEN "set_cid"
    ELSE IF On("set_key") /\ (~WellFormed(b.identity)) THEN "set_key"
    ELSE IF On("set_sig") /\ (~SigOK(s.raw.sig, b.identity, b)) THEN "set_sig"
    ELSE "ok"

\* ValidateSpaceStorageCreatePayload
CheckPayload(p) ==
    LET h == CheckHeader(p.hdr, NoKey, p.acl.raw, p.set.raw) IN
    IF h # "ok" THEN h ELSE
    LET a == CheckAcl(p.acl) IN
    IF a # "ok" THEN a ELSE
    LET s == CheckSet(p.set) IN
    IF s # "ok" THEN s ELSE
    IF On("bind_spaceid") /\ (p.hdr.raw.body.version # 1   \* needCheckSpaceId
       /\ (Differ("bind_spaceid", p.acl.raw.body.spaceId, p.hdr.id)
           \/ Differ("bind_spaceid", p.acl.raw.body.spaceId, p.set.raw.body.spaceId))) THEN "bind_spaceid"
    ELSE IF On("bind_aclhead") /\ (Differ("bind_aclhead", p.set.raw.body.aclHeadId, p.acl.id)) THEN "bind_aclhead"
    ELSE "ok"

Outcomes == {"hdr_nodot", "hdr_cid", "hdr_key", "hdr_sig", "hdr_suffix", "hdr_embed_acl", "hdr_embed_set",
             "hdr_o2o", "hdr_identity", "acl_cid", "acl_key", "acl_sig", "acl_masterkey", "acl_master",
             "set_cid", "set_key", "set_sig", "bind_spaceid", "bind_aclhead", "ok"}

(* ----------------------- what the property demands ----------------------- *)
\* every elementary fact about a payload (also computed by the Go oracle on the real bytes)
Facts(p) ==
    LET hb == p.hdr.raw.body  ab == p.acl.raw.body  sb == p.set.raw.body IN
    [hdrCid    |-> p.hdr.id.suffix # NoDot /\ p.hdr.id.cid = Cid(p.hdr.raw),
     hdrSig    |-> WellFormed(hb.identity) /\ SigOK(p.hdr.raw.sig, hb.identity, hb),
     hdrSuffix |-> p.hdr.id.suffix = hb.repKey,
     aclCid    |-> p.acl.id = Cid(p.acl.raw),
     aclSig    |-> WellFormed(ab.identity) /\ SigOK(p.acl.raw.sig, ab.identity, ab),
     aclMaster |-> WellFormed(ab.masterKey) /\ SigOK(ab.identitySig, ab.masterKey, [rawid |-> ab.identity]),
     setCid    |-> p.set.id = Cid(p.set.raw),
     setSig    |-> WellFormed(sb.identity) /\ SigOK(p.set.raw.sig, sb.identity, sb),
     embedAcl  |-> hb.aclPayload = p.acl.raw,
     embedSet  |-> hb.settingPayload = p.set.raw,
     nameAcl   |-> ab.spaceId = p.hdr.id,
     nameSet   |-> sb.spaceId = p.hdr.id,
     aclHead   |-> sb.aclHeadId = p.acl.id,
     v1        |-> hb.version = 1,
     infoOK    |-> (hb.type \in O2OTypes) => hb.hpayload # Junk]     \* 1-1 header payload parses (not part of Bound)

\* all signatures and content ids verify and all parts name the same space
BoundF(f) == /\ f.hdrCid /\ f.hdrSig /\ f.hdrSuffix
             /\ f.aclCid /\ f.aclSig /\ f.aclMaster
             /\ f.setCid /\ f.setSig /\ f.aclHead
             /\ IF f.v1 THEN f.embedAcl /\ f.embedSet ELSE f.nameAcl /\ f.nameSet
Bound(p) == BoundF(Facts(p))

(* ------------------------------ behaviour ------------------------------ *)
VARIABLES cs,       \* the case: [ca, cb, same, entry, ident, mut]
          verdict,  \* "pending", or the outcome of the validator
          done      \* the outcome has been attributed to the check that produced it
vars == <<cs, verdict, done>>

PA == SpaceA(cs.ca)
PB == SpaceB(cs.cb, cs.same)
P  == Mutate(PA, PB, cs.mut)

IdentOf(i) == CASE i = "nil" -> NoKey [] i = "owner" -> PA.hdr.raw.body.identity [] i = "other" -> Mallory

Result == IF cs.entry = "payload" THEN CheckPayload(P)
          ELSE CheckHeader(P.hdr, IdentOf(cs.ident), NilRaw, NilRaw)

BIndependent(m) == m.class \in {"none", "forge"} \/ (m.class \in {"field", "id"} /\ m.how # "other")
CanonB == CHOOSE c \in CtorsB : TRUE
HeaderMut(m) == m.class = "none" \/ (m.class \in {"field", "id"} /\ m.part = "hdr")

Init ==
    /\ cs \in [ca : CtorsA, cb : CtorsB, same : BOOLEAN, entry : Entries, ident : {"nil", "owner", "other"},
               mut : {m \in Muts : m.class \in Classes}]
    /\ cs.entry = "payload" => cs.ident = "nil"
    /\ cs.entry = "header" => HeaderMut(cs.mut)
    /\ BIndependent(cs.mut) => (cs.cb = CanonB /\ ~cs.same)     \* space B does not matter: explore once
    /\ (cs.mut.class = "forge" /\ cs.mut.kind = "hdr-owner-junkinfo") => IsO2O(cs.ca)
    /\ verdict = "pending" /\ done = FALSE

\* the validator runs (one call)
Validate == verdict = "pending" /\ verdict' = Result /\ UNCHANGED <<cs, done>>

\* one action per check of the code that can reject (in code order) and one for acceptance: TLC's coverage
\* then shows that every check rejects some case
Reject_hdr_nodot ==      verdict = "hdr_nodot" /\ ~done /\ done' = TRUE /\ UNCHANGED <<cs, verdict>>
Reject_hdr_cid ==        verdict = "hdr_cid" /\ ~done /\ done' = TRUE /\ UNCHANGED <<cs, verdict>>
Reject_hdr_key ==        verdict = "hdr_key" /\ ~done /\ done' = TRUE /\ UNCHANGED <<cs, verdict>>
Reject_hdr_sig ==        verdict = "hdr_sig" /\ ~done /\ done' = TRUE /\ UNCHANGED <<cs, verdict>>
Reject_hdr_suffix ==     verdict = "hdr_suffix" /\ ~done /\ done' = TRUE /\ UNCHANGED <<cs, verdict>>
Reject_hdr_embed_acl ==  verdict = "hdr_embed_acl" /\ ~done /\ done' = TRUE /\ UNCHANGED <<cs, verdict>>
Reject_hdr_embed_set ==  verdict = "hdr_embed_set" /\ ~done /\ done' = TRUE /\ UNCHANGED <<cs, verdict>>
Reject_hdr_o2o ==        verdict = "hdr_o2o" /\ ~done /\ done' = TRUE /\ UNCHANGED <<cs, verdict>>
Reject_hdr_identity ==   verdict = "hdr_identity" /\ ~done /\ done' = TRUE /\ UNCHANGED <<cs, verdict>>
Reject_acl_cid ==        verdict = "acl_cid" /\ ~done /\ done' = TRUE /\ UNCHANGED <<cs, verdict>>
Reject_acl_key ==        verdict = "acl_key" /\ ~done /\ done' = TRUE /\ UNCHANGED <<cs, verdict>>
Reject_acl_sig ==        verdict = "acl_sig" /\ ~done /\ done' = TRUE /\ UNCHANGED <<cs, verdict>>
Reject_acl_masterkey ==  verdict = "acl_masterkey" /\ ~done /\ done' = TRUE /\ UNCHANGED <<cs, verdict>>
Reject_acl_master ==     verdict = "acl_master" /\ ~done /\ done' = TRUE /\ UNCHANGED <<cs, verdict>>
Reject_set_cid ==        verdict = "set_cid" /\ ~done /\ done' = TRUE /\ UNCHANGED <<cs, verdict>>
Reject_set_key ==        verdict = "set_key" /\ ~done /\ done' = TRUE /\ UNCHANGED <<cs, verdict>>
Reject_set_sig ==        verdict = "set_sig" /\ ~done /\ done' = TRUE /\ UNCHANGED <<cs, verdict>>
Reject_bind_spaceid ==   verdict = "bind_spaceid" /\ ~done /\ done' = TRUE /\ UNCHANGED <<cs, verdict>>
Reject_bind_aclhead ==   verdict = "bind_aclhead" /\ ~done /\ done' = TRUE /\ UNCHANGED <<cs, verdict>>
Accept ==                verdict = "ok" /\ ~done /\ done' = TRUE /\ UNCHANGED <<cs, verdict>>

Next == \/ Validate
        \/ Reject_hdr_nodot \/ Reject_hdr_cid \/ Reject_hdr_key \/ Reject_hdr_sig \/ Reject_hdr_suffix
        \/ Reject_hdr_embed_acl \/ Reject_hdr_embed_set \/ Reject_hdr_o2o \/ Reject_hdr_identity
        \/ Reject_acl_cid \/ Reject_acl_key \/ Reject_acl_sig \/ Reject_acl_masterkey \/ Reject_acl_master
        \/ Reject_set_cid \/ Reject_set_key \/ Reject_set_sig
        \/ Reject_bind_spaceid \/ Reject_bind_aclhead \/ Accept

Spec == Init /\ [][Next]_vars

(* ------------------------------ properties ------------------------------ *)
Done     == done
Accepted == verdict = "ok"
Payload  == cs.entry = "payload"

\* constructions that are accepted although the payload is not one of the two valid spaces.  None is a
\* single-field / single-byte mutation or a cross-combination of parts of two valid spaces:
\*  - v0: nothing in the header commits to the roots, so roots freshly signed by anybody that name the space id
\*    (and each other) are accepted (DESIGN scope note: V0ForeignRoots);
\*  - the envelope of a raw part is covered only by the content id: extending it and recomputing the id yields
\*    another id for the same signed content; nothing refers to a v1 header's id or to a v0 settings root's id.
Observation ==
    \/ cs.mut.class = "forge" /\ Version(cs.ca) = 0
       /\ cs.mut.kind \in {"set-other-right", "set-owner-right", "both-other", "both-owner"}
    \/ cs.mut.class = "field" /\ cs.mut.field = "extra" /\ cs.mut.rehash
       /\ \/ Payload /\ cs.mut.part = "hdr" /\ Version(cs.ca) = 1
          \/ Payload /\ cs.mut.part = "set" /\ Version(cs.ca) = 0
          \/ cs.entry = "header" /\ cs.mut.part = "hdr" /\ (cs.ident # "other" \/ IsO2O(cs.ca))

\* acceptance => every signature and content id verifies and all parts name the same space
AcceptImpliesBound == (Accepted /\ Payload) => Bound(P)
\* ... and conversely the validator rejects nothing that is bound, except a 1-1 header whose payload does not parse
BoundImpliesAccept == (Done /\ Payload /\ Bound(P) /\ Facts(P).infoOK) => Accepted
\* any mutation is rejected: what is accepted is one of the two valid spaces, untouched
AnyMutationRejected == (Accepted /\ Payload /\ ~Observation) => P \in {PA, PB}
\* the listed observations are exactly that: accepted non-original payloads (keeps the list honest)
ObservationsAreAccepted == (Done /\ Observation) => (Accepted /\ (Payload => P # PA))
\* used in the non-gating configuration to exhibit the observations
NoObservation == (Accepted /\ Payload) => P \in {PA, PB}
\* valid payloads are accepted
ValidAccepted == (Done /\ cs.mut.class = "none" /\ (cs.entry = "header" => (cs.ident # "other" \/ IsO2O(cs.ca)))) => Accepted
\* header-only entry point: an accepted header is authentic, and belongs to the given identity unless 1-1
HeaderAuthentic ==
    (Accepted /\ cs.entry = "header") =>
        LET f == Facts(P) IN /\ f.hdrCid /\ f.hdrSig /\ f.hdrSuffix
                             /\ (cs.ident # "nil" /\ P.hdr.raw.body.type \notin O2OTypes) => P.hdr.raw.body.identity = IdentOf(cs.ident)
                             /\ (~Observation) => P.hdr = PA.hdr

Inv == /\ verdict \in Outcomes \cup {"pending"}
       /\ AcceptImpliesBound /\ BoundImpliesAccept /\ AnyMutationRejected /\ ObservationsAreAccepted
       /\ ValidAccepted /\ HeaderAuthentic

(* --------------------- one-to-one derivation (symbolic) --------------------- *)
\* keys both parties' AclState derives for a 1-1 root
O2OKeys(x, y) == [read |-> [derivedFrom |-> K({x, y})], meta |-> [shared |-> {x, y}, path |-> "metadata"]]
Derive(t, x, y) == [space |-> Space(t, x, y, "1"), keys |-> O2OKeys(x, y)]
Parties == {"a", "b", "c"}
ASSUME OneToOneSymmetric ==
    \A t \in {"o2o", "o2oAny"} : \A x, y \in Parties : x # y =>
        /\ Derive(t, x, y) = Derive(t, y, x)
        /\ \A z \in Parties \ {x, y} :
              LET d == Derive(t, x, y)  e == Derive(t, x, z) IN
              /\ d.space.hdr.id # e.space.hdr.id /\ d.space.acl.id # e.space.acl.id
              /\ d.space.set.id # e.space.set.id /\ d.keys.read # e.keys.read /\ d.keys.meta # e.keys.meta
ASSUME OneToOneTypesDistinct ==
    Derive("o2o", "a", "b").space.hdr.id # Derive("o2oAny", "a", "b").space.hdr.id
=============================================================================
