SPECIFICATION Spec
CONSTANTS
  CtorsA = {"createV0", "createV1", "deriveV0", "deriveV1", "o2o", "o2oAny"}
  CtorsB = {"createV0", "createV1", "deriveV0", "deriveV1", "o2o", "o2oAny"}
  Classes = {"none", "field", "id", "splice", "forge"}
  Entries = {"payload", "header"}
  Dropped = {}
  Lenient = {}
INVARIANT Inv
CHECK_DEADLOCK FALSE
