INIT TraceInit
NEXT TraceNext
CONSTANTS
  CtorsA = {"createV0", "createV1", "deriveV0", "deriveV1", "o2o", "o2oAny"}
  CtorsB = {"createV0", "createV1", "deriveV0", "deriveV1", "o2o", "o2oAny"}
  Classes = {"field"}
  Entries = {"payload"}
  Dropped = {}
  Lenient = {}
INVARIANT ObsAcceptImpliesBound
INVARIANT ObsByteMutationRejected
CONSTRAINT Mark
POSTCONDITION TraceAccepted
CHECK_DEADLOCK FALSE
