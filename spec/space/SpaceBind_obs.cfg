SPECIFICATION Spec
CONSTANTS
  CtorsA = {"createV0", "createV1", "deriveV0", "deriveV1", "o2o", "o2oAny"}
  CtorsB = {"createV1"}
  Classes = {"field", "forge"}
  Entries = {"payload"}
  Dropped = {}
  Lenient = {}
INVARIANT NoObservation
CHECK_DEADLOCK FALSE
