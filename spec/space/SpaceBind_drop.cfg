\* Adequacy analysis (not part of bin/check): with one check of the validator dropped TLC must find a
\* counterexample to Inv, i.e. the case set exercises that check as the only line of defence.
\* Replace the name in Dropped by any element of Outcomes \ {"ok"}; results are recorded in design.d/C13.md.
SPECIFICATION Spec
CONSTANTS
  CtorsA = {"createV0", "createV1", "deriveV0", "deriveV1", "o2o", "o2oAny"}
  CtorsB = {"createV1"}
  Classes = {"none", "field", "id", "splice", "forge"}
  Entries = {"payload", "header"}
  Dropped = {"bind_aclhead"}
  Lenient = {}
INVARIANT Inv
CHECK_DEADLOCK FALSE
