----------------------------- MODULE SpaceBindGen -----------------------------
(* Generation: every case of SpaceBind with the verdict, the failing check and the facts the   *)
(* specification predicts; the Go harness renders each case to real bytes and runs the real    *)
(* validator on it.                                                                            *)
EXTENDS SpaceBind, VerifEmit
ASSUME EmitReset
CaseJson == [cs |-> cs, verdict |-> verdict, facts |-> Facts(P), bound |-> Bound(P),
             original |-> (P \in {PA, PB}), observation |-> Observation]
Emit == EmitWhen(done, CaseJson)
=============================================================================
