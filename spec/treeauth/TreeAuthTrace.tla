---------------------------- MODULE TreeAuthTrace ----------------------------
(* Trace validation (code -> spec).  A random driver (harness/treeauth TestRecord) grows real  *)
(* ACLs with random admissible histories and delivers random batches of real signed changes    *)
(* (random signer, cited record, parents, mutation) to real object trees through AddRawChanges *)
(* / AddRawChangesWithUpdater, and reopens the tree from its storage.  It logs one line per    *)
(* step: the arguments in the vocabulary of TreeAuth (computed from the real bytes with the    *)
(* crypto primitives only: does the id re-compute, does the signature verify under the named   *)
(* identity, which record / parents are cited) and the observed verdict and state.  Here every *)
(* line must be explained by the transcription of the code (CodeDeliver); a line that is not   *)
(* is adopted as observed (drift), and in either case the invariants of TreeAuth -             *)
(* AttachedOnlyIfAuthentic, AttachedOnlyIfAuthorised, StoredClosed, PermHistoryFaithful - are  *)
(* evaluated on the state the real tree is in.                                                 *)
EXTENDS TreeAuthMC, VerifEmit

ASSUME HwReset /\ TLCSet(3, 0)
Trace == ndJsonDeserialize(TraceFileName)

VARIABLES l,      \* next line to consume
          drift,  \* lines the specification could not explain (adopted as observed)
          obs     \* the real ACL's answers PermissionsAtRecord(record i, S), i = 0..N, as last logged
tvars == <<vars, l, drift, obs>>

SetOf(sq) == {sq[i] : i \in 1..Len(sq)}
ToChg(j) == [Chg(j.id, j.kind, j.au, j.named, j.cite, SetOf(j.par), j.snap, j.cidOk, j.sigOk) EXCEPT !.tw = j.tw, !.al = j.al]
BatchOfLine(x) == [k \in 1..Len(x.batch) |-> ToChg(x.batch[k])]

IsEvent(e) == l <= Len(Trace) /\ Trace[l].ev = e /\ l' = l + 1

Fresh(x) ==
    /\ focus' = "trace" /\ filt' = x.filt
    /\ acl' = <<>> /\ hist' = <<>> /\ unatt' = {}
    /\ phase' = "build" /\ verdict' = "none" /\ agree' = TRUE /\ reopenOk' = TRUE
    /\ LET r == Chg(1, "root", "W", "W", 0, {}, 0, TRUE, TRUE)
           d == Chg(1, "droot", "none", "none", 0, {}, 0, TRUE, FALSE)
           s == Chg(2, "snap", "W", "W", 0, {1}, 1, TRUE, TRUE)
       IN CASE x.kind = "signed"  -> attached' = {r} /\ stored' = {r} /\ heads' = {1} /\ memRoot' = 1
            [] x.kind = "derived" -> attached' = {d} /\ stored' = {d} /\ heads' = {1} /\ memRoot' = 1
            [] x.kind = "grown"   -> LET g == Chg(2, "ch", "W", "W", 0, {1}, 1, TRUE, TRUE)
                                     IN attached' = {r, g} /\ stored' = {r, g} /\ heads' = {2} /\ memRoot' = 1
            [] x.kind = "reduced" -> attached' = {s} /\ stored' = {r, s} /\ heads' = {2} /\ memRoot' = 2

TraceInit ==
    /\ l = 1 /\ drift = 0 /\ obs = <<"none">>
    /\ focus = "trace" /\ filt = FALSE /\ acl = <<>> /\ hist = <<>> /\ unatt = {}
    /\ attached = {} /\ heads = {} /\ stored = {} /\ memRoot = 1
    /\ phase = "build" /\ verdict = "none" /\ agree = TRUE /\ reopenOk = TRUE

\* a new run starts (many runs are concatenated in one file)
TrInit == IsEvent("Init") /\ Fresh(Trace[l]) /\ obs' = <<"none">> /\ UNCHANGED drift

\* AclList.AddRawRecord accepted the record of event e
TrAcl ==
    /\ IsEvent("Acl")
    /\ LET e == Trace[l].e IN
         /\ EvEnabled(e, Status)
         /\ acl' = Append(acl, e)
         /\ hist' = HistAfter(hist, e, N + 1)
    /\ obs' = Trace[l].perms
    \* the transcription of the appliers must give the answers the real ACL gives
    /\ drift' = IF \A i \in 0..(N + 1) : (LET p == Closest(hist', Len(hist'), i) IN p) = Trace[l].perms[i + 1]
                THEN drift ELSE drift + 1
    /\ UNCHANGED <<focus, filt, unatt, attached, heads, stored, memRoot, phase, verdict, agree, reopenOk>>

Explained(x, r) ==
    /\ r.verdict = x.v
    /\ Ids(r.attached) = SetOf(x.att) /\ r.heads = SetOf(x.heads)
    /\ Ids(r.stored) = SetOf(x.st) /\ r.memRoot = x.mr

\* what the transcription says AddRawChanges[WithUpdater] does with the logged batch
Outcome(x) ==
    LET r == CodeDeliver(BatchOfLine(x))
    IN IF x.mode = "updater-err" /\ r.verdict # "reject" THEN Unchanged("reject") ELSE r

\* the logged ids as change records (known from the tree, the storage or the batch itself)
Known(x) == attached \cup stored \cup SetOf(BatchOfLine(x))
Recs(x, idseq) == {c \in Known(x) : c.id \in SetOf(idseq)}

TrDeliver ==
    /\ IsEvent("Deliver")
    /\ LET x == Trace[l]
           r == Outcome(x)
       IN IF Explained(x, r)
            THEN Apply(r) /\ drift' = drift
            ELSE \* not explained: adopt what the real tree did, the invariants still judge it
                 /\ attached' = Recs(x, x.att) /\ heads' = SetOf(x.heads)
                 /\ stored' = Recs(x, x.st) /\ memRoot' = x.mr /\ unatt' = {}
                 /\ drift' = drift + 1
                 /\ PrintT(<<"TRACE-DRIFT-AT", l, "predicted", r.verdict, Ids(r.attached), r.heads, Ids(r.stored), r.memRoot>>)
    /\ verdict' = "none"
    /\ agree' = (agree /\ PropDeliver(BatchOfLine(Trace[l])) = Trace[l].v)
    /\ UNCHANGED <<focus, filt, acl, hist, phase, reopenOk, obs>>

\* buildObjectTree on the same storage
TrReopen ==
    /\ IsEvent("Reopen")
    /\ LET x == Trace[l]
           ok == \A c \in stored : CodeValid(c, stored, 1)
       IN /\ reopenOk' = (reopenOk /\ x.ok)
          /\ IF x.ok THEN /\ attached' = {c \in attached \cup stored : c.id \in SetOf(x.att)}
                          /\ heads' = SetOf(x.heads) /\ memRoot' = x.mr
                     ELSE UNCHANGED <<attached, heads, memRoot>>
          /\ unatt' = {}
          /\ drift' = IF x.ok = ok /\ (x.ok => (SetOf(x.att) = Ids(stored) /\ x.mr = 1)) THEN drift ELSE drift + 1
    /\ UNCHANGED <<focus, filt, acl, hist, stored, phase, verdict, agree, obs>>

TraceNext == TrInit \/ TrAcl \/ TrDeliver \/ TrReopen
TraceSpec == TraceInit /\ [][TraceNext]_tvars

\* register 3 keeps the number of adopted lines for the postcondition (which cannot read variables)
Mark == HwMark(l) /\ TLCSet(3, IF drift > TLCGet(3) THEN drift ELSE TLCGet(3))
TraceAccepted == HwAccepted(Len(Trace)) /\ PrintT(<<"TRACE-DRIFT", TLCGet(3)>>)

\* evaluated on every state recorded from the real code
\* the real ACL's recorded permission history answers with the permission S really held
ObservedPermsFaithful == Len(obs) = N + 1 /\ \A i \in 0..N : obs[i + 1] = TruePerm("S", i)

TraceInv == AttachedOnlyIfAuthentic /\ AttachedOnlyIfAuthorised /\ StoredClosedAtRest /\ ObservedPermsFaithful /\ ReopenSucceeds
=============================================================================
