SPECIFICATION GSpec
CONSTANTS
  Bounds <- GenHistQ
  SampleAcl = 1
  SampleBytes = 1
  FIX_AddKeepsHistory = TRUE
  Dev_NoVerifyOnRebuild = FALSE
  Dev_CurrentPerms = FALSE
  Dev_RollbackKeepsAttached = FALSE
  Dev_IsAfterStrict = FALSE
  Dev_NoHasHead = FALSE
  Dev_NoParentAclCheck = FALSE
  Dev_StaleScratch = FALSE
  Dev_MemoWriter = FALSE
  Dev_RollbackOnlyHeads = FALSE
  Dev_CidByDigest = FALSE
  Dev_KeepUnattached = FALSE
INVARIANT Emit
VIEW GView
CHECK_DEADLOCK FALSE
