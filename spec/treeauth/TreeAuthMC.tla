----------------------------- MODULE TreeAuthMC -----------------------------
(* Bounds for the exhaustive runs of TreeAuth.  Three focuses are explored in one TLC run:   *)
(*   hist   long ACL histories (every event sequence the ACL validator admits), the           *)
(*          candidate delivered alone or behind a change of the same author: "writer at the  *)
(*          for every position of the cited record relative to grant / demote / remove /     *)
(*          re-add, and that the recorded permission history stays faithful,                  *)
(*   acl    shorter histories interleaved with a tree of accepted parent changes (signed by   *)
(*          S or W, citing any record), candidate alone or beside / below / above a valid     *)
(*          filler, normal and rebuild path: parents' ACL heads, all-or-nothing, no-op,       *)
(*   bytes  every mutation class x parent kind x batch position x tree flavour on a simple    *)
(*          history.                                                                          *)
EXTENDS TreeAuth

AllEv == {"addW", "addR", "joinW", "req", "accW", "promote", "demote", "remove", "other"}
Bd(ma, mp, mf, ev, ki, au, mu, pk, fl) ==
    [MaxAcl |-> ma, MaxParents |-> mp, MaxFill |-> mf, Events |-> ev, Kinds |-> ki, Authors |-> au,
     Muts |-> mu, PKinds |-> pk, Filters |-> fl, FAuthors |-> {"W"}, FCites |-> "two", Shape |-> "full", Pres |-> {FALSE}]

\* hist: a tree that already has one change on its root ("grown"), so that "fork" parents are inner
\* changes; the candidate alone, or behind one valid-looking change of the *same subject author*
\* citing any known record, or as the signature-less twin of the change unmarshalled just before
\* (same batch / previous call)
Hist(n)  == [Bd(n, 0, 1, AllEv, {"grown"}, {"S", "W"}, {"none", "twin", "idAlias", "bytes"}, {"heads", "fork"}, {FALSE})
               EXCEPT !.FAuthors = {"S", "W"}, !.FCites = "all", !.Shape = "hist", !.Pres = BOOLEAN]
AclT(n, p) == [Bd(n, p, 1, AllEv, {"signed", "reduced"}, {"S", "W"}, {"none"},
                  {"heads", "fork", "redundant", "oldroot"}, {FALSE}) EXCEPT !.FAuthors = {"S", "W"}]
Bytes(n, p, f) == [Bd(n, p, f, {"addW", "other"}, {"signed", "derived", "reduced"}, {"S", "W", "X"},
                      AllMuts, AllPKinds, BOOLEAN) EXCEPT !.Pres = BOOLEAN]

BoundsQuick    == [hist |-> Hist(4), acl |-> AclT(2, 1), bytes |-> Bytes(1, 0, 1)]
BoundsThorough == [hist |-> Hist(6), acl |-> AclT(3, 2), bytes |-> Bytes(2, 1, 2)]
\* small full product: no focus-specific restriction at all (cross-check that the dimensions do not interact)
BoundsFull     == [full |-> Bd(2, 1, 1, AllEv, {"signed", "derived", "reduced"}, {"S", "W", "X"}, AllMuts, AllPKinds, BOOLEAN)]
\* behaviour generation (TreeAuthGen): hist exhaustively, acl / bytes by -simulate (may exceed the exhaustive bounds)
GenHistQ == [hist |-> Hist(3)]
GenHistT == [hist |-> Hist(4)]
GenSimQ  == [acl |-> AclT(3, 2), bytes |-> Bytes(2, 1, 2)]
GenSimT  == [acl |-> AclT(4, 2), bytes |-> Bytes(2, 2, 2)]
BoundsTrace == [trace |-> Bd(99, 99, 9, AllEv, {"signed", "derived", "reduced"}, {"S", "W", "X"}, AllMuts, AllPKinds, BOOLEAN)]
\* small instance on which every named deviation must be refuted (checks/C02.py, thorough tier)
BoundsSanity == [hist |-> Hist(3), acl |-> AclT(1, 1), bytes |-> Bytes(1, 0, 1)]
BoundsTiny     == [hist |-> Hist(2), acl |-> AclT(1, 1), bytes |-> Bytes(1, 0, 1)]
=============================================================================
