SPECIFICATION Spec
CONSTANTS
  Bounds <- BoundsTiny
  FIX_AddKeepsHistory = TRUE
  Dev_NoVerifyOnRebuild = FALSE
  Dev_CurrentPerms = FALSE
  Dev_RollbackKeepsAttached = FALSE
  Dev_IsAfterStrict = FALSE
  Dev_NoHasHead = FALSE
  Dev_NoParentAclCheck = FALSE
  Dev_StaleScratch = FALSE
  Dev_MemoWriter = FALSE
  Dev_RollbackOnlyHeads = FALSE
  Dev_CidByDigest = FALSE
  Dev_KeepUnattached = FALSE
INVARIANT Inv
INVARIANT PermHistoryFaithful
INVARIANT StoredStaysValid
INVARIANT VerdictsAgree
PROPERTY RejectedBatchIsNoOp
CHECK_DEADLOCK FALSE
