---------------------------- MODULE TreeAuthGen ----------------------------
(* Behaviour generation for the Go binding.  A behaviour is a *context* (tree flavour, the     *)
(* interleaved sequence of ACL records appended and parent changes delivered) together with   *)
(* the table of candidate batches the specification can deliver in that context and, for each, *)
(* the outcome the specification predicts (the code's verdict and post-state, and the         *)
(* property's verdict).  One JSON file per context is written when the context is complete.  *)
(* hist contexts are emitted exhaustively (VIEW merges different build orders of the same     *)
(* context); acl / bytes contexts are sampled with -simulate and, inside a context, the table *)
(* is thinned deterministically by SampleMod / Salt.                                           *)
EXTENDS TreeAuthMC, VerifEmit

CONSTANTS SampleAcl,    \* keep 1 of SampleAcl batches of a context of the acl focus (1 = all)
          SampleBytes   \* keep 1 of SampleBytes batches of a context of the bytes focus

Salt == IF "VERIF_SEED" \in DOMAIN IOEnv THEN atoi(IOEnv.VERIF_SEED) ELSE 1

VARIABLES h,     \* history of build steps
          kind,  \* tree flavour chosen in Init
          minLen \* the context is completed only after this many build steps (spreads -simulate walks)
gvars == <<vars, h, kind, minLen>>

ASSUME EmitReset

KindOf == IF memRoot = 2 THEN "reduced"
          ELSE IF \E c \in stored : c.kind = "droot" THEN "derived"
          ELSE IF Cardinality(stored) = 2 THEN "grown" ELSE "signed"

GInit == /\ Init /\ h = <<>> /\ kind = KindOf
         /\ minLen \in 0..(Bounds[focus].MaxAcl + Bounds[focus].MaxParents)

GNext == /\ \/ \E e \in Events : AclAppend(e) /\ h' = Append(h, [a |-> "acl", e |-> e, au |-> "", cite |-> 0])
            \/ \E au \in {"S", "W"}, cite \in 0..N :
                   AddParent(au, cite) /\ h' = Append(h, [a |-> "par", e |-> "", au |-> au, cite |-> cite])
            \/ (Len(h) >= minLen /\ Ready /\ h' = h)
         /\ UNCHANGED <<kind, minLen>>

GSpec == GInit /\ [][GNext]_gvars

DCode(d) == (IF d.pre THEN 2 ELSE 0) + d.nf + 3 * d.pos + 7 * d.cite + 11 * d.fc + (IF d.fa = "S" THEN 5 ELSE 0)
            + (IF d.after = "child" THEN 0 ELSE 13)
            + (CASE d.au = "S" -> 0 [] d.au = "W" -> 17 [] OTHER -> 29)
            + (CASE d.pk = "heads" -> 0 [] d.pk = "fork" -> 31 [] d.pk = "redundant" -> 37
                 [] d.pk = "unknown" -> 41 [] OTHER -> 43)
            + (CASE d.m = "none" -> 0 [] d.m = "bytes" -> 47 [] d.m = "bytesReid" -> 53 [] d.m = "id" -> 59
                 [] d.m = "idDup" -> 61 [] d.m = "swap" -> 67 [] d.m = "twin" -> 73 [] d.m = "idAlias" -> 79 [] OTHER -> 71)

SampleMod == IF focus = "bytes" THEN SampleBytes ELSE IF focus = "acl" THEN SampleAcl ELSE 1
Kept(d) == SampleMod = 1 \/ (DCode(d) + Salt + Len(h)) % SampleMod = 0

SeqOfSet(S) == LET RECURSIVE F(_) F(T) == IF T = {} THEN <<>> ELSE LET x == Max(T) IN Append(F(T \ {x}), x) IN F(S)

Member(c) == [id |-> c.id, kind |-> c.kind, au |-> c.au, named |-> c.named, cite |-> c.cite,
              par |-> SeqOfSet(c.par), snap |-> c.snap, cidOk |-> c.cidOk, sigOk |-> c.sigOk, tw |-> c.tw, al |-> c.al]

CaseOf(d) ==
    LET b == BatchOf(d)
        g == [b[d.pos + 1] EXCEPT !.cidOk = TRUE, !.sigOk = TRUE]
        r == CodeDeliverU(b, IF d.pre /\ Dev_KeepUnattached THEN unatt \cup {g} ELSE unatt)
    IN [d |-> d, b |-> [k \in 1..Len(b) |-> Member(b[k])], v |-> r.verdict, p |-> PropDeliver(b),
        att |-> SeqOfSet(Ids(r.attached)), heads |-> SeqOfSet(r.heads), st |-> SeqOfSet(Ids(r.stored)),
        mr |-> r.memRoot]

Context ==
    [focus |-> focus, kind |-> kind, filt |-> filt, steps |-> h, acl |-> acl,
     status |-> [i \in 1..(N + 1) |-> PermOf(StatusAt(acl, i - 1))],
     pre |-> [att |-> SeqOfSet(Ids(attached)), heads |-> SeqOfSet(heads), st |-> SeqOfSet(Ids(stored)), mr |-> memRoot,
              chs |-> {Member(c) : c \in stored}],
     cases |-> {CaseOf(d) : d \in {x \in Descs : Kept(x)}}]

Emit == EmitWhen(phase = "cand", Context)

\* different build orders of the same context are one context
GView == <<vars, kind>>
=============================================================================
