------------------------------ MODULE TreeAuth ------------------------------
(* C02 - only authentic, authorised changes are ever attached or persisted.                     *)
(*                                                                                                *)
(* What is modelled (any-sync, commonspace/object):                                               *)
(*   acl/list/aclstate.go   the per-account PermissionChanges history kept by the appliers        *)
(*                          (applyAccountsAdd / InviteJoin / RequestJoin+Accept / PermissionChange*)
(*                          / AccountRemove), PermissionsAtRecord + closestPermissions,           *)
(*   acl/list/list.go       HasHead, IsAfter / isAfterNoCheck (record index comparison),          *)
(*   tree/objecttree        changebuilder.Unmarshall(verify): CID check then signature check      *)
(*                          (derived root exempt), objecttreevalidator.validateChange,            *)
(*                          objecttree.addChangesToTree: skip-known / verify loop, Tree.Add,      *)
(*                          ValidateNewChanges + rollback closure, the rebuildFromStorage path    *)
(*                          (ValidateFullTree + rebuild-without-new-changes), storage.AddAll,     *)
(*                          buildObjectTree (reopen = full validation of what is stored).         *)
(*                                                                                                *)
(* One ACL (the local replica) over a subject account S, an always-writer account W and a         *)
(* never-member X.  Record 0 is the head of a fixed prelude in which W became a writer; records   *)
(* 1..Len(acl) are the timeline.  AddRawChanges runs under the tree lock, so one delivery is one  *)
(* action (Deliver); its internal steps are the operators Unmarshal / TreeAdd / CodeValid /       *)
(* rollback written out below.  Bytes and crypto are symbolic (DESIGN 1.2): a raw change carries  *)
(* cidOk ("id = hash(bytes)") and sigOk ("signature verifies under the identity it names") which  *)
(* the mutation classes falsify; the harness renders every class to real bytes.                   *)
(*                                                                                                *)
(* The *property's* acceptance rule is PropOK (authentic /\ authorised at the cited record, by    *)
(* the true permission history /\ cited record known /\ not older than the parents' records);     *)
(* the *code's* rule is CodeValid over the PermissionChanges history the appliers recorded.       *)
EXTENDS Integers, Sequences, FiniteSets, TLC

CONSTANTS
    Bounds,       \* [focus name -> bounds record], see TreeAuthMC.tla; one TLC run explores the union
    FIX_AddKeepsHistory,       \* TRUE = repaired applyAccountsAdd (appends to PermissionChanges)
    \* deviations (all FALSE in the registered configurations; used to show the invariants bite)
    Dev_NoVerifyOnRebuild,     \* Unmarshall(ch, false) when the batch takes the rebuild path
    Dev_CurrentPerms,          \* validateChange asks Permissions(identity) instead of PermissionsAtRecord
    Dev_RollbackKeepsAttached, \* rollback closure restores heads but leaves the changes attached
    Dev_IsAfterStrict,         \* isAfterNoCheck uses > instead of >=
    Dev_NoHasHead,             \* PermissionsAtRecord without the HasHead guard
    Dev_NoParentAclCheck,      \* validateChange without the "acl head not older than parents'" loop
    Dev_StaleScratch,          \* Unmarshall keeps the signature of the previous call in its scratch message
    Dev_MemoWriter,            \* one validation pass checks "is writer" once per author, whatever record is cited
    Dev_RollbackOnlyHeads,     \* rollback detaches the rejected changes from the previous heads only
    Dev_CidByDigest,           \* VerifyCid compares decoded digests: any other spelling of the id passes
    Dev_KeepUnattached         \* Tree.Add does not clear unAttached: a later raw change with such an id is not verified

(* A bounds record:                                                                             *)
(*   MaxAcl      timeline records after the prelude                                             *)
(*   MaxParents  accepted single changes before the candidate batch                             *)
(*   MaxFill     valid filler changes accompanying the candidate (batch size <= MaxFill + 1)    *)
(*   Events      subset of AllEvents usable in the timeline                                     *)
(*   Kinds       subset of {"signed","derived","reduced"}: tree flavours                        *)
(*   Authors     subset of {"S","W","X"}: who signs the candidate                               *)
(*   Muts        subset of AllMuts: mutation classes applied to the candidate                   *)
(*   PKinds      subset of AllPKinds: what the candidate names as parents                       *)
(*   FAuthors    subset of {"S","W"}: who signs the valid-looking fillers                       *)
(*   FCites      "two" (fillers cite the newest record or the newest record of the heads) or    *)
(*               "all" (any known record)                                                       *)
(*   Shape       "full" | "hist": hist = candidate alone, or behind one filler of the subject,  *)
(*               or the signature-less twin of the change unmarshalled just before              *)
(*   Pres        subset of BOOLEAN: may the genuine candidate be delivered on its own, before its  *)
(*               parent, in an earlier call (it stays unattached there)                         *)
(*   Filters     subset of BOOLEAN: is the tree built with the filtering validator              *)
(*               (BuildKeyFilterableObjectTree: changes citing an unknown ACL record are        *)
(*               dropped by FilterChanges instead of failing validation)                        *)

AllEvents == {"addW", "addR", "joinW", "req", "accW", "promote", "demote", "remove", "other"}
AllMuts   == {"none", "bytes", "bytesReid", "id", "idAlias", "idDup", "swap", "unsigned", "twin"}
AllPKinds == {"heads", "fork", "redundant", "unknown", "oldroot"}

ASSUME \A f \in DOMAIN Bounds :
          /\ Bounds[f].Events \subseteq AllEvents /\ Bounds[f].Muts \subseteq AllMuts
          /\ Bounds[f].PKinds \subseteq AllPKinds
          /\ Bounds[f].Kinds \subseteq {"signed", "derived", "reduced", "grown"}
          /\ Bounds[f].FAuthors \subseteq {"S", "W"} /\ Bounds[f].FCites \in {"two", "all"}
          /\ Bounds[f].Shape \in {"full", "hist"}
          /\ Bounds[f].Authors \subseteq {"S", "W", "X"}

VARIABLES
    focus,     \* which bounds record this behaviour runs under (never changes)
    filt,      \* the tree uses the filtering validator (never changes)
    acl,       \* Seq(Events): timeline, record i = acl[i]; record 0 = prelude head
    hist,      \* Seq([rec, perm]): S's PermissionChanges as the appliers of aclstate.go keep them
    attached,  \* set of change records: the in-memory tree (Tree.attached)
    heads,     \* set of ids (Tree.headIds)
    unatt,     \* set of change records: Tree.unAttached as it is left when Add returns (always {})
    stored,    \* set of change records: what storage.AddAll persisted (GetAfterOrder)
    memRoot,   \* id of the in-memory root (Tree.root): 1, or 2 when reduced to the snapshot
    phase,     \* "build" | "cand" | "final"
    verdict,   \* outcome of the candidate delivery: "none" | "accept" | "nothing" | "reject"
    agree,     \* the code's verdict equalled the property's verdict on every delivery so far
    reopenOk   \* every buildObjectTree (reopen) so far validated the stored tree
vars == <<focus, filt, acl, hist, attached, heads, unatt, stored, memRoot, phase, verdict, agree, reopenOk>>

B == Bounds[focus]
MaxAcl == B.MaxAcl
MaxParents == B.MaxParents
MaxFill == B.MaxFill
Events == B.Events
Kinds == B.Kinds
Authors == B.Authors
Muts == B.Muts
PKinds == B.PKinds
FAuthors == B.FAuthors

N == Len(acl)
UnknownRec == N + 1          \* a record id the local replica does not hold
UnknownId == 99              \* a change id nobody holds

(* ------------------------------- the ACL ------------------------------------ *)
RECURSIVE StatusAt(_, _)
StatusAt(a, i) ==          \* S's true membership status after record i
    IF i = 0 THEN "none"
    ELSE LET p == StatusAt(a, i - 1)
             e == a[i]
         IN CASE e \in {"addW", "joinW", "accW", "promote"} -> "writer"
              [] e \in {"addR", "demote"} -> "reader"
              [] e = "remove" -> "removed"
              [] e = "req" -> "pending"
              [] OTHER -> p
Status == StatusAt(acl, N)

PermOf(st) == IF st = "writer" THEN "writer" ELSE IF st = "reader" THEN "reader" ELSE "none"

\* the validator of acl/list/validator.go, for the events the timeline uses
EvEnabled(e, st) ==
    CASE e \in {"addW", "addR", "joinW", "req"} -> st \in {"none", "removed"}
      [] e = "accW" -> st = "pending"
      [] e = "promote" -> st = "reader"
      [] e = "demote" -> st = "writer"
      [] e = "remove" -> st \in {"reader", "writer"}
      [] OTHER -> TRUE

\* what the appliers do to accountState.PermissionChanges of S when record n is applied
HistAfter(h, e, n) ==
    CASE e \in {"addW", "addR"} ->
             LET p == IF e = "addW" THEN "writer" ELSE "reader"
             IN IF FIX_AddKeepsHistory THEN Append(h, [rec |-> n, perm |-> p])
                ELSE <<[rec |-> n, perm |-> p]>>        \* applyAccountsAdd builds a fresh AccountState
      [] e \in {"joinW", "accW", "promote"} -> Append(h, [rec |-> n, perm |-> "writer"])
      [] e = "demote" -> Append(h, [rec |-> n, perm |-> "reader"])
      [] e = "remove" -> Append(h, [rec |-> n, perm |-> "none"])
      [] OTHER -> h                                     \* req (applyRequestJoin keeps the history), other

\* the property's notion: permission the identity held at record i
TruePerm(who, i) ==
    IF i < 0 \/ i > N THEN "none"
    ELSE IF who = "W" THEN "writer"
    ELSE IF who = "S" THEN PermOf(StatusAt(acl, i))
    ELSE "none"

IsAfterNoCheck(i, j) == IF Dev_IsAfterStrict THEN i > j ELSE i >= j

\* closestPermissions: newest entry whose record is not after i
RECURSIVE Closest(_, _, _)
Closest(h, k, i) ==
    IF k = 0 THEN "none"
    ELSE IF IsAfterNoCheck(i, h[k].rec) THEN h[k].perm ELSE Closest(h, k - 1, i)

\* AclState.PermissionsAtRecord: "err" = ErrNoSuchRecord / ErrNoSuchAccount
CodePerm(who, i) ==
    IF Dev_CurrentPerms THEN (IF who = "W" THEN "writer" ELSE IF who = "S" THEN PermOf(Status) ELSE "none")
    ELSE IF ~Dev_NoHasHead /\ (i < 0 \/ i > N) THEN "err"
    ELSE LET j == IF i < 0 \/ i > N THEN 0 ELSE i      \* indexes[unknown] = 0 without the guard
         IN IF who = "W" THEN "writer"
            ELSE IF who = "S" THEN (IF hist = <<>> /\ Status = "none" THEN "err" ELSE Closest(hist, Len(hist), j))
            ELSE "err"

(* ------------------------------ changes ------------------------------------- *)
\* kind: "root" signed root, "droot" unsigned derived root, "snap" snapshot, "ch" ordinary
\* tw # 0: the raw change carries exactly the signed payload of change tw but no signature field
Chg(id, kind, au, named, cite, par, snap, cidOk, sigOk) ==
    [id |-> id, kind |-> kind, au |-> au, named |-> named, cite |-> cite, par |-> par,
     snap |-> snap, cidOk |-> cidOk, sigOk |-> sigOk, tw |-> 0, al |-> FALSE]
\* al: the id is another spelling (multibase / case) of the hash of the bytes, not the canonical string
\* the signature-less twin of change t: same payload bytes (hence same identity, cited record,
\* parents), signature field absent on the wire, id = hash of the new bytes
Twin(id, t) == [t EXCEPT !.id = id, !.sigOk = FALSE, !.tw = t.id, !.kind = "ch"]

Ids(cs) == {c.id : c \in cs}
ById(cs, i) == CHOOSE c \in cs : c.id = i
HeadsOf(cs) == {c.id : c \in {d \in cs : ~\E e \in cs : d.id \in e.par}}
MaxId == LET s == Ids(stored \cup attached) IN CHOOSE m \in s : \A x \in s : x <= m
Max(S) == CHOOSE m \in S : \A x \in S : x <= m

Authentic(c) == c.cidOk /\ (c.sigOk \/ c.kind = "droot")

\* the property's rule for one change inside the set of changes cs it would be attached to
Authorised(c, cs) ==
    \/ c.kind = "droot"
    \/ /\ c.cite \in 0..N
       /\ TruePerm(c.named, c.cite) = "writer"
       /\ \A p \in c.par : p \in Ids(cs) =>
              LET pc == ById(cs, p) IN pc.kind = "droot" \/ c.cite >= pc.cite
PropOK(c, cs) == Authentic(c) /\ Authorised(c, cs)

\* objecttreevalidator.validateChange, with tr = the tree it runs on, rootId = tr.RootId()
\* pass = the changes one ValidateNewChanges / ValidateFullTree call looks at (Dev_MemoWriter only)
CodeValidIn(c, tr, rootId, pass) ==
    \/ c.kind = "droot"
    \/ /\ \/ CodePerm(c.named, c.cite) = "writer"
          \/ /\ Dev_MemoWriter /\ c.cite \in 0..N
             /\ \E e \in pass : e.id < c.id /\ e.kind # "droot" /\ e.named = c.named
                                 /\ CodePerm(e.named, e.cite) = "writer"
       /\ \/ c.id = rootId
          \/ Dev_NoParentAclCheck
          \/ \A p \in c.par :
                 LET pc == ById(tr, p)
                 IN \/ pc.cite = c.cite
                    \/ pc.kind = "droot"
                    \/ (c.cite \in 0..N /\ pc.cite \in 0..N /\ c.cite >= pc.cite)   \* aclList.IsAfter
CodeValid(c, tr, rootId) == CodeValidIn(c, tr, rootId, {})

(* --------------------------- one delivery ----------------------------------- *)
\* Tree.Add: a change attaches when all its parents and its snapshot are attached, in whatever
\* order the batch lists them (waitList); what cannot attach stays unattached and is dropped at
\* the end of Add.  AttachPass = one pass in batch order, AttachSeq = its fixpoint.
RECURSIVE AttachPass(_, _, _)
AttachPass(seq, k, acc) ==
    IF k > Len(seq) THEN acc
    ELSE LET c == seq[k]
         IN IF c.par \subseteq Ids(acc) /\ c.snap \in Ids(acc) /\ c.id \notin Ids(acc)
              THEN AttachPass(seq, k + 1, acc \cup {c})
              ELSE AttachPass(seq, k + 1, acc)
RECURSIVE AttachSeq(_, _, _)
AttachSeq(seq, k, acc) ==
    LET a2 == AttachPass(seq, k, acc) IN IF a2 = acc THEN acc ELSE AttachSeq(seq, k, a2)

\* The tree a rebuild loads from storage starts at the common snapshot of our tree and of the
\* heads the sender announced (treeBuilder.lowestSnapshots / commonSnapshot).  In the bounded
\* trees here snapshots are the first root (1) and, in a reduced tree, the snapshot 2; the sender
\* announces the leaves of its batch; announced heads that were skipped or filtered do not count,
\* and a filtering tree that filtered anything announces nothing (headsToUse = []).
LeafIds(batch) == {batch[k].id : k \in {j \in 1..Len(batch) : ~\E i \in 1..Len(batch) : batch[j].id \in batch[i].par}}
CommonSnapshot(batch, fresh0, fresh) ==
    IF Len(fresh) # Len(fresh0) THEN memRoot
    ELSE IF \E k \in 1..Len(fresh) : fresh[k].id \in LeafIds(batch) /\ fresh[k].snap = 1 THEN 1
    ELSE memRoot
FromStorage(common) == IF common = 1 THEN stored ELSE {c \in stored : c.id >= common}

\* changeBuilder.Unmarshall(verify = true) over the batch in order.  The builder re-uses one scratch
\* RawTreeChange; scr = id of the change whose signature the scratch message would still hold if it
\* were not cleared before every call (it is: Dev_StaleScratch = FALSE).  A raw change without a
\* signature field does not overwrite the scratch signature.
RECURSIVE BadFrom(_, _, _)
BadFrom(sq, k, scr) ==
    IF k > Len(sq) THEN FALSE
    ELSE LET c   == sq[k]
             sig == c.sigOk \/ (Dev_StaleScratch /\ c.tw # 0 /\ c.tw = scr)
             cid == c.cidOk \/ (Dev_CidByDigest /\ c.al)
         IN IF ~cid \/ ~sig THEN TRUE
            ELSE BadFrom(sq, k + 1, IF c.tw = 0 THEN c.id ELSE scr)
\* the change the tree's builder unmarshalled last: while a context is built, the last accepted
\* delivery (0 = none, e.g. the root only)
LastUnmarshalled == LET s == {c.id : c \in {x \in stored : x.kind = "ch"}} IN IF s = {} THEN 0 ELSE Max(s)

\* the result of AddRawChanges(batch): [verdict, attached, heads, stored, memRoot]
Res(v, a, h, s, r) == [verdict |-> v, attached |-> a, heads |-> h, stored |-> s, memRoot |-> r, un |-> {}]
Unchanged(v) == Res(v, attached, heads, stored, memRoot)

\* un = Tree.unAttached when the call starts.  A raw change whose id is found there is not
\* unmarshalled again (addChangesToTree re-uses the parsed change and takes the new bytes); Tree.Add
\* clears unAttached when it returns, so un is always {} unless Dev_KeepUnattached.
CodeDeliverU(batch, un) ==
    LET \* addChangesToTree, first loop: skip known ids, Unmarshall(ch, true) everything else
        fresh0  == SelectSeq(batch, LAMBDA c : c.id \notin Ids(attached))
        toCheck == SelectSeq(fresh0, LAMBDA c : c.id \notin Ids(un))
        \* validator.FilterChanges (filtering trees only): drop what cites an unknown ACL record
        fresh   == IF filt THEN SelectSeq(fresh0, LAMBDA c : c.cite \in 0..N) ELSE fresh0
        rebuild == \E k \in 1..Len(fresh) : fresh[k].snap # memRoot /\ fresh[k].snap \notin Ids(attached)
        verify  == ~(Dev_NoVerifyOnRebuild /\ rebuild)
        badRaw  == verify /\ BadFrom(toCheck, 1, LastUnmarshalled)
    IN IF badRaw THEN Unchanged("reject")                      \* returns before touching the tree
       ELSE IF Len(fresh) = 0 THEN Unchanged("nothing")
       ELSE IF rebuild
         THEN \* rebuildFromStorage(theirHeads, ..., newChanges): tree from storage + new changes,
              \* ValidateFullTree; on error rebuildFromStorage(nil) = what storage holds from the
              \* stored common snapshot (the root the in-memory tree had)
              LET common == CommonSnapshot(batch, fresh0, fresh)
                  base  == FromStorage(common)
                  tr    == AttachSeq(fresh, 1, base)
                  added == tr \ base
                  ok    == \A c \in tr : CodeValidIn(c, tr, common, tr)
              IN IF ok
                   THEN IF added = {} THEN Res("nothing", tr, HeadsOf(tr), stored, common)
                        ELSE Res("accept", tr, HeadsOf(tr), stored \cup added, common)
                   ELSE Res("reject", FromStorage(memRoot), HeadsOf(FromStorage(memRoot)), stored, memRoot)
         ELSE \* normal path: Tree.Add, ValidateNewChanges(added), rollback closure, storage.AddAll
              LET tr    == AttachSeq(fresh, 1, attached)
                  added == tr \ attached
                  ok    == \A c \in added : CodeValidIn(c, tr, memRoot, added)
                  \* Dev_RollbackOnlyHeads: what hangs off a change that was not a head stays linked
                  left  == IF Dev_RollbackOnlyHeads THEN {c \in added : c.par \cap (Ids(attached) \ heads) # {}} ELSE {}
              IN IF added = {} THEN [Unchanged("nothing") EXCEPT
                                       !.un = IF Dev_KeepUnattached THEN un \cup ({fresh[k] : k \in 1..Len(fresh)} \ tr) ELSE {}]
                 ELSE IF ok THEN [Res("accept", tr, HeadsOf(tr), stored \cup added, memRoot) EXCEPT
                                    !.un = IF Dev_KeepUnattached THEN {fresh[k] : k \in 1..Len(fresh)} \ tr ELSE {}]
                 ELSE Res("reject", IF Dev_RollbackKeepsAttached THEN tr ELSE attached \cup left, heads, stored, memRoot)

CodeDeliver(batch) == CodeDeliverU(batch, unatt)

\* the property's verdict for the same batch: reject iff some raw change that is looked at is not
\* authentic, or some change that would be attached is not authorised
PropDeliver(batch) ==
    LET fresh0  == SelectSeq(batch, LAMBDA c : c.id \notin Ids(attached))
        fresh   == IF filt THEN SelectSeq(fresh0, LAMBDA c : c.cite \in 0..N) ELSE fresh0
        rebuild == \E k \in 1..Len(fresh) : fresh[k].snap # memRoot /\ fresh[k].snap \notin Ids(attached)
        base    == IF rebuild THEN FromStorage(CommonSnapshot(batch, fresh0, fresh)) ELSE attached
        tr      == AttachSeq(fresh, 1, base)
        added   == tr \ base
    IN IF \E k \in 1..Len(fresh0) : ~Authentic(fresh0[k]) THEN "reject"
       ELSE IF Len(fresh) = 0 \/ added = {} THEN "nothing"
       ELSE IF \A c \in added : Authorised(c, tr) THEN "accept" ELSE "reject"

(* ------------------------ building candidate batches ------------------------ *)
RootCite == 0
CiteOf(c) == IF c.kind = "droot" THEN 0 ELSE c.cite
HeadCites == {CiteOf(ById(attached, h)) : h \in heads}

\* a valid change signed by `au` citing `cite` on top of the current heads
Plain(id, au, cite, par) == Chg(id, "ch", au, au, cite, par, memRoot, TRUE, TRUE)
\* the same, naming snapshot sn (a change below a branch that starts at the first root names that root)
PlainSn(id, au, cite, par, sn) == Chg(id, "ch", au, au, cite, par, sn, TRUE, TRUE)

\* the candidate: signer au, cited record cite, parents kind pk, mutation class m, linked below `link`
Cand(id, au, cite, pk, m, link) ==
    LET par  == CASE pk = "heads" -> link
                  [] pk = "fork" -> {memRoot}
                  [] pk = "redundant" -> link \cup {memRoot}
                  [] pk = "unknown" -> {UnknownId}
                  [] pk = "oldroot" -> {1}
        snap == IF pk = "oldroot" THEN 1 ELSE memRoot
        other == IF au = "W" THEN "S" ELSE "W"
    IN CASE m = "none"      -> Chg(id, "ch", au, au, cite, par, snap, TRUE, TRUE)
         [] m = "bytes"     -> Chg(id, "ch", au, au, cite, par, snap, FALSE, FALSE)  \* bytes altered, id stale
         [] m = "bytesReid" -> Chg(id, "ch", au, au, cite, par, snap, TRUE, FALSE)   \* bytes altered, id recomputed
         [] m = "id"        -> Chg(id, "ch", au, au, cite, par, snap, FALSE, TRUE)   \* id altered only
         [] m = "idAlias"   -> [Chg(id, "ch", au, au, cite, par, snap, FALSE, TRUE) EXCEPT !.al = TRUE] \* same hash, other spelling
         [] m = "idDup"     -> Chg(memRoot, "ch", au, au, cite, par, snap, FALSE, TRUE) \* id of a change already held
         [] m = "swap"      -> Chg(id, "ch", au, other, cite, par, snap, TRUE, FALSE) \* names another identity
         [] m = "unsigned"  -> Chg(id, "ch", au, au, cite, par, snap, TRUE, FALSE)   \* signature stripped, claims to be derived
         [] OTHER           -> Chg(id, "ch", au, au, cite, par, snap, TRUE, FALSE)   \* ("twin" is built in BuildBatch)

\* batch descriptor: nf fillers signed by fa citing fc, candidate at position pos (0-based),
\* fillers behind the candidate hang below it ("child") or beside it ("sibling")
FCSet == IF B.FCites = "all" THEN 0..N ELSE {Max(HeadCites \cup {0}), N}
Descs ==
    {d \in [nf : 0..MaxFill, pos : 0..MaxFill, after : {"child", "sibling"},
            fa : FAuthors, fc : FCSet, pre : B.Pres,
            au : Authors, cite : 0..(N + 1), pk : PKinds, m : Muts] :
        /\ d.pos <= d.nf
        /\ (d.pos = d.nf => d.after = "child")
        /\ (d.nf = 0 => (d.fc = N /\ d.fa = "W"))
        /\ (d.pk = "oldroot" => memRoot # 1)
        /\ (d.pk = "redundant" => memRoot \notin heads)
        \* the twin copies everything from the change unmarshalled just before it: the previous
        \* member of the batch, or (first position) the last change delivered to the tree
        \* pre: the genuine candidate was delivered alone in an earlier call, before its parent (the
        \* filler in front of it) existed locally; now the parent arrives together with the candidate
        /\ (d.pre => d.pos >= 1 /\ d.pk = "heads" /\ d.m \in {"none", "bytes"})
        /\ (d.m = "twin" => /\ d.pk = "heads" /\ d.au = "W" /\ d.cite = 0
                            /\ (d.pos = 0 => LastUnmarshalled # 0))
        /\ (B.Shape = "hist" =>
              \/ (d.nf = 0 /\ d.m = "none")
              \/ (d.nf = 0 /\ d.m = "twin")
              \/ (d.nf = 0 /\ d.m = "idAlias")
              \/ (d.nf = 1 /\ d.pos = 1 /\ d.m = "bytes" /\ d.pre /\ d.fa = "W" /\ d.au = "W" /\ d.cite = N /\ d.fc = N)
              \/ (d.nf = 1 /\ d.pos = 1 /\ d.m = "none" /\ d.fa = "S" /\ d.au = "S" /\ ~d.pre)
              \/ (d.nf = 1 /\ d.pos = 1 /\ d.m = "twin" /\ d.fc = N /\ ~d.pre))
        /\ (B.Shape = "hist" /\ d.nf = 0 => ~d.pre)}

RECURSIVE BuildBatch(_, _, _, _)
\* k = position being built (1-based), acc = sequence so far, base = highest id in use
BuildBatch(d, k, acc, base) ==
    IF k > d.nf + 1 THEN acc
    ELSE LET id    == base + k
             prev  == IF k = 1 THEN heads ELSE {acc[k - 1].id}
             \* a filler right behind the candidate in "sibling" mode links to what the candidate linked to
             link  == IF k = d.pos + 2 /\ d.after = "sibling"
                        THEN (IF k = 2 THEN heads ELSE {acc[k - 2].id})
                        ELSE prev
             \* a well-formed sender names, as snapshot, the snapshot of the branch it builds on
             sn    == IF k > 1 /\ link = {acc[k - 1].id} THEN acc[k - 1].snap ELSE memRoot
             c     == IF k = d.pos + 1
                        THEN (IF d.m = "twin"
                                THEN Twin(id, IF k > 1 THEN acc[k - 1] ELSE ById(stored, LastUnmarshalled))
                                ELSE Cand(id, d.au, d.cite, d.pk, d.m, prev))
                        ELSE PlainSn(id, d.fa, d.fc, link, sn)
         IN BuildBatch(d, k + 1, Append(acc, c), base)

BatchOf(d) == BuildBatch(d, 1, <<>>, MaxId)

(* -------------------------------- actions ----------------------------------- *)
InitTree(kind) ==
    CASE kind = "signed"  -> LET r == Chg(1, "root", "W", "W", 0, {}, 0, TRUE, TRUE)
                             IN /\ attached = {r} /\ stored = {r} /\ heads = {1} /\ memRoot = 1
      [] kind = "derived" -> LET r == Chg(1, "droot", "none", "none", 0, {}, 0, TRUE, FALSE)
                             IN /\ attached = {r} /\ stored = {r} /\ heads = {1} /\ memRoot = 1
      [] kind = "grown"   -> LET r == Chg(1, "root", "W", "W", 0, {}, 0, TRUE, TRUE)
                                 g == Chg(2, "ch", "W", "W", 0, {1}, 1, TRUE, TRUE)
                             IN /\ attached = {r, g} /\ stored = {r, g} /\ heads = {2} /\ memRoot = 1
      [] kind = "reduced" -> LET r == Chg(1, "root", "W", "W", 0, {}, 0, TRUE, TRUE)
                                 s == Chg(2, "snap", "W", "W", 0, {1}, 1, TRUE, TRUE)
                             IN /\ attached = {s} /\ stored = {r, s} /\ heads = {2} /\ memRoot = 2

Init ==
    /\ focus \in DOMAIN Bounds
    /\ filt \in Bounds[focus].Filters
    /\ acl = <<>> /\ hist = <<>> /\ unatt = {}
    /\ \E kind \in Bounds[focus].Kinds : InitTree(kind)
    /\ phase = "build" /\ verdict = "none" /\ agree = TRUE /\ reopenOk = TRUE

\* AclList.AddRawRecord of a record the ACL validator accepts
AclAppend(e) ==
    /\ phase = "build"
    /\ N < MaxAcl
    /\ EvEnabled(e, Status)
    /\ acl' = Append(acl, e)
    /\ hist' = HistAfter(hist, e, N + 1)
    /\ UNCHANGED <<focus, filt, unatt, attached, heads, stored, memRoot, phase, verdict, agree, reopenOk>>

Apply(r) == /\ attached' = r.attached /\ heads' = r.heads /\ stored' = r.stored /\ memRoot' = r.memRoot
            /\ unatt' = r.un

\* one valid-looking single change (signed by S or W, any known cited record) delivered while the
\* context is built; only accepted deliveries extend the context (rejected ones are no-ops and are
\* explored as candidate batches from the same state)
AddParent(au, cite) ==
    /\ phase = "build"
    /\ Cardinality({c \in stored : c.kind = "ch"}) < MaxParents
    /\ cite \in 0..N
    /\ LET b == <<Plain(MaxId + 1, au, cite, heads)>>
           r == CodeDeliver(b)
       IN /\ r.verdict = "accept"
          /\ Apply(r)
          /\ agree' = (agree /\ PropDeliver(b) = "accept")
    /\ UNCHANGED <<focus, filt, acl, hist, phase, verdict, reopenOk>>

\* the context is complete: next comes the candidate batch
Ready == /\ phase = "build" /\ phase' = "cand"
         /\ UNCHANGED <<focus, filt, unatt, acl, hist, attached, heads, stored, memRoot, verdict, agree, reopenOk>>

\* AddRawChanges(batch) for a batch containing the (possibly mutated) candidate
Deliver(d) ==
    /\ phase = "cand"
    /\ LET b == BatchOf(d)
           \* the earlier call (d.pre): Tree.Add puts the genuine candidate into unAttached - its parent
           \* is not there - reports nothing added, and clears unAttached when it returns
           g  == [b[d.pos + 1] EXCEPT !.cidOk = TRUE, !.sigOk = TRUE]
           u0 == IF d.pre /\ Dev_KeepUnattached THEN unatt \cup {g} ELSE unatt
           r == CodeDeliverU(b, u0)
       IN /\ Apply(r)
          /\ verdict' = r.verdict
          /\ agree' = (agree /\ PropDeliver(b) = r.verdict)
    /\ phase' = "final"
    /\ UNCHANGED <<focus, filt, acl, hist, reopenOk>>

\* buildObjectTree on the same storage: rebuildFromStorage(nil) + ValidateFullTree of what is stored
Reopen ==
    /\ phase = "final"
    /\ LET tr == FromStorage(1) IN
         /\ reopenOk' = (reopenOk /\ \A c \in tr : CodeValid(c, tr, 1))
         /\ attached' = tr /\ heads' = HeadsOf(tr) /\ memRoot' = 1 /\ unatt' = {}
    /\ UNCHANGED <<focus, filt, acl, hist, stored, phase, verdict, agree>>

AclAny == \E e \in Events : AclAppend(e)
ParentAny == \E au \in {"S", "W"}, cite \in 0..N : AddParent(au, cite)
DeliverAny == phase = "cand" /\ \E d \in Descs : Deliver(d)

\* (Reopen is not part of Next: StoredStaysValid states the same for every reachable state; the
\*  action is used by the trace specification, where the real reopen is an observed event)
Next == AclAny \/ ParentAny \/ Ready \/ DeliverAny

Spec == Init /\ [][Next]_vars

(* ------------------------------- properties --------------------------------- *)
TypeOK ==
    /\ focus \in DOMAIN Bounds /\ filt \in BOOLEAN
    /\ acl \in Seq(Events) /\ N <= MaxAcl
    /\ phase \in {"build", "cand", "final"} /\ verdict \in {"none", "accept", "nothing", "reject"}
    /\ memRoot \in {1, 2} /\ heads \subseteq Ids(attached)

\* C02, first half: id = hash(bytes) and signature under the named identity (derived root exempt)
AttachedOnlyIfAuthentic == \A c \in attached \cup stored : Authentic(c)

\* C02, second half: writer at the cited record, record known, not older than the parents' records
AttachedOnlyIfAuthorised ==
    /\ \A c \in attached : Authorised(c, attached \cup stored)
    /\ \A c \in stored : Authorised(c, stored)

\* persisted changes have their parents persisted; memory never holds what storage does not
StoredClosed ==
    /\ unatt = {}
    /\ \A c \in stored : c.par \subseteq Ids(stored)
    /\ attached \subseteq stored
    /\ heads = HeadsOf(attached)

\* the same, for states that may have been adopted from a recorded run
StoredClosedAtRest ==
    /\ \A c \in stored : c.par \subseteq Ids(stored)
    /\ Ids(attached) \subseteq Ids(stored)
    /\ heads = HeadsOf(attached)

\* C02, last sentence: a rejected batch leaves heads, iteration and storage exactly as they were
NoOpStep == (verdict = "none" /\ verdict' = "reject") =>
                (attached' = attached /\ heads' = heads /\ stored' = stored /\ memRoot' = memRoot)
RejectedBatchIsNoOp == [][NoOpStep]_vars

\* the recorded permission history answers "permission of S at record i" for every known record,
\* whatever was appended afterwards (anchor state: PermissionChanges per account)
PermHistoryFaithful ==
    \A i \in 0..N : LET p == CodePerm("S", i) IN (IF p = "err" THEN "none" ELSE p) = TruePerm("S", i)

\* so whatever the tree holds stays valid for the code's own validator: reopen / rebuild succeed
StoredStaysValid == \A c \in stored : CodeValid(c, stored, 1)
ReopenSucceeds == reopenOk

\* the code's verdict is the property's verdict (strict direction included)
VerdictsAgree == agree

Inv == TypeOK /\ AttachedOnlyIfAuthentic /\ AttachedOnlyIfAuthorised /\ StoredClosed
=============================================================================
