INIT Init
NEXT Next
CONSTANTS
  Tier = "thorough"
INVARIANT OutcomeOK
CHECK_DEADLOCK FALSE
