INIT Init
NEXT Next
CONSTANTS
  Tier = "quick"
INVARIANT OutcomeOK
CHECK_DEADLOCK FALSE
