----------------------------- MODULE HostileGen -----------------------------
(* Case generation: every group (entry point x variant x receiver state) is written once as  *)
(* JSON with the complete list of its cases; the initial state writes the coverage table.    *)
EXTENDS Hostile, VerifEmit
ASSUME EmitReset
GroupRecord == [kind |-> "group", tier |-> Tier, group |-> group, cases |-> CasesOf(group)]
TableRecord == [kind |-> "coverage", tier |-> Tier, table |-> CoverageTable]
Emit == /\ EmitWhen(phase = "group", GroupRecord)
        /\ EmitWhen(phase = "idle", TableRecord)
(* generation explores only the group level: the cases are listed inside the group record *)
GenNext == ChooseGroup
=============================================================================
