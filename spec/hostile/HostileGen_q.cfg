INIT Init
NEXT Next
CONSTANTS
  Tier = "quick"
INVARIANT OutcomeOK
INVARIANT Emit
CHECK_DEADLOCK FALSE
