INIT Init
NEXT GenNext
CONSTANTS
  Tier = "thorough"
INVARIANT Emit
CHECK_DEADLOCK FALSE
