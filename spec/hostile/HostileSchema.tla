--------------------------- MODULE HostileSchema ---------------------------
(* GENERATED - do not edit. Written by harness/hostile (TestGenSchema) from the protobuf  *)
(* descriptors of the repository plus the annotations in harness/hostile/schema.go:      *)
(* k = kind of the field (what a hostile author can do with it), t = type of the message *)
(* it contains (msg: protobuf sub-message; emb: bytes that are decoded as that message), *)
(* rep = repeated, oneof = name of the oneof group it belongs to.                        *)
(* checks/C11.py fails (exit 2) when this file differs from the regenerated one.         *)
F(n, k, t, rep, oo) == [n |-> n, k |-> k, t |-> t, rep |-> rep, oneof |-> oo]

Schema == [
  Ack |-> <<
      F("error", "enum", "", FALSE, "") >>,
  AclAccountAdd |-> <<
      F("identity", "key_pub", "", FALSE, ""),
      F("permissions", "enum", "", FALSE, ""),
      F("metadata", "ct_x25519", "", FALSE, ""),
      F("encryptedReadKey", "ct_x25519", "Key", FALSE, "") >>,
  AclAccountInvite |-> <<
      F("inviteKey", "key_pub", "", FALSE, ""),
      F("inviteType", "enum", "", FALSE, ""),
      F("permissions", "enum", "", FALSE, ""),
      F("encryptedReadKey", "ct_x25519", "Key", FALSE, "") >>,
  AclAccountInviteChange |-> <<
      F("inviteRecordId", "id", "", FALSE, ""),
      F("permissions", "enum", "", FALSE, "") >>,
  AclAccountInviteJoin |-> <<
      F("identity", "key_pub", "", FALSE, ""),
      F("inviteRecordId", "id", "", FALSE, ""),
      F("inviteIdentitySignature", "sig", "", FALSE, ""),
      F("metadata", "ct_x25519", "", FALSE, ""),
      F("encryptedReadKey", "ct_x25519", "Key", FALSE, ""),
      F("permissions", "enum", "", FALSE, "") >>,
  AclAccountInviteRevoke |-> <<
      F("inviteRecordId", "id", "", FALSE, "") >>,
  AclAccountPermissionChange |-> <<
      F("identity", "key_pub", "", FALSE, ""),
      F("permissions", "enum", "", FALSE, "") >>,
  AclAccountPermissionChanges |-> <<
      F("changes", "msg", "AclAccountPermissionChange", TRUE, "") >>,
  AclAccountRemove |-> <<
      F("identities", "key_pub", "", TRUE, ""),
      F("readKeyChange", "msg", "AclReadKeyChange", FALSE, "") >>,
  AclAccountRequestAccept |-> <<
      F("identity", "key_pub", "", FALSE, ""),
      F("requestRecordId", "id", "", FALSE, ""),
      F("encryptedReadKey", "ct_x25519", "Key", FALSE, ""),
      F("permissions", "enum", "", FALSE, "") >>,
  AclAccountRequestCancel |-> <<
      F("recordId", "id", "", FALSE, "") >>,
  AclAccountRequestDecline |-> <<
      F("requestRecordId", "id", "", FALSE, "") >>,
  AclAccountRequestJoin |-> <<
      F("inviteIdentity", "key_pub", "", FALSE, ""),
      F("inviteRecordId", "id", "", FALSE, ""),
      F("inviteIdentitySignature", "sig", "", FALSE, ""),
      F("metadata", "ct_x25519", "", FALSE, "") >>,
  AclAccountRequestRemove |-> << >>,
  AclAccountsAdd |-> <<
      F("additions", "msg", "AclAccountAdd", TRUE, "") >>,
  AclContentValue |-> <<
      F("invite", "msg", "AclAccountInvite", FALSE, "value"),
      F("inviteRevoke", "msg", "AclAccountInviteRevoke", FALSE, "value"),
      F("requestJoin", "msg", "AclAccountRequestJoin", FALSE, "value"),
      F("requestAccept", "msg", "AclAccountRequestAccept", FALSE, "value"),
      F("permissionChange", "msg", "AclAccountPermissionChange", FALSE, "value"),
      F("accountRemove", "msg", "AclAccountRemove", FALSE, "value"),
      F("readKeyChange", "msg", "AclReadKeyChange", FALSE, "value"),
      F("requestDecline", "msg", "AclAccountRequestDecline", FALSE, "value"),
      F("accountRequestRemove", "msg", "AclAccountRequestRemove", FALSE, "value"),
      F("permissionChanges", "msg", "AclAccountPermissionChanges", FALSE, "value"),
      F("accountsAdd", "msg", "AclAccountsAdd", FALSE, "value"),
      F("requestCancel", "msg", "AclAccountRequestCancel", FALSE, "value"),
      F("inviteJoin", "msg", "AclAccountInviteJoin", FALSE, "value"),
      F("inviteChange", "msg", "AclAccountInviteChange", FALSE, "value"),
      F("ownershipChange", "msg", "AclOwnershipChange", FALSE, "value"),
      F("spaceOptionsChange", "msg", "AclSpaceOptionsChange", FALSE, "value") >>,
  AclData |-> <<
      F("aclContent", "msg", "AclContentValue", TRUE, "") >>,
  AclEncryptedReadKey |-> <<
      F("identity", "key_pub", "", FALSE, ""),
      F("encryptedReadKey", "ct_x25519", "Key", FALSE, "") >>,
  AclOneToOneInfo |-> <<
      F("owner", "key_pub", "", FALSE, ""),
      F("writers", "key_pub", "", TRUE, "") >>,
  AclOwnershipChange |-> <<
      F("newOwnerIdentity", "key_pub", "", FALSE, ""),
      F("oldOwnerPermissions", "enum", "", FALSE, "") >>,
  AclReadKeyChange |-> <<
      F("accountKeys", "msg", "AclEncryptedReadKey", TRUE, ""),
      F("metadataPubKey", "key_pub", "", FALSE, ""),
      F("encryptedMetadataPrivKey", "ct_aes", "Key", FALSE, ""),
      F("encryptedOldReadKey", "ct_aes", "Key", FALSE, ""),
      F("inviteKeys", "msg", "AclEncryptedReadKey", TRUE, "") >>,
  AclRecord |-> <<
      F("aclPayload", "emb", "RawRecord", FALSE, ""),
      F("id", "cid", "", FALSE, "") >>,
  AclRoot |-> <<
      F("identity", "key_pub", "", FALSE, ""),
      F("masterKey", "key_pub", "", FALSE, ""),
      F("spaceId", "string", "", FALSE, ""),
      F("encryptedReadKey", "ct_x25519", "Key", FALSE, ""),
      F("timestamp", "varint", "", FALSE, ""),
      F("identitySignature", "sig", "", FALSE, ""),
      F("metadataPubKey", "key_pub", "", FALSE, ""),
      F("encryptedMetadataPrivKey", "ct_aes", "Key", FALSE, ""),
      F("encryptedOwnerMetadata", "ct_x25519", "", FALSE, ""),
      F("oneToOneInfo", "msg", "AclOneToOneInfo", FALSE, ""),
      F("options", "msg", "AclSpaceOptions", FALSE, "") >>,
  AclSpaceOptions |-> <<
      F("deleteRestricted", "varint", "", FALSE, "") >>,
  AclSpaceOptionsChange |-> <<
      F("options", "msg", "AclSpaceOptions", FALSE, "") >>,
  Credentials |-> <<
      F("type", "enum", "", FALSE, ""),
      F("payload", "emb", "PayloadSignedPeerIds", FALSE, ""),
      F("version", "varint", "", FALSE, ""),
      F("clientVersion", "string", "", FALSE, "") >>,
  HeadSyncRange |-> <<
      F("from", "varint", "", FALSE, ""),
      F("to", "varint", "", FALSE, ""),
      F("limit", "varint", "", FALSE, ""),
      F("elements", "varint", "", FALSE, "") >>,
  HeadSyncRequest |-> <<
      F("spaceId", "string", "", FALSE, ""),
      F("ranges", "msg", "HeadSyncRange", TRUE, ""),
      F("diffType", "enum", "", FALSE, "") >>,
  HeadSyncResponse |-> <<
      F("results", "msg", "HeadSyncResult", TRUE, ""),
      F("diffType", "enum", "", FALSE, "") >>,
  HeadSyncResult |-> <<
      F("hash", "bytes", "", FALSE, ""),
      F("elements", "msg", "HeadSyncResultElement", TRUE, ""),
      F("count", "varint", "", FALSE, "") >>,
  HeadSyncResultElement |-> <<
      F("id", "string", "", FALSE, ""),
      F("head", "string", "", FALSE, "") >>,
  Key |-> <<
      F("Type", "keytype", "", FALSE, ""),
      F("Data", "keydata", "", FALSE, "") >>,
  PayloadSignedPeerIds |-> <<
      F("identity", "key_pub", "", FALSE, ""),
      F("sign", "sig", "", FALSE, "") >>,
  Proto |-> <<
      F("proto", "enum", "", FALSE, ""),
      F("encodings", "enum", "", TRUE, "") >>,
  PubSubMessage |-> <<
      F("subscribe", "msg", "Subscribe", FALSE, "content"),
      F("unsubscribe", "msg", "Unsubscribe", FALSE, "content"),
      F("publish", "msg", "Publish", FALSE, "content"),
      F("status", "msg", "Status", FALSE, "content") >>,
  Publish |-> <<
      F("spaceId", "string", "", FALSE, ""),
      F("topic", "string", "", FALSE, ""),
      F("msgId", "bytes", "", FALSE, ""),
      F("keyId", "string", "", FALSE, ""),
      F("payload", "ct_aes", "", FALSE, ""),
      F("identity", "key_pub", "", FALSE, ""),
      F("signature", "sig", "", FALSE, ""),
      F("timestampMilli", "varint", "", FALSE, ""),
      F("relayed", "varint", "", FALSE, "") >>,
  RawRecord |-> <<
      F("payload", "emb", "Record", FALSE, ""),
      F("signature", "sig", "", FALSE, ""),
      F("acceptorIdentity", "key_pub", "", FALSE, ""),
      F("acceptorSignature", "sig", "", FALSE, ""),
      F("acceptorTimestamp", "varint", "", FALSE, "") >>,
  RawRecordRoot |-> <<
      F("payload", "emb", "AclRoot", FALSE, ""),
      F("signature", "sig", "", FALSE, ""),
      F("acceptorIdentity", "key_pub", "", FALSE, ""),
      F("acceptorSignature", "sig", "", FALSE, ""),
      F("acceptorTimestamp", "varint", "", FALSE, "") >>,
  RawRecordWithId |-> <<
      F("payload", "emb", "RawRecord", FALSE, ""),
      F("id", "cid", "", FALSE, "") >>,
  RawRecordWithIdRoot |-> <<
      F("payload", "emb", "RawRecordRoot", FALSE, ""),
      F("id", "cid", "", FALSE, "") >>,
  RawSpaceHeader |-> <<
      F("spaceHeader", "emb", "SpaceHeader", FALSE, ""),
      F("signature", "sig", "", FALSE, "") >>,
  RawSpaceHeaderWithId |-> <<
      F("rawHeader", "emb", "RawSpaceHeader", FALSE, ""),
      F("id", "cid", "", FALSE, "") >>,
  RawTreeChange |-> <<
      F("payload", "emb", "TreeChange", FALSE, ""),
      F("signature", "sig", "", FALSE, "") >>,
  RawTreeChangeRoot |-> <<
      F("payload", "emb", "RootChange", FALSE, ""),
      F("signature", "sig", "", FALSE, "") >>,
  RawTreeChangeWithId |-> <<
      F("rawChange", "emb", "RawTreeChange", FALSE, ""),
      F("id", "cid", "", FALSE, "") >>,
  RawTreeChangeWithIdRoot |-> <<
      F("rawChange", "emb", "RawTreeChangeRoot", FALSE, ""),
      F("id", "cid", "", FALSE, "") >>,
  Record |-> <<
      F("prevId", "id", "", FALSE, ""),
      F("identity", "key_pub", "", FALSE, ""),
      F("data", "emb", "AclData", FALSE, ""),
      F("timestamp", "varint", "", FALSE, "") >>,
  RootChange |-> <<
      F("aclHeadId", "id", "", FALSE, ""),
      F("spaceId", "string", "", FALSE, ""),
      F("changeType", "string", "", FALSE, ""),
      F("timestamp", "varint", "", FALSE, ""),
      F("seed", "bytes", "", FALSE, ""),
      F("identity", "key_pub", "", FALSE, ""),
      F("changePayload", "bytes", "", FALSE, ""),
      F("isDerived", "varint", "", FALSE, ""),
      F("parentId", "string", "", FALSE, "") >>,
  SpaceHeader |-> <<
      F("identity", "key_pub", "", FALSE, ""),
      F("timestamp", "varint", "", FALSE, ""),
      F("spaceType", "string", "", FALSE, ""),
      F("replicationKey", "varint", "", FALSE, ""),
      F("seed", "bytes", "", FALSE, ""),
      F("spaceHeaderPayload", "bytes", "", FALSE, ""),
      F("aclPayload", "bytes", "", FALSE, ""),
      F("settingPayload", "bytes", "", FALSE, ""),
      F("fileprotoVersion", "enum", "", FALSE, ""),
      F("version", "enum", "", FALSE, "") >>,
  SpacePayload |-> <<
      F("spaceHeader", "msg", "RawSpaceHeaderWithId", FALSE, ""),
      F("aclPayload", "emb", "RawRecordRoot", FALSE, ""),
      F("aclPayloadId", "cid", "", FALSE, ""),
      F("spaceSettingsPayload", "emb", "RawTreeChangeRoot", FALSE, ""),
      F("spaceSettingsPayloadId", "cid", "", FALSE, "") >>,
  SpacePullResponse |-> <<
      F("payload", "msg", "SpacePayload", FALSE, ""),
      F("aclRecords", "msg", "AclRecord", TRUE, "") >>,
  Status |-> <<
      F("spaceId", "string", "", FALSE, ""),
      F("topics", "string", "", TRUE, ""),
      F("code", "enum", "", FALSE, ""),
      F("msgId", "bytes", "", FALSE, "") >>,
  StoreDiffRequest |-> <<
      F("spaceId", "string", "", FALSE, ""),
      F("ranges", "msg", "HeadSyncRange", TRUE, "") >>,
  StoreKeyInner |-> <<
      F("peer", "key_pub", "", FALSE, ""),
      F("identity", "key_pub", "", FALSE, ""),
      F("value", "ct_aes", "", FALSE, ""),
      F("timestampMicro", "varint", "", FALSE, ""),
      F("aclHeadId", "id", "", FALSE, ""),
      F("key", "string", "", FALSE, "") >>,
  StoreKeyValue |-> <<
      F("keyPeerId", "string", "", FALSE, ""),
      F("value", "emb", "StoreKeyInner", FALSE, ""),
      F("identitySignature", "sig", "", FALSE, ""),
      F("peerSignature", "sig", "", FALSE, ""),
      F("spaceId", "string", "", FALSE, "") >>,
  Subscribe |-> <<
      F("spaceId", "string", "", FALSE, ""),
      F("topics", "string", "", TRUE, "") >>,
  TreeChange |-> <<
      F("treeHeadIds", "parent_id", "", TRUE, ""),
      F("aclHeadId", "id", "", FALSE, ""),
      F("snapshotBaseId", "snap_id", "", FALSE, ""),
      F("changesData", "ct_aes", "", FALSE, ""),
      F("readKeyId", "id", "", FALSE, ""),
      F("timestamp", "varint", "", FALSE, ""),
      F("identity", "key_pub", "", FALSE, ""),
      F("isSnapshot", "varint", "", FALSE, ""),
      F("dataType", "string", "", FALSE, "") >>,
  TreeErrorResponse |-> <<
      F("error", "string", "", FALSE, ""),
      F("errCode", "varint", "", FALSE, "") >>,
  TreeFullSyncRequest |-> <<
      F("heads", "id", "", TRUE, ""),
      F("changes", "msg", "RawTreeChangeWithId", TRUE, ""),
      F("snapshotPath", "id", "", TRUE, ""),
      F("probe", "varint", "", FALSE, "") >>,
  TreeFullSyncResponse |-> <<
      F("heads", "id", "", TRUE, ""),
      F("changes", "msg", "RawTreeChangeWithId", TRUE, ""),
      F("snapshotPath", "id", "", TRUE, "") >>,
  TreeHeadUpdate |-> <<
      F("heads", "id", "", TRUE, ""),
      F("changes", "msg", "RawTreeChangeWithId", TRUE, ""),
      F("snapshotPath", "id", "", TRUE, "") >>,
  TreeSyncContentValue |-> <<
      F("headUpdate", "msg", "TreeHeadUpdate", FALSE, "value"),
      F("fullSyncRequest", "msg", "TreeFullSyncRequest", FALSE, "value"),
      F("fullSyncResponse", "msg", "TreeFullSyncResponse", FALSE, "value"),
      F("errorResponse", "msg", "TreeErrorResponse", FALSE, "value") >>,
  TreeSyncMessage |-> <<
      F("content", "msg", "TreeSyncContentValue", FALSE, ""),
      F("rootChange", "msg", "RawTreeChangeWithId", FALSE, "") >>,
  Unsubscribe |-> <<
      F("spaceId", "string", "", FALSE, ""),
      F("topics", "string", "", TRUE, "") >>
]
=============================================================================
