------------------------------- MODULE Hostile -------------------------------
(* C11 - hostile or malformed peer input is rejected with an error, never a crash           *)
(* (structure-aware half; level: exploration).                                              *)
(*                                                                                          *)
(* The module describes WHAT a hostile peer can send to every network-facing decoder /     *)
(* applier of any-sync, not how the receiver reacts: the receiver is a black box whose     *)
(* only modelled behaviour is  Outcome \in {"accepted", "rejected"}  - the property says    *)
(* that nothing else (panic, hang, runaway allocation) may happen.  The harness             *)
(* (harness/hostile) renders every case to bytes from a real valid message (real keys,     *)
(* real protobufs, real trees / ACLs), delivers it to the real entry point and observes    *)
(* which of the two outcomes - or a third, forbidden one - occurred.                       *)
(*                                                                                          *)
(* A case is  entry point x message variant x receiver state x field x operator x reseal:  *)
(*   entry point  a function that parses / applies data received from another party        *)
(*   variant      which valid message the mutation starts from (e.g. which ACL content)    *)
(*   state        the receiver state in which the message arrives (tree with / without     *)
(*                snapshot reduction, receiver is / is not the target of the record,       *)
(*                validating / non-validating verifier, handshake frame 1-4, ...)          *)
(*   field        a path in the message tree (HostileSchema.tla: generated from the .proto  *)
(*                descriptors + the annotation which bytes are keys / ciphertexts / ids /  *)
(*                embedded messages)                                                       *)
(*   operator     one of the mutation operators below (by field kind)                      *)
(*   reseal       TRUE: the author re-signs and re-addresses the enclosing envelopes       *)
(*                (an authenticated hostile member); FALSE: the envelopes keep the old     *)
(*                signature / id (corruption on the path)                                  *)
(*                                                                                          *)
(* TLC enumerates all groups (entry point x variant x state), every case of every group    *)
(* and both outcomes; every group is emitted (HostileGen.tla) with the full list of its    *)
(* cases.  Non-vacuity: ASSUME CoverageComplete (every entry point has at least one case    *)
(* of every operator class that applies to it) and -coverage on the three actions.         *)
EXTENDS Naturals, Sequences, FiniteSets, TLC, HostileSchema

CONSTANT Tier        \* "quick" | "thorough"

VARIABLES phase,     \* "idle" | "group" | "delivered" | "done"
          group,     \* chosen group or NoGroup
          case,      \* chosen case or NoCase
          outcome    \* "none" | "accepted" | "rejected"
vars == <<phase, group, case, outcome>>

-----------------------------------------------------------------------------
(* ---- oneof choices: which alternative the valid base message carries ---- *)
NoChoice == [AclContentValue |-> "", TreeSyncContentValue |-> "", PubSubMessage |-> ""]
Acl(c)  == [NoChoice EXCEPT !.AclContentValue = c]
Sync(c) == [NoChoice EXCEPT !.TreeSyncContentValue = c]
Pub(c)  == [NoChoice EXCEPT !.PubSubMessage = c]

V(name, top, choice) == [v |-> name, top |-> top, choice |-> choice]

AclContentKinds == {"invite", "inviteRevoke", "requestJoin", "requestAccept", "permissionChange",
                    "accountRemove", "readKeyChange", "requestDecline", "accountRequestRemove",
                    "permissionChanges", "accountsAdd", "requestCancel", "inviteJoin",
                    "inviteChange", "ownershipChange", "spaceOptionsChange"}

AclVariants(top, rootTop) ==
    { V(k, top, Acl(k)) : k \in AclContentKinds }
    \cup { V("inviteAnyone", top, Acl("invite")),      \* invite that carries an encrypted read key
           V("batch", top, Acl("accountsAdd")),        \* several contents in one record
           V("root", rootTop, NoChoice) }              \* the root record sent again

(* ---- entry points ---- *)
(* frame: "none" | "handshake" | "snappy" - a non-protobuf framing around the message        *)
E(ep, variants, states, qstates, frame) ==
    [ep |-> ep, variants |-> variants, states |-> states, qstates |-> qstates, frame |-> frame]

AclStates == {"validating/target", "validating/other", "nonvalidating/target", "nonvalidating/other"}
TreeStates == {"full/objecttree", "reduced/objecttree", "full/keyfilter", "reduced/keyfilter", "full/emptydata",
               "derived/objecttree"}   \* a tree whose root is derived (unsigned, no identity)

EntryPoints == {
  E("acl.AddRawRecord", AclVariants("RawRecordWithId", "RawRecordWithIdRoot"), AclStates,
    {"validating/target", "nonvalidating/target"}, "none"),
  E("acl.AddRawRecords", {V("accountsAdd", "RawRecordWithId", Acl("accountsAdd")),
                          V("accountRemove", "RawRecordWithId", Acl("accountRemove"))},
    {"validating/target", "nonvalidating/other"}, {"nonvalidating/other"}, "none"),
  E("acl.ValidateRawRecord", AclVariants("RawRecord", "RawRecordRoot"), {"target", "other"}, {"other"}, "none"),
  E("acl.BuildAclList", {V("root", "RawRecordWithIdRoot", NoChoice), V("root-onetoone", "RawRecordWithIdRoot", NoChoice)},
    {"member/validating", "member/nonvalidating", "stranger/validating"}, {"member/validating"}, "none"),
  E("tree.AddRawChanges", {V("change", "TreeHeadUpdate", NoChoice), V("snapshot", "TreeHeadUpdate", NoChoice),
                           V("chain", "TreeHeadUpdate", NoChoice), V("root", "TreeHeadUpdate", NoChoice),
                           V("old-branch", "TreeHeadUpdate", NoChoice),
                           \* batches that contain an element which can never be attached (a snapshot on top of a
                           \* change that is not sent), parent-first and child-first
                           V("orphan-batch", "TreeHeadUpdate", NoChoice), V("orphan-batch-childfirst", "TreeHeadUpdate", NoChoice)},
    TreeStates, {"full/objecttree", "reduced/objecttree"}, "none"),
  E("tree.UnpackChange", {V("change", "RawTreeChangeWithId", NoChoice), V("root", "RawTreeChangeWithIdRoot", NoChoice)},
    {"full/objecttree", "derived/objecttree"}, {"full/objecttree"}, "none"),
  E("tree.ValidateRawTree", {V("newTree", "TreeSyncMessage", Sync("fullSyncResponse")),
                             V("newTree-snapshot", "TreeSyncMessage", Sync("fullSyncResponse"))},
    {"default", "filter"}, {"default"}, "none"),
  E("synctree.HandleHeadUpdate", {V("headUpdate", "TreeSyncMessage", Sync("headUpdate")),
                                  V("headUpdate-orphan-childfirst", "TreeSyncMessage", Sync("headUpdate")),
                                  V("headUpdate-nochanges", "TreeSyncMessage", Sync("headUpdate")),
                                  V("fullSyncRequest", "TreeSyncMessage", Sync("fullSyncRequest")),
                                  V("errorResponse", "TreeSyncMessage", Sync("errorResponse"))},
    {"full/objecttree", "reduced/objecttree"}, {"reduced/objecttree"}, "none"),
  E("synctree.HandleStreamRequest", {V("fullSyncRequest", "TreeSyncMessage", Sync("fullSyncRequest")),
                                     V("probe", "TreeSyncMessage", Sync("fullSyncRequest")),
                                     V("headUpdate", "TreeSyncMessage", Sync("headUpdate"))},
    {"full/objecttree", "reduced/objecttree"}, {"reduced/objecttree"}, "none"),
  E("synctree.HandleResponse", {V("fullSyncResponse", "TreeSyncMessage", Sync("fullSyncResponse")),
                                V("fullSyncResponse-orphan-childfirst", "TreeSyncMessage", Sync("fullSyncResponse")),
                                V("headUpdate", "TreeSyncMessage", Sync("headUpdate"))},
    {"full/objecttree", "reduced/objecttree"}, {"full/objecttree"}, "none"),
  E("kv.KeyValueFromProto", {V("value", "StoreKeyValue", NoChoice)}, {"verify", "noverify"}, {"verify"}, "none"),
  E("kv.SetRaw", {V("value", "StoreKeyValue", NoChoice)}, {"empty", "has-older", "has-newer"}, {"has-older"}, "none"),
  E("headsync.HandleRangeRequest", {V("ranges", "HeadSyncRequest", NoChoice)}, {"empty", "populated"}, {"populated"}, "none"),
  E("keyvalue.HandleRangeRequest", {V("ranges", "StoreDiffRequest", NoChoice)}, {"empty", "populated"}, {"populated"}, "none"),
  E("ldiff.Diff", {V("honest-reply", "HeadSyncResponse", NoChoice)}, {"empty", "populated"}, {"populated"}, "lying-remote"),
  E("handshake.readMsg", {V("credentials", "Credentials", NoChoice), V("ack", "Ack", NoChoice), V("proto", "Proto", NoChoice)},
    {"frame1", "frame2", "frame3", "frame4", "proto1", "proto2"},
    {"frame1", "frame2", "frame3", "frame4", "proto1", "proto2"}, "handshake"),
  E("space.ValidateSpaceStorageCreatePayload", {V("v0", "SpacePayload", NoChoice), V("v1", "SpacePayload", NoChoice),
                                                V("onetoone", "SpacePayload", NoChoice)},
    {"stateless"}, {"stateless"}, "none"),
  E("space.SpacePull", {V("response", "SpacePullResponse", NoChoice)}, {"client"}, {"client"}, "none"),
  E("snappy.Unmarshal", {V("headSyncRequest", "HeadSyncRequest", NoChoice)}, {"stateless"}, {"stateless"}, "snappy"),
  E("pubsub.HandleMessage", {V("subscribe", "PubSubMessage", Pub("subscribe")), V("unsubscribe", "PubSubMessage", Pub("unsubscribe")),
                             V("publish", "PubSubMessage", Pub("publish")), V("publish-encrypted", "PubSubMessage", Pub("publish")),
                             V("status", "PubSubMessage", Pub("status"))},
    {"client", "relay"}, {"client", "relay"}, "none"),
  E("crypto.UnmarshalKeyProto", {V("ed25519-public", "Key", NoChoice), V("ed25519-private", "Key", NoChoice), V("aes", "Key", NoChoice)},
    {"as-public", "as-private", "as-aes"}, {"as-public", "as-private", "as-aes"}, "none"),
  E("crypto.Decrypt", {V("x25519", "CtX25519", NoChoice), V("aes", "CtAes", NoChoice)}, {"stateless"}, {"stateless"}, "none"),
  E("crypto.DecodeString", {V("account-address", "StrKey", NoChoice), V("peer-id", "StrKey", NoChoice),
                            V("network-id", "StrKey", NoChoice), V("base64-key", "StrKey", NoChoice),
                            V("aes-string", "StrKey", NoChoice)}, {"stateless"}, {"stateless"}, "none")
}

StatesOf(e) == IF Tier = "thorough" THEN e.states ELSE e.qstates

(* A handshake frame / variant combination that the protocol can deliver in that state.     *)
FrameFits(e, v, s) ==
    IF e.frame # "handshake" THEN TRUE
    ELSE CASE s \in {"frame1"}           -> v.v = "credentials"
           [] s \in {"frame2"}           -> v.v \in {"credentials", "ack"}
           [] s \in {"frame3", "frame4"} -> v.v = "ack"
           [] s = "proto1"               -> v.v = "proto"
           [] s = "proto2"               -> v.v \in {"proto", "ack"}

Groups == { [ep |-> e.ep, v |-> v.v, top |-> v.top, choice |-> v.choice, st |-> s, frame |-> e.frame]
            : <<e, v, s>> \in { t \in UNION { {e} \X e.variants \X StatesOf(e) : e \in EntryPoints }
                                : FrameFits(t[1], t[2], t[3]) } }
-----------------------------------------------------------------------------
(* ---- message tree: all field paths of the base message ---- *)
MaxDepth == 11
IsMsg(f) == f.k \in {"msg", "emb"}
IsCipher(f) == f.k \in {"ct_x25519", "ct_aes"}
(* a field whose content has fields of its own: a sub-message, bytes that are decoded as a message, or a *)
(* ciphertext whose PLAINTEXT is a message (the author of a record chooses that plaintext: the renderer  *)
(* opens the field with the key it was sealed for, mutates the plaintext and seals it again)             *)
HasInner(f) == IsMsg(f) \/ (IsCipher(f) /\ f.t # "")

(* synthetic single-field messages for the entry points that take a bare blob / string      *)
SynthSchema == [CtX25519 |-> << F("ct", "ct_x25519", "", FALSE, "") >>,
                CtAes    |-> << F("ct", "ct_aes", "", FALSE, "") >>,
                StrKey   |-> << F("s", "strkey", "", FALSE, "") >>]
FullSchema == Schema @@ SynthSchema

(* A repeated field whose elements have fields of their own is entered through its first element   *)
(* and - when `last` is set - also through its last element (path step "<name>@last").              *)
RECURSIVE PathsOf(_, _, _, _)
PathsOf(type, choice, depth, last) ==
    IF depth = 0 \/ type \notin DOMAIN FullSchema THEN {}
    ELSE UNION { LET f == FullSchema[type][i]
                     steps == IF f.rep /\ last THEN {f.n, f.n \o "@last"} ELSE {f.n} IN
                   IF f.oneof # "" /\ (type \notin DOMAIN choice \/ choice[type] # f.n) THEN {}
                   ELSE {[path |-> <<f.n>>, f |-> f]}
                        \cup (IF HasInner(f)
                              THEN { [path |-> <<st>> \o p.path, f |-> p.f]
                                     : <<st, p>> \in steps \X PathsOf(f.t, choice, depth - 1, last) }
                              ELSE {})
               : i \in 1..Len(FullSchema[type]) }

-----------------------------------------------------------------------------
(* ---- mutation operators ---- *)
LenDelimited(k) == k \notin {"varint", "enum", "keytype"}

StructOps(f) ==
    {"duplicate-field", "trunc-before", "trunc-tag", "cut-before", "cut-tag",
     "tag-zero", "tag-wiretype7", "tag-group", "tag-overlong"}
    \cup (IF IsMsg(f) THEN {"nil-submessage", "empty-submessage"} ELSE {"remove-field"})
    \cup (IF LenDelimited(f.k)
          THEN {"len-minus1", "len-plus1", "len-huge", "len-overflow", "trunc-len", "trunc-mid", "cut-len", "cut-mid"} ELSE {})
    \cup (IF f.rep THEN {"rep-many", "rep-reverse", "rep-rotate"} ELSE {})

(* the plaintext of an encrypted field, replaced and sealed again for the same recipient *)
PlaintextOps == {"pt-empty", "pt-one-byte", "pt-grow-64k", "pt-garbage"}

KindOps(k) ==
    CASE k \in {"bytes", "string"} -> {"empty", "one-byte", "grow-64k"}
      [] k = "strkey"    -> {"empty", "one-byte", "grow-64k", "str-truncated", "str-bad-charset", "str-wrong-version", "str-bad-checksum"}
      [] k = "ct_x25519" -> {"ct-empty", "ct-short-1", "ct-short-31", "ct-exact-32", "ct-short-47", "ct-garbage", "ct-for-other-key"}
                            \cup PlaintextOps
      [] k = "ct_aes"    -> {"ct-empty", "ct-short-1", "ct-short-11", "ct-exact-12", "ct-short-27", "ct-garbage", "ct-for-other-key"}
                            \cup PlaintextOps
      [] k = "keydata"   -> {"empty", "one-byte", "grow-64k", "keydata-len-0", "keydata-len-1", "keydata-len-15", "keydata-len-16",
                             "keydata-len-24", "keydata-len-31", "keydata-len-33", "keydata-len-64"}
      [] k = "keytype"   -> {"keytype-ed25519-public", "keytype-ed25519-private", "keytype-aes", "enum-unknown", "varint-max"}
      [] k = "key_pub"   -> {"key-empty", "key-wrong-type-aes", "key-wrong-type-priv", "key-unknown-type", "key-zero-len",
                             "key-short-31", "key-long-33", "key-bad-point", "key-raw-unwrapped", "key-other"}
      [] k = "sig"       -> {"sig-empty", "sig-short-63", "sig-long-65", "sig-garbage"}
      [] k = "id"        -> {"id-empty", "id-dangling", "id-garbage"}
      [] k = "parent_id" -> {"parents-none", "parent-dangling", "parent-redundant", "parent-duplicate", "parent-trimmed",
                             "parent-self", "id-garbage", "ref-inbatch-orphan"}
      [] k = "snap_id"   -> {"id-empty", "id-dangling", "snap-trimmed", "snap-nonsnapshot", "id-garbage", "ref-inbatch-orphan"}
      [] k = "cid"       -> {"cid-empty", "cid-garbage", "cid-of-other-content"}
      [] k = "varint"    -> {"varint-max", "varint-zero", "varint-flip", "varint-2e20", "varint-2e22", "varint-2e24"}
      [] k = "enum"      -> {"varint-max", "enum-unknown"}
      [] OTHER           -> {}

(* framing operators (handshake frame: 1 byte type + 4 byte size; snappy block: varint length + body; *)
(* lying remote: replies whose count / elements / hash contradict each other or never converge)       *)
FrameOps(frame) ==
    CASE frame = "handshake"    -> {"frame-hdr-truncated", "frame-type-unknown", "frame-type-other", "frame-size-minus1",
                                    "frame-size-plus1", "frame-size-limit-plus1", "frame-size-huge", "frame-body-truncated",
                                    "frame-empty-body", "frame-valid",
                                    \* a well-formed frame (valid body) of each frame type, whatever this position expects
                                    "frame-other-cred", "frame-other-ack-null", "frame-other-ack-error", "frame-other-proto"}
      [] frame = "snappy"       -> {"snappy-empty", "snappy-hdr-truncated", "snappy-len-huge", "snappy-len-plus1", "snappy-len-minus1",
                                    "snappy-body-truncated", "snappy-garbage", "snappy-bad-offset", "snappy-valid"}
      [] frame = "lying-remote" -> {"lie-count-plus1000", "lie-count-minus1", "lie-no-elements", "lie-hash-random", "lie-fewer-results",
                                    "lie-more-results", "lie-huge-elements", "lie-dup-elements", "lie-nil-hash", "lie-honest"}
      [] OTHER                  -> {}

OpClass(op) ==
    CASE op \in {"trunc-before", "trunc-tag", "trunc-len", "trunc-mid", "cut-before", "cut-tag", "cut-len", "cut-mid",
                 "frame-hdr-truncated", "frame-body-truncated", "snappy-hdr-truncated", "snappy-body-truncated", "str-truncated", "prefix-sweep"} -> "truncate"
      [] op \in {"varint-2e20", "varint-2e22", "varint-2e24"} -> "length-field"   \* a number the receiver may use as a size
      [] op \in {"len-minus1", "len-plus1", "len-huge", "len-overflow", "frame-size-minus1", "frame-size-plus1",
                 "snappy-len-plus1", "snappy-len-minus1", "lie-count-plus1000", "lie-count-minus1"} -> "length-field"
      [] op \in {"frame-size-limit-plus1", "frame-size-huge", "snappy-len-huge", "grow-64k", "lie-huge-elements"} -> "oversize"
      [] op \in {"remove-field", "empty", "one-byte", "frame-empty-body", "snappy-empty", "lie-nil-hash", "lie-fewer-results", "empty-message"} -> "remove-field"
      [] op \in {"duplicate-field", "rep-many", "lie-dup-elements", "lie-more-results"} -> "duplicate-field"
      [] op \in {"nil-submessage", "empty-submessage"} -> "nil-submessage"
      [] op \in {"ct-empty", "ct-short-1", "ct-short-31", "ct-exact-32", "ct-short-47", "ct-short-11", "ct-exact-12", "ct-short-27"} -> "short-ciphertext"
      [] op \in {"ct-garbage", "ct-for-other-key", "snappy-garbage", "snappy-bad-offset", "str-bad-charset", "str-bad-checksum", "lie-hash-random", "garbage-message"} -> "garbage"
      [] op \in {"key-empty", "key-wrong-type-aes", "key-wrong-type-priv", "key-unknown-type", "key-zero-len", "key-short-31",
                 "key-long-33", "key-bad-point", "key-raw-unwrapped", "key-other", "frame-type-unknown", "frame-type-other", "str-wrong-version",
                 "keytype-ed25519-public", "keytype-ed25519-private", "keytype-aes"} -> "wrong-key-type"
      [] op \in {"sig-empty", "sig-short-63", "sig-long-65", "sig-garbage"} -> "bad-signature"
      [] op \in {"id-empty", "id-dangling", "id-garbage", "cid-empty", "cid-garbage", "cid-of-other-content", "lie-no-elements"} -> "dangling-ref"
      [] op \in {"parents-none", "parent-dangling", "parent-redundant", "parent-duplicate", "parent-self"} -> "parent-ref"
      [] op \in {"parent-trimmed", "snap-trimmed", "snap-nonsnapshot"} -> "trimmed-ref"
      [] op \in {"varint-max", "varint-zero", "varint-flip", "enum-unknown"} -> "varint"
      [] op \in {"tag-zero", "tag-wiretype7", "tag-group", "tag-overlong"} -> "malformed-tag"
      [] op \in PlaintextOps -> "inner-plaintext"
      [] op \in {"keydata-len-0", "keydata-len-1", "keydata-len-15", "keydata-len-16", "keydata-len-24", "keydata-len-31",
                 "keydata-len-33", "keydata-len-64"} -> "key-material"
      [] op \in {"rep-reverse", "rep-rotate"} -> "reorder"
      [] op \in {"frame-other-cred", "frame-other-ack-null", "frame-other-ack-error", "frame-other-proto"} -> "wrong-frame-type"
      [] op = "ref-inbatch-orphan" -> "inbatch-ref"
      [] op \in {"frame-valid", "snappy-valid", "lie-honest", "valid"} -> "valid"
      [] OTHER -> "unclassified"

IsCut(op) == op \in {"cut-before", "cut-tag", "cut-len", "cut-mid"}

Reseals(op) == IF IsCut(op) THEN {FALSE} ELSE IF Tier = "thorough" THEN {TRUE, FALSE} ELSE {TRUE}

(* the field paths of every base message, computed once per (message type, oneof choice) *)
(* the last-element paths: everywhere in the thorough tier, for the small request / reply messages in quick *)
LastInQuick == {"headsync.HandleRangeRequest", "keyvalue.HandleRangeRequest", "ldiff.Diff", "pubsub.HandleMessage", "space.SpacePull"}
WithLast(g) == Tier = "thorough" \/ g.ep \in LastInQuick
PathTable == [tc \in { <<g.top, g.choice, WithLast(g)>> : g \in Groups } |-> PathsOf(tc[1], tc[2], MaxDepth, tc[3])]

(* the quick tier leaves out operators whose effect another operator of the same class already   *)
(* has (the stream cuts are particular prefixes of the prefix sweep)                              *)
QuickSkip == {"cut-before", "cut-tag", "cut-len", "cut-mid", "trunc-tag", "trunc-len", "len-overflow", "len-minus1",
              "one-byte", "varint-flip", "varint-zero", "key-long-33", "key-unknown-type", "key-raw-unwrapped",
              "key-other", "sig-long-65", "sig-short-63", "ct-short-47", "ct-short-27", "ct-exact-12", "ct-exact-32",
              "ct-for-other-key", "id-garbage", "cid-garbage", "str-bad-checksum", "tag-group", "tag-overlong", "rep-rotate", "pt-one-byte", "pt-garbage",
              "keydata-len-1", "keydata-len-64", "varint-2e20"}
OpsOf(f) == (StructOps(f) \cup KindOps(f.k)) \ (IF Tier = "quick" THEN QuickSkip ELSE {})

(* operators that need something the base message of the group does not have:                     *)
(*  - a reference to an unattachable element of the same message needs a batch that contains one  *)
(*  - reordering needs a repeated field with at least two elements                                *)
OrphanVariants == {"orphan-batch", "orphan-batch-childfirst", "headUpdate-orphan-childfirst",
                   "fullSyncResponse-orphan-childfirst"}
SingleElementEPs == {"handshake.readMsg", "ldiff.Diff", "tree.UnpackChange"}
Applicable(g, op) == /\ (op = "ref-inbatch-orphan") => (g.v \in OrphanVariants)
                     /\ (op \in {"rep-reverse", "rep-rotate"}) => (g.ep \notin SingleElementEPs)

(* whole-message operators: every byte prefix of the rendered message (expanded by the harness, *)
(* which knows the length), and the valid message itself (the base must be accepted or cleanly  *)
(* rejected, too).                                                                              *)
WholeOps == {"prefix-sweep", "valid", "empty-message", "garbage-message"}

CasesFor(g) ==
    { [path |-> p.path, kind |-> p.f.k, op |-> op, cls |-> OpClass(op), reseal |-> r]
        : <<p, op, r>> \in UNION { UNION { {p} \X {op} \X Reseals(op) : op \in { o \in OpsOf(p.f) : Applicable(g, o) } }
                                   : p \in PathTable[<<g.top, g.choice, WithLast(g)>>] } }
    \cup { [path |-> <<>>, kind |-> "message", op |-> op, cls |-> OpClass(op), reseal |-> FALSE] : op \in WholeOps }
    \cup { [path |-> <<>>, kind |-> "frame", op |-> op, cls |-> OpClass(op), reseal |-> FALSE] : op \in FrameOps(g.frame) }

(* evaluated once (constant-level, no parameters): the whole case table *)
CaseTable == [g \in Groups |-> CasesFor(g)]
CasesOf(g) == CaseTable[g]

NoGroup == [ep |-> "", v |-> "", top |-> "", choice |-> NoChoice, st |-> "", frame |-> ""]
NoCase  == [path |-> <<>>, kind |-> "", op |-> "", cls |-> "", reseal |-> FALSE]

-----------------------------------------------------------------------------
Init == phase = "idle" /\ group = NoGroup /\ case = NoCase /\ outcome = "none"

ChooseGroup == /\ phase = "idle"
               /\ \E g \in Groups : group' = g
               /\ phase' = "group" /\ UNCHANGED <<case, outcome>>

Deliver == /\ phase = "group"
           /\ \E c \in CasesOf(group) : case' = c
           /\ phase' = "delivered" /\ UNCHANGED <<group, outcome>>

(* the receiver: a black box that answers; nothing else is allowed *)
Accept == /\ phase = "delivered" /\ outcome' = "accepted" /\ phase' = "done" /\ UNCHANGED <<group, case>>
Reject == /\ phase = "delivered" /\ outcome' = "rejected" /\ phase' = "done" /\ UNCHANGED <<group, case>>

Next == ChooseGroup \/ Deliver \/ Accept \/ Reject
Spec == Init /\ [][Next]_vars

-----------------------------------------------------------------------------
(* the only property *)
OutcomeOK == /\ outcome \in {"none", "accepted", "rejected"}
             /\ (phase = "done") <=> (outcome # "none")
             /\ (phase \in {"delivered", "done"}) => (group \in Groups /\ OpClass(case.op) # "unclassified")

(* coverage accounting (non-vacuity): the operator classes the property names, and for every *)
(* entry point the classes that must be generated for it                                     *)
PropertyClasses == {"truncate", "length-field", "remove-field", "duplicate-field", "nil-submessage",
                    "short-ciphertext", "wrong-key-type", "parent-ref", "trimmed-ref", "dangling-ref", "oversize",
                    "inner-plaintext", "key-material", "reorder", "inbatch-ref"}

ClassTable == [ep \in {e.ep : e \in EntryPoints} |->
                 { OpClass(c.op) : c \in UNION { CasesOf(g) : g \in { g \in Groups : g.ep = ep } } }]
ClassesOf(ep) == ClassTable[ep]

RequiredClasses(ep) ==
    CASE ep = "acl.BuildAclList" ->
             {"truncate", "length-field", "remove-field", "duplicate-field", "nil-submessage", "short-ciphertext",
              "wrong-key-type", "oversize", "bad-signature"}
      [] ep \in {"acl.AddRawRecord", "acl.ValidateRawRecord", "acl.AddRawRecords"} ->
             {"truncate", "length-field", "remove-field", "duplicate-field", "nil-submessage", "short-ciphertext",
              "wrong-key-type", "dangling-ref", "oversize", "bad-signature", "inner-plaintext", "key-material", "reorder"}
      [] ep \in {"tree.AddRawChanges", "synctree.HandleHeadUpdate", "synctree.HandleResponse"} ->
             {"truncate", "length-field", "remove-field", "duplicate-field", "nil-submessage", "short-ciphertext",
              "wrong-key-type", "parent-ref", "trimmed-ref", "dangling-ref", "oversize", "inner-plaintext", "reorder", "inbatch-ref"}
      [] ep = "handshake.readMsg" -> {"truncate", "length-field", "oversize", "wrong-key-type", "remove-field", "wrong-frame-type"}
      [] ep = "snappy.Unmarshal" -> {"truncate", "length-field", "oversize", "garbage"}
      [] ep = "ldiff.Diff" -> {"length-field", "dangling-ref", "oversize", "duplicate-field"}
      [] ep = "crypto.Decrypt" -> {"short-ciphertext", "garbage", "truncate"}
      [] ep = "crypto.UnmarshalKeyProto" -> {"truncate", "length-field", "remove-field", "varint"}
      [] OTHER -> {"truncate", "length-field", "remove-field", "duplicate-field"}

CoverageComplete ==
    /\ \A e \in EntryPoints : RequiredClasses(e.ep) \subseteq ClassesOf(e.ep)
    /\ PropertyClasses \subseteq UNION { ClassesOf(e.ep) : e \in EntryPoints }
    /\ \A g \in Groups : \A c \in CasesOf(g) : OpClass(c.op) # "unclassified"

(* summary used by the harness to check that every (entry point x class) it was given was executed *)
CoverageTable == ClassTable

ASSUME Tier \in {"quick", "thorough"}
ASSUME CoverageComplete
=============================================================================
