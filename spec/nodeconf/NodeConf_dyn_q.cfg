SPECIFICATION Spec
CONSTANTS
  Nodes = {n1, n2}
  Client = client
  ConfIds = {"c1", "c2"}
  SpaceIds <- MCSpaceIds3
  RF = 1
  RF2 = 1
  Parts = {0}
  NoConf = NoConf
  Merged = Merged
  Lookups = FALSE
  Static = FALSE
  PubChoices <- MCDynPubsQ
INVARIANT Inv
PROPERTY PairAgreement
CHECK_DEADLOCK FALSE
