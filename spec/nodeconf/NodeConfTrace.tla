---------------------------- MODULE NodeConfTrace ----------------------------
(* Trace validation for C18: answers recorded from real nodeconf services (one service per    *)
(* participant, built through the exported constructor) must be explained by NodeConf with     *)
(* ONE partition function and ONE ring function.  The functions are not computed here: the     *)
(* first recorded answer for a key fixes the value (action Answer of NodeConf, called with the  *)
(* observed values), every invariant of NodeConf is then evaluated on every recorded answer:    *)
(* Agreement (the answer equals the shared function's value: same for every participant, for    *)
(* every listing of the same sync-node set, for every id with the same suffix),                 *)
(* ResponsibleSet, SelfExclusion, AnswerFromCurrentConf, Consequences, RingContract.            *)
(* A "Net" line starts a new epoch (new published configurations, everything forgotten).        *)
EXTENDS NodeConf, VerifEmit

ASSUME HwReset
Trace == ndJsonDeserialize(TraceFileName)
VARIABLE l
tvars == <<vars, l>>

Range(f) == {f[i] : i \in DOMAIN f}

\* JSON form of the configurations of a Net line -> [conf id -> [node -> [types, addrs]]]
ConfsOf(x) == [c \in DOMAIN x.confs |->
                 [n \in DOMAIN x.confs[c] |->
                    [ents |-> [i \in DOMAIN x.confs[c][n].t |-> Range(x.confs[c][n].t[i]) \cap Types],
                     addrs |-> Range(x.confs[c][n].a)]]]

\* <trace>.hdr is a one-line header written by the orchestrator: all node ids and configuration ids of
\* the trace (scanning the trace inside a constant definition would re-read the file for every line)
Hdr == ndJsonDeserialize(TraceFileName \o ".hdr")
TraceNodes == Range(Hdr[1].nodes)
TraceConfIds == Range(Hdr[1].confIds)
TraceParts == 0..2999          \* nodeconf.PartitionCount

Fresh(x) == /\ pub = ConfsOf(x)
            /\ last = [p \in Participants |-> NoConf] /\ stored = [p \in Participants |-> NoConf]
            /\ priv = [p \in Participants |-> NoConf] /\ look = [p \in Participants |-> NoConf]
            /\ part = <<>> /\ ring = <<>> /\ obs = NoConf

TraceInit == l = 2 /\ Trace[1].ev = "Net" /\ Fresh(Trace[1])

IsEvent(e) == l <= Len(Trace) /\ Trace[l].ev = e /\ l' = l + 1

TrNet == /\ IsEvent("Net")
         /\ LET x == Trace[l] IN
              /\ pub' = ConfsOf(x)
              /\ last' = [p \in Participants |-> NoConf] /\ stored' = [p \in Participants |-> NoConf]
              /\ priv' = [p \in Participants |-> NoConf] /\ look' = [p \in Participants |-> NoConf]
              /\ part' = <<>> /\ ring' = <<>> /\ obs' = NoConf

TrBoot    == IsEvent("Boot")    /\ BootWith(Trace[l].p, Trace[l].app)
TrUpdate  == IsEvent("Update")  /\ Update(Trace[l].p, Trace[l].cid)
TrRestart == IsEvent("Restart") /\ Restart(Trace[l].p)

\* the recorded answer, as observed (nothing is recomputed)
TrQuery == /\ IsEvent("Query")
           /\ LET x == Trace[l] IN
                /\ x.cid \in DOMAIN pub \/ (x.cid = Merged /\ priv[x.p] # NoConf)
                /\ Answer(x.p, x.space, x.cid, x.part, Range(x.members), Range(x.fileV2Ids), Range(x.nodeIds), x.resp)
                /\ UNCHANGED look

\* a lookup parked inside the ring walk (the harness holds it at a gate) ...
TrLookupBegin == IsEvent("LookupBegin") /\ LookupBegin(Trace[l].p, Trace[l].space)
\* ... returns.  Its own result is not judged: a lookup that overlaps a configuration change may answer for either
\* configuration; what is judged are the answers after quiescence (the Query lines that follow)
TrLookupEnd == /\ IsEvent("LookupEnd") /\ look[Trace[l].p] # NoConf
               /\ look' = [look EXCEPT ![Trace[l].p] = NoConf]
               /\ UNCHANGED <<pub, last, stored, priv, part, ring, obs>>
\* drift (not a verdict): the real service applied an update while a lookup was in flight, which the model's
\* lock forbids; adopted so that the rest of the trace is still judged
TrUpdateRacing == /\ IsEvent("Update") /\ look[Trace[l].p] # NoConf
                  /\ LET p == Trace[l].p  c == Trace[l].cid IN
                       /\ stored' = [stored EXCEPT ![p] = c] /\ last' = [last EXCEPT ![p] = c]
                       /\ look' = [look EXCEPT ![p] = [space |-> look[p].space, conf |-> c]]
                       /\ obs' = NoConf /\ UNCHANGED <<pub, priv, part, ring>>
                  /\ PrintT(<<"TRACE-DRIFT-UPDATE-DURING-LOOKUP", l>>)

TraceNext == TrNet \/ TrBoot \/ TrUpdate \/ TrRestart \/ TrQuery \/ TrLookupBegin \/ TrLookupEnd \/ TrUpdateRacing
TraceSpec == TraceInit /\ [][TraceNext]_tvars

\* lists returned by the code contain no node twice (sets would hide it)
NoDuplicates ==
    (l > 1 /\ l - 1 <= Len(Trace) /\ Trace[l - 1].ev = "Query" /\ obs # NoConf) =>
        LET x == Trace[l - 1] IN /\ Cardinality(Range(x.members)) = x.nm
                                 /\ Cardinality(Range(x.nodeIds)) = x.nn
                                 /\ Cardinality(Range(x.fileV2Ids)) = x.nf

Mark == HwMark(l)
TraceAccepted == HwAccepted(Len(Trace))
=============================================================================
