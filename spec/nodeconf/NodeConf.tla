------------------------------ MODULE NodeConf ------------------------------
(* Responsibility contract of any-sync's network configuration service           *)
(* (nodeconf/nodeconf.go, nodeconf/service.go) - property C18.                    *)
(*                                                                                *)
(* Every participant (each node of the network and a client) runs its own         *)
(* nodeconf service.  A service holds one configuration at a time (`last`); it     *)
(* boots from the configuration stored locally or, if none, from the application   *)
(* configuration, and replaces it when the source publishes one with another id.   *)
(* For a space id the service answers                                              *)
(*     Partition  = chash.GetPartition(ReplKey(id))                                *)
(*     members    = chash.GetMembers(ReplKey(id))   (ring over the tree nodes)      *)
(*     NodeIds    = members minus the own account                                   *)
(*     IsResponsible = own account \in members                                      *)
(*     FileV2NodeIds = members of the second ring (fileV2 nodes, RF2), self kept    *)
(*                                                                                *)
(* The consistent-hash library is NOT modelled.  It appears as two uninterpreted   *)
(* functions whose values are materialised lazily (first use fixes the value):     *)
(*     part[k]            partition of a replication key                            *)
(*     ring[<<rf,S,pt>>]  members for partition pt on a ring with replication       *)
(*                        factor rf over the member SET S                           *)
(* constrained only by the contract RingContract (distinct members of S,           *)
(* cardinality min(rf,|S|)).  That the real chash IS such a function - of the      *)
(* member set, not of the list order, of the suffix, not of the whole id, the same  *)
(* in every process - is exactly what the binding establishes: NodeConfTrace.tla   *)
(* fills part/ring from answers recorded from real services (Answer with the        *)
(* observed values) and TLC evaluates the invariants below on every recorded        *)
(* answer.  In this module (Query) the answers are computed from the functions,    *)
(* and TLC checks that the contract implies the property for every configuration   *)
(* of the given nodes with arbitrary type mixes and every viewpoint.               *)
(*                                                                                *)
(* Coordinator merge (service.Init / mergeCoordinatorAddrs): a service that boots from a   *)
(* stored configuration first merges the coordinator nodes of the APPLICATION configuration *)
(* into it (missing addresses are added to a coordinator both know, a coordinator the      *)
(* stored one lacks is appended with all its types); if that changed anything the result    *)
(* is saved and set under the private id "-1" (Merged) and stays until the source delivers  *)
(* a configuration with another id.  The answers of such a participant must satisfy the     *)
(* same relations with respect to ITS configuration (priv[p]).                              *)
(*                                                                                          *)
(* Agreement across histories: the ring is a function of the sync-node SET alone, so a      *)
(* participant that reached a configuration by a live Update must answer exactly like one   *)
(* that was started on it (the code builds a fresh ring for every configuration).           *)
(*                                                                                          *)
(* Deliberately not modelled (named deviations):                                            *)
(*   Dev_SameIdOtherContent setLastConfiguration ignores a configuration whose id equals    *)
(*       the current one even if the content differs; here content is a function of the id. *)
(*   Dev_DuplicateRingMember  a peer listed in TWO tree-typed (or two fileV2-typed) entries  *)
(*       is added to the hash ring twice (double weight); explored configurations split the  *)
(*       roles of a peer between its entries, no role is listed twice.                       *)
EXTENDS Integers, Sequences, FiniteSets, TLC

CONSTANTS Nodes,      \* peer ids that may appear in a configuration
          Client,     \* a participant that is in no configuration
          ConfIds,    \* configuration ids
          SpaceIds,   \* space ids: non-empty sequences of dot-separated segments
          RF, RF2,    \* replication factors of the tree ring and of the fileV2 ring
          Parts,      \* partition numbers
          NoConf,     \* "no configuration" marker
          Merged,     \* the private id "-1" of a stored configuration with merged coordinators
          Static,     \* TRUE: every participant starts booted on the first configuration
          Lookups,    \* TRUE: lookups may also be explored as two steps (LookupBegin / LookupEnd) around which
                      \* other participants act; FALSE: only the atomic Query
          PubChoices  \* the sets of published configurations to explore: functions ConfIds -> configuration,
                      \* a configuration being a function from a subset of Nodes to SUBSET Types

Participants == Nodes \cup {Client}
Types        == {"tree", "fileV2", "coord"}   \* a node with none of them stands for consensus/file/... nodes
\* a configuration: function from a subset of Nodes (peer ids) to [ents, addrs].  A peer id may be listed in
\* SEVERAL entries of the node list with the roles split between them (the repository's own fixture lists a
\* coordinator and a naming node that way): ents is the sequence of the type sets of its entries, in list
\* order.  The rings are built from every tree-typed (fileV2-typed) entry: what counts is the union.
TypesOf(r) == UNION {r.ents[i] : i \in DOMAIN r.ents}

Sync(c)   == {n \in DOMAIN c : "tree"   \in TypesOf(c[n])}
FileV2(c) == {n \in DOMAIN c : "fileV2" \in TypesOf(c[n])}
Coords(c) == {n \in DOMAIN c : "coord"  \in TypesOf(c[n])}

\* mergeCoordinatorAddrs(appConfig, lastStored): the stored configuration with the application's coordinators merged in
Merge(app, st) ==
    LET add == Coords(app) \ Coords(st)             \* the application's coordinator entry is appended as a whole
        CoordEnt(r) == r.ents[CHOOSE i \in DOMAIN r.ents : "coord" \in r.ents[i]]
    IN [n \in DOMAIN st \cup add |->
          IF n \in Coords(app) \cap Coords(st) THEN [ents |-> st[n].ents, addrs |-> st[n].addrs \cup app[n].addrs]
          ELSE IF n \in add /\ n \in DOMAIN st      \* listed, but not as coordinator: one more entry for the same peer
               THEN [ents |-> Append(st[n].ents, CoordEnt(app[n])), addrs |-> st[n].addrs \cup app[n].addrs]
          ELSE IF n \in DOMAIN st THEN st[n]
          ELSE [ents |-> <<CoordEnt(app[n])>>, addrs |-> app[n].addrs]]

\* nodeconf.ReplKey: the suffix after the LAST dot; the whole id if there is no dot
ReplKey(id) == id[Len(id)]
Keys        == {ReplKey(s) : s \in SpaceIds}

Min(a, b) == IF a < b THEN a ELSE b
Choices(rf, S) == {m \in SUBSET S : Cardinality(m) = Min(rf, Cardinality(S))}

VARIABLES pub,     \* [ConfIds -> configuration]: the published configurations (fixed)
          last,    \* [Participants -> ConfIds \cup {NoConf, Merged}]: configuration the running service holds
          stored,  \* [Participants -> ConfIds \cup {NoConf, Merged}]: configuration in the participant's local store
          priv,    \* [Participants -> configuration or NoConf]: content of the participant's private "-1" configuration
          part,    \* materialised part of the partition function: [Keys -|-> Parts]
          ring,    \* materialised part of the ring function: [<<rf, S, pt>> -|-> SUBSET Nodes]
          look,    \* [Participants -> NoConf or [space, conf]]: a lookup in flight (it holds the service's read lock)
          obs      \* the most recent answer (a record) or NoConf; forgotten at every life-cycle step
vars == <<pub, last, stored, priv, part, ring, look, obs>>

\* content of configuration cid as participant p holds / stores it
ConfOf(p, cid) == IF cid = Merged THEN priv[p] ELSE pub[cid]

FirstConf == CHOOSE c \in ConfIds : TRUE     \* the application configuration (any fixed one)

Init ==
    /\ pub \in PubChoices
    /\ last = [p \in Participants |-> IF Static THEN FirstConf ELSE NoConf]
    /\ stored = [p \in Participants |-> NoConf]
    /\ priv = [p \in Participants |-> NoConf]
    /\ look = [p \in Participants |-> NoConf]
    /\ part = <<>> /\ ring = <<>> /\ obs = NoConf

Extend(f, k, v) == IF k \in DOMAIN f THEN f ELSE f @@ (k :> v)

(* ---- service life cycle (service.Init / updateConfiguration / restart) ---- *)
\* Init: the application configuration if nothing is stored; else the stored configuration, after the
\* coordinator merge - and under the private id Merged if the merge changed it (saved and set)
BootWith(p, appConf) ==
    /\ last[p] = NoConf /\ look[p] = NoConf
    /\ IF stored[p] = NoConf
       THEN /\ last' = [last EXCEPT ![p] = appConf]
            /\ UNCHANGED <<stored, priv>>
       ELSE LET st == ConfOf(p, stored[p])
                m  == Merge(pub[appConf], st)
            IN IF m # st
               THEN /\ last' = [last EXCEPT ![p] = Merged]
                    /\ stored' = [stored EXCEPT ![p] = Merged]
                    /\ priv' = [priv EXCEPT ![p] = m]
               ELSE /\ last' = [last EXCEPT ![p] = stored[p]]
                    /\ UNCHANGED <<stored, priv>>
    /\ obs' = NoConf
    /\ UNCHANGED <<pub, part, ring, look>>

\* updateConfiguration: the source returned configuration c: saved, then set (a fresh ring is built;
\* nothing of the previous configuration survives).  setLastConfiguration takes the write lock: it waits for
\* the lookups in flight, so a lookup is atomic with respect to configuration changes
Boot(p) == BootWith(p, FirstConf)

Update(p, c) ==
    /\ last[p] # NoConf /\ c # last[p] /\ look[p] = NoConf
    /\ stored' = [stored EXCEPT ![p] = c]
    /\ last' = [last EXCEPT ![p] = c]
    /\ obs' = NoConf
    /\ UNCHANGED <<pub, priv, part, ring, look>>

Restart(p) ==
    /\ last[p] # NoConf /\ ~Static /\ look[p] = NoConf
    /\ last' = [last EXCEPT ![p] = NoConf]
    /\ obs' = NoConf
    /\ UNCHANGED <<pub, stored, priv, part, ring, look>>

(* ---- answering a query ---- *)
RingKey(rf, S, pt) == <<rf, S, pt>>

\* records an answer of participant p for space id s that reports configuration cid;
\* values of the uninterpreted functions are fixed by their first use
Answer(p, s, cid, pt, m, m2, ids, resp) ==
    /\ last[p] # NoConf
    /\ LET k == ReplKey(s)
           c == ConfOf(p, cid)
       IN /\ part' = Extend(part, k, pt)
          /\ ring' = Extend(Extend(ring, RingKey(RF, Sync(c), pt), m), RingKey(RF2, FileV2(c), pt), m2)
          /\ obs' = [p |-> p, space |-> s, conf |-> cid, part |-> pt, members |-> m,
                     nodeIds |-> ids, resp |-> resp, fileV2Ids |-> m2]
    /\ UNCHANGED <<pub, last, stored, priv>>

\* what the code computes: partition and members from the (shared, deterministic) functions,
\* NodeIds filters the own account, IsResponsible tests membership, FileV2NodeIds keeps self
QueryFrom(p, s, cid) ==
    /\ last[p] # NoConf
    /\ LET k == ReplKey(s)
           c == ConfOf(p, cid)
       IN \E pt \in Parts, m \in Choices(RF, Sync(c)), m2 \in Choices(RF2, FileV2(c)) :
            /\ k \in DOMAIN part => pt = part[k]
            /\ RingKey(RF, Sync(c), pt) \in DOMAIN ring => m = ring[RingKey(RF, Sync(c), pt)]
            /\ RingKey(RF2, FileV2(c), pt) \in DOMAIN ring => m2 = ring[RingKey(RF2, FileV2(c), pt)]
            /\ (RF = RF2 /\ Sync(c) = FileV2(c)) => m = m2
            /\ Answer(p, s, cid, pt, m, m2, m \ {p}, p \in m)

\* a lookup under the read lock, in one step ...
Query(p, s) == look[p] = NoConf /\ QueryFrom(p, s, last[p]) /\ UNCHANGED look

\* ... or in two, with steps of other participants (and refused steps of this one) in between
LookupBegin(p, s) ==
    /\ Lookups /\ last[p] # NoConf /\ look[p] = NoConf
    /\ look' = [look EXCEPT ![p] = [space |-> s, conf |-> last[p]]]
    /\ UNCHANGED <<pub, last, stored, priv, part, ring, obs>>
LookupEnd(p) ==
    /\ look[p] # NoConf
    /\ QueryFrom(p, look[p].space, look[p].conf)
    /\ look' = [look EXCEPT ![p] = NoConf]

Next == \/ \E p \in Participants : Boot(p) \/ Restart(p)
        \/ \E p \in Participants, c \in ConfIds : Update(p, c)
        \/ \E p \in Participants, s \in SpaceIds : Query(p, s) \/ LookupBegin(p, s)
        \/ \E p \in Participants : LookupEnd(p)

Spec == Init /\ [][Next]_vars

(* ------------------------------ properties ------------------------------ *)
TypeOK ==
    /\ last \in [Participants -> ConfIds \cup {NoConf, Merged}]
    /\ stored \in [Participants -> ConfIds \cup {NoConf, Merged}]
    /\ \A p \in Participants : (last[p] = Merged \/ stored[p] = Merged) => priv[p] # NoConf
    /\ \A k \in DOMAIN part : part[k] \in Parts

\* the assumption on the hash ring
RingContract ==
    \A key \in DOMAIN ring : /\ ring[key] \subseteq key[2]
                             /\ Cardinality(ring[key]) = Min(key[1], Cardinality(key[2]))

HasObs == obs # NoConf
OConf  == ConfOf(obs.p, obs.conf)

\* the answer was computed from the configuration the participant currently holds
AnswerFromCurrentConf == HasObs => obs.conf = last[obs.p]
\* ... also when the lookup overlapped other steps: it was computed from the configuration it read, which is still held
LookupAtomic == \A p \in Participants : look[p] # NoConf => look[p].conf = last[p]

\* every answer is the value of the one shared function of (sync-node SET, suffix): since part/ring keep
\* the first answer given by anybody, this is agreement between all participants, all list orders and all
\* configurations with the same sync-node set, and dependence on the suffix only
Agreement ==
    HasObs => /\ obs.part = part[ReplKey(obs.space)]
              /\ obs.members = ring[RingKey(RF, Sync(OConf), obs.part)]
              /\ obs.fileV2Ids = ring[RingKey(RF2, FileV2(OConf), obs.part)]

\* min(RF, n) distinct sync nodes
ResponsibleSet ==
    HasObs => /\ obs.members \subseteq Sync(OConf)
              /\ Cardinality(obs.members) = Min(RF, Cardinality(Sync(OConf)))
              /\ obs.fileV2Ids \subseteq FileV2(OConf)
              /\ Cardinality(obs.fileV2Ids) = Min(RF2, Cardinality(FileV2(OConf)))

\* a node is responsible exactly when it is in the set; the peer list is the set minus self
SelfExclusion ==
    HasObs => /\ obs.resp <=> (obs.p \in obs.members)
              /\ obs.nodeIds = obs.members \ {obs.p}

\* consequences participants rely on
Consequences ==
    HasObs => /\ obs.p = Client => (~obs.resp /\ obs.nodeIds = obs.members)
              /\ obs.resp => obs.p \in Sync(OConf)
              /\ obs.p \notin obs.nodeIds
              /\ Cardinality(obs.nodeIds) = Cardinality(obs.members) - (IF obs.resp THEN 1 ELSE 0)
              /\ (Cardinality(Sync(OConf)) <= RF) => obs.members = Sync(OConf)

Inv == TypeOK /\ RingContract /\ AnswerFromCurrentConf /\ LookupAtomic /\ Agreement /\ ResponsibleSet /\ SelfExclusion /\ Consequences

\* pairwise form of the property as an action property: two consecutive answers (any two participants,
\* any two ids) for the same sync-node set and the same suffix name the same nodes
PairAgreement ==
    [][(obs # NoConf /\ obs' # NoConf /\ obs' # obs
        /\ Sync(ConfOf(obs.p, obs.conf)) = Sync(ConfOf(obs'.p, obs'.conf))
        /\ ReplKey(obs.space) = ReplKey(obs'.space))
       => (obs'.members = obs.members /\ obs'.part = obs.part)]_vars
=============================================================================
