INIT TraceInit
NEXT TraceNext
CONSTANTS
  Nodes <- TraceNodes
  Client = "client"
  ConfIds <- TraceConfIds
  SpaceIds = {}
  RF = 3
  RF2 = 2
  Parts <- TraceParts
  NoConf = NoConf
  Merged = "-1"
  Lookups = TRUE
  Static = FALSE
  PubChoices = {}
INVARIANT TypeOK
INVARIANT RingContract
INVARIANT AnswerFromCurrentConf
INVARIANT Agreement
INVARIANT ResponsibleSet
INVARIANT SelfExclusion
INVARIANT Consequences
INVARIANT NoDuplicates
CONSTRAINT Mark
POSTCONDITION TraceAccepted
CHECK_DEADLOCK FALSE
