----------------------------- MODULE NodeConfGen -----------------------------
(* Generation: every configuration (up to node symmetry) of the model-checked instance is   *)
(* written as JSON; the Go harness builds real nodeconf services for each of them.          *)
EXTENDS NodeConfMC, VerifEmit
ASSUME EmitReset
GenNext == FALSE /\ UNCHANGED vars
ConfJson == [nodes |-> {[id |-> ToString(n), types |-> TypesOf(pub[FirstConf][n])] : n \in DOMAIN pub[FirstConf]}]
Emit == EmitWhen(obs = NoConf /\ DOMAIN ring = {}, ConfJson)
=============================================================================
