SPECIFICATION Spec
CONSTANTS
  Nodes = {n1, n2, n3, n4}
  Client = client
  ConfIds = {"c1"}
  SpaceIds <- MCSpaceIds
  RF = 3
  RF2 = 2
  Parts = {0}
  NoConf = NoConf
  Merged = Merged
  Lookups = FALSE
  Static = TRUE
  PubChoices <- MCAllPubs
SYMMETRY NodeSym
INVARIANT Inv
PROPERTY PairAgreement
CHECK_DEADLOCK FALSE
