----------------------------- MODULE NodeConfMC -----------------------------
(* Model-checking instances of NodeConf. *)
EXTENDS NodeConf

\* ids with no dot, one dot, two dots; two suffixes
MCSpaceIds == {<<"k1">>, <<"x", "k1">>, <<"y", "k1">>, <<"a", "b", "k1">>, <<"x", "k2">>}
\* every configuration of the given nodes with every mix of the types that matter for the rings
\* (addresses and the coordinator type only matter for the life cycle: dynamic instance)
NodeRecs == [ents : {<<ts>> : ts \in SUBSET {"tree", "fileV2"}}, addrs : {{}}]      \* one entry per peer
Confs == UNION {[D -> NodeRecs] : D \in SUBSET Nodes}
MCAllPubs == [ConfIds -> Confs]
NodeSym == Permutations(Nodes)

\* dynamic instance (Boot / Update / Restart): pairs <<application configuration, other published configuration>>
MCSpaceIds2 == {<<"x", "k1">>, <<"k1">>, <<"x", "k2">>}
MCSpaceIds3 == {<<"x", "k1">>, <<"k1">>}
MCSpaceIds4 == {<<"k1">>, <<"x", "k1">>, <<"a", "b", "k1">>, <<"x", "k2">>}
MCDynPubs ==
  LET N1 == CHOOSE n \in Nodes : TRUE
      N2 == CHOOSE n \in Nodes : n # N1
      T == {"tree"}  F == {"fileV2"}  TF == {"tree", "fileV2"}  C == {"coord"}  TC == {"tree", "coord"}
      R(ts, as) == [ents |-> <<ts>>, addrs |-> as]
      R2(t1, t2, as) == [ents |-> <<t1, t2>>, addrs |-> as]      \* one peer id, two entries, roles split
      Pair(a, b) == [c \in ConfIds |-> IF c = FirstConf THEN a ELSE b]
  IN { \* the sync set shrinks / changes completely / only irrelevant types change / grows
       Pair(N1 :> R(T, {}) @@ N2 :> R(T, {}),        N1 :> R(T, {})),
       Pair(N1 :> R(T, {}),                          N2 :> R(TF, {}) @@ N1 :> R(F, {})),
       Pair(N1 :> R(TF, {}) @@ N2 :> R({}, {}),      N1 :> R(T, {}) @@ N2 :> R(F, {})),
       Pair(N1 :> R({}, {}),                         N1 :> R(T, {}) @@ N2 :> R(TF, {})),
       \* role swap: same node set, same number of sync nodes, types permuted
       Pair(N1 :> R(T, {}) @@ N2 :> R(F, {}),        N1 :> R(F, {}) @@ N2 :> R(T, {})),
       Pair(N1 :> R(TF, {}) @@ N2 :> R({}, {}),      N1 :> R({}, {}) @@ N2 :> R(TF, {})),
       \* coordinator merge: the published configuration lacks an address / a coordinator the application has
       Pair(N1 :> R(TC, {"x", "y"}) @@ N2 :> R(T, {}),   N1 :> R(TC, {"x"}) @@ N2 :> R(T, {})),
       Pair(N1 :> R(T, {}) @@ N2 :> R(C, {"x"}),         N1 :> R(T, {})),
       Pair(N1 :> R(T, {}) @@ N2 :> R(TC, {"x"}),        N1 :> R(T, {})),
       \* a peer listed in two entries with the roles split (coordinator first, sync node later), also as the result of a merge
       Pair(N1 :> R2(C, T, {"x"}) @@ N2 :> R(T, {}),      N1 :> R2(T, C, {"x"}) @@ N2 :> R(F, {})),
       Pair(N1 :> R(C, {"x"}) @@ N2 :> R(T, {}),          N1 :> R(T, {}) @@ N2 :> R(T, {})),
       \* ... and one where the merge changes nothing
       Pair(N1 :> R(TC, {"x"}) @@ N2 :> R(T, {}),        N1 :> R(TC, {"x", "y"}) @@ N2 :> R(F, {})) }
\* quick tier: one pair per class
MCDynPubsQ ==
  LET N1 == CHOOSE n \in Nodes : TRUE
      N2 == CHOOSE n \in Nodes : n # N1
      T == {"tree"}  F == {"fileV2"}  TF == {"tree", "fileV2"}  C == {"coord"}  TC == {"tree", "coord"}
      R(ts, as) == [ents |-> <<ts>>, addrs |-> as]
      R2(t1, t2, as) == [ents |-> <<t1, t2>>, addrs |-> as]      \* one peer id, two entries, roles split
      Pair(a, b) == [c \in ConfIds |-> IF c = FirstConf THEN a ELSE b]
  IN { Pair(N1 :> R(T, {}) @@ N2 :> R(T, {}),        N1 :> R(T, {})),
       Pair(N1 :> R(T, {}) @@ N2 :> R(F, {}),        N1 :> R(F, {}) @@ N2 :> R(T, {})),
       Pair(N1 :> R(TC, {"x", "y"}) @@ N2 :> R(T, {}),   N1 :> R(TC, {"x"}) @@ N2 :> R(T, {})),
       Pair(N1 :> R2(C, T, {"x"}) @@ N2 :> R(T, {}),      N1 :> R2(T, C, {"x"}) @@ N2 :> R(F, {})),
       Pair(N1 :> R(C, {"x"}) @@ N2 :> R(T, {}),          N1 :> R(T, {}) @@ N2 :> R(T, {})) }
\* lookups in two steps interleaved with the life cycle: a few pairs are enough (the sync set changes / swaps / stays)
MCRacePubs ==
  LET N1 == CHOOSE n \in Nodes : TRUE
      N2 == CHOOSE n \in Nodes : n # N1
      R(ts) == [ents |-> <<ts>>, addrs |-> {}]
      Pair(a, b) == [c \in ConfIds |-> IF c = FirstConf THEN a ELSE b]
  IN { Pair(N1 :> R({"tree"}), N2 :> R({"tree"})),
       Pair(N1 :> R({"tree"}) @@ N2 :> R({"fileV2"}), N1 :> R({"fileV2"}) @@ N2 :> R({"tree"})),
       Pair(N1 :> R({"tree"}) @@ N2 :> R({"tree"}), N1 :> R({"tree"}) @@ N2 :> R({"tree", "fileV2"})) }
=============================================================================
