----------------------------- MODULE NodeConfMC -----------------------------
(* Model-checking instances of NodeConf. *)
EXTENDS NodeConf

\* ids with no dot, one dot, two dots; two suffixes
MCSpaceIds == {<<"k1">>, <<"x", "k1">>, <<"y", "k1">>, <<"a", "b", "k1">>, <<"x", "k2">>}
\* every configuration of the given nodes with every type mix
Confs == UNION {[D -> SUBSET Types] : D \in SUBSET Nodes}
MCAllPubs == [ConfIds -> Confs]
NodeSym == Permutations(Nodes)

\* dynamic instance (Boot / Update / Restart): two published configurations that differ in the sync set,
\* only in node types that do not matter, or not at all in the sync set
MCSpaceIds2 == {<<"x", "k1">>, <<"k1">>, <<"x", "k2">>}
MCSpaceIds3 == {<<"x", "k1">>, <<"k1">>}
MCSpaceIds4 == {<<"k1">>, <<"x", "k1">>, <<"a", "b", "k1">>, <<"x", "k2">>}
MCDynPubs ==
  LET N1 == CHOOSE n \in Nodes : TRUE
      N2 == CHOOSE n \in Nodes : n # N1
      T == {"tree"}  F == {"fileV2"}  TF == {"tree", "fileV2"}
  IN { [c \in ConfIds |-> IF c = FirstConf THEN (N1 :> T @@ N2 :> T) ELSE (N1 :> T)],
       [c \in ConfIds |-> IF c = FirstConf THEN (N1 :> T) ELSE (N2 :> TF @@ N1 :> F)],
       [c \in ConfIds |-> IF c = FirstConf THEN (N1 :> TF @@ N2 :> {}) ELSE (N1 :> T @@ N2 :> F)],
       [c \in ConfIds |-> IF c = FirstConf THEN (N1 :> {}) ELSE (N1 :> T @@ N2 :> TF)] }
=============================================================================
