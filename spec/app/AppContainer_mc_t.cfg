SPECIFICATION Spec
CONSTANTS
  MaxN = 5
  Names = {"a", "b"}
  MaxDepth = 4
INVARIANT Inv
PROPERTY Terminates
CHECK_DEADLOCK FALSE
