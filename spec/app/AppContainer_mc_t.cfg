SPECIFICATION Spec
CONSTANTS
  MaxN = 5
  Names = {"a", "b"}
  MaxDepth = 3
INVARIANT Inv
PROPERTY Terminates
CHECK_DEADLOCK FALSE
