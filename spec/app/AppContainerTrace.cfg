SPECIFICATION TraceSpec
CONSTANTS
  MaxN = 8
  Names = {}
  MaxDepth = 1
INVARIANT Inv
CONSTRAINT Mark
POSTCONDITION TraceAccepted
CHECK_DEADLOCK FALSE
