SPECIFICATION Spec
CONSTANTS
  MaxN = 4
  Names = {"a", "b"}
  MaxDepth = 3
INVARIANT Inv
PROPERTY Terminates
CHECK_DEADLOCK FALSE
