SPECIFICATION Spec
CONSTANTS
  MaxN = 4
  Names = {"a", "b"}
  MaxDepth = 2
INVARIANT Inv
PROPERTY Terminates
CHECK_DEADLOCK FALSE
