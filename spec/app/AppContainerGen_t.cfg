INIT Init
NEXT Next
CONSTANTS
  MaxN = 5
  Names = {"a", "b"}
  MaxDepth = 4
INVARIANT Emit
CHECK_DEADLOCK FALSE
