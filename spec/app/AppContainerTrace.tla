-------------------------- MODULE AppContainerTrace --------------------------
(* Trace validation: the call log recorded from a real app.App (one line per component   *)
(* call, plus Config / StartReturn / CloseReturn lines) must be a behaviour of            *)
(* AppContainer. Steps the implementation does not log (loop ends, skipping plain         *)
(* components) are silent spec steps. Many runs are concatenated: a Config line resets.   *)
EXTENDS AppContainer, VerifEmit

ASSUME HwReset
Trace == ndJsonDeserialize(TraceFileName)
VARIABLE l
tvars == <<vars, l>>

Cfg(x) == /\ comps' = x.comps /\ fail' = x.fail /\ chain' = <<{}>> /\ late' = {}
          /\ pc' = "init" /\ idx' = 1 /\ log' = <<>> /\ startErr' = "pending" /\ closeErrs' = {}

TraceInit == /\ l = 2 /\ Trace[1].ev = "Config"
             /\ comps = Trace[1].comps /\ fail = Trace[1].fail /\ chain = <<{}>> /\ late = {}
             /\ pc = "init" /\ idx = 1 /\ log = <<>> /\ startErr = "pending" /\ closeErrs = {}

IsEvent(e) == l <= Len(Trace) /\ Trace[l].ev = e /\ l' = l + 1

TrInit  == IsEvent("init") /\ idx = Trace[l].i /\ InitStep
TrRun   == IsEvent("run") /\ idx = Trace[l].i /\ Runnable(idx) /\ RunStep
TrClose == IsEvent("close") /\ idx = Trace[l].i /\ idx > 0 /\ Runnable(idx) /\ (FailCloseStep \/ CloseStep)
\* Start returned: the spec must be at the matching point with the matching error kind
TrStartReturn == /\ IsEvent("StartReturn") /\ startErr = Trace[l].err
                 /\ (pc = "started" \/ pc = "done") /\ UNCHANGED vars
TrCloseReturn == /\ IsEvent("CloseReturn") /\ pc = "done" /\ fail.kind = "none"
                 /\ closeErrs = {i \in 1..N : Trace[l].errs[i]} /\ UNCHANGED vars
TrReset == IsEvent("Config") /\ pc = "done" /\ Cfg(Trace[l])

Silent == /\ \/ InitDone
             \/ (pc = "run" /\ idx <= N /\ ~Runnable(idx) /\ RunStep)
             \/ RunDone
             \/ (pc = "started" /\ l <= Len(Trace) /\ Trace[l].ev # "StartReturn" /\ CloseBegin)
             \/ (pc = "failclose" /\ (IF idx = 0 THEN TRUE ELSE ~Runnable(idx)) /\ FailCloseStep)
             \/ (pc = "close" /\ (IF idx = 0 THEN TRUE ELSE ~Runnable(idx)) /\ CloseStep)
          /\ UNCHANGED l

TraceNext == TrInit \/ TrRun \/ TrClose \/ TrStartReturn \/ TrCloseReturn \/ TrReset \/ Silent
TraceSpec == TraceInit /\ [][TraceNext]_tvars

Mark == HwMark(l)
TraceAccepted == HwAccepted(Len(Trace))
=============================================================================
