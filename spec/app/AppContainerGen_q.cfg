INIT Init
NEXT Next
CONSTANTS
  MaxN = 3
  Names = {"a", "b"}
  MaxDepth = 2
INVARIANT Emit
CHECK_DEADLOCK FALSE
