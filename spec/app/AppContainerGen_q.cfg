INIT Init
NEXT Next
CONSTANTS
  MaxN = 4
  Names = {"a", "b"}
  MaxDepth = 3
INVARIANT Emit
CHECK_DEADLOCK FALSE
