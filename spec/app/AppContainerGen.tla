--------------------------- MODULE AppContainerGen ---------------------------
(* Behaviour generation: every terminal history of AppContainer is written as JSON. *)
EXTENDS AppContainer, VerifEmit
ASSUME EmitReset
Behaviour == [comps |-> comps, fail |-> fail, chain |-> [k \in 1..Len(chain) |-> chain[k]],
              late |-> late, log |-> log, startErr |-> startErr, closeErrs |-> closeErrs,
              resolve |-> [nm \in Names |-> Resolve(nm)],
              resolveEarly |-> [nm \in Names |-> ResolveEarly(nm)]]
Emit == EmitWhen(pc = "done", Behaviour)
=============================================================================
