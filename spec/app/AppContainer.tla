---------------------------- MODULE AppContainer ----------------------------
(* Component container of any-sync (app/app.go): Register / Start / Close and *)
(* name resolution through parent containers.                                  *)
(*                                                                             *)
(* One action per component call the container makes (Init(i), Run(i),         *)
(* Close(i)); the configuration (component list, kinds, single failure point,  *)
(* components whose Close returns an error, container nesting) is chosen       *)
(* nondeterministically in Init so that one TLC run covers every configuration.*)
EXTENDS Naturals, Sequences, FiniteSets, TLC

CONSTANTS MaxN,        \* maximal number of components in the container under test
          Names,       \* component names used for the lookup part
          MaxDepth     \* maximal nesting depth of containers (1 = no parent)

Kinds == {"plain", "runnable"}

VARIABLES comps,     \* Seq of [kind, closeErr] : the registered components, in registration order
          fail,      \* [kind |-> "none"|"init"|"run", idx |-> Nat] : the single failure point
          pc,        \* "init" | "run" | "failclose" | "started" | "close" | "done"
          idx,       \* component the container works on next
          log,       \* history: sequence of <<op, i>> calls made so far
          startErr,  \* "pending" | "none" | "init" | "run": what Start returned
          closeErrs, \* set of components whose Close error has been collected by app.Close
          chain,     \* Seq of sets of names: chain[1] = container under test, chain[k+1] = its parent
          late       \* levels k >= 2 that register their components only AFTER their child container
                     \* (level k-1) has been created with ChildApp(); resolution must not depend on it
vars == <<comps, fail, pc, idx, log, startErr, closeErrs, chain, late>>

N == Len(comps)
Runnable(i) == comps[i].kind = "runnable"

CompLists == UNION {[1..n -> [kind : Kinds, closeErr : BOOLEAN]] : n \in 0..MaxN}

Chains == UNION {[1..d -> SUBSET Names] : d \in 1..MaxDepth}

Init ==
    /\ comps \in CompLists
    /\ \A i \in 1..Len(comps) : comps[i].closeErr => comps[i].kind = "runnable"
    /\ fail \in [kind : {"none", "init", "run"}, idx : 0..MaxN]
    /\ \/ fail.kind = "none" /\ fail.idx = 0
       \/ fail.kind = "init" /\ fail.idx \in 1..Len(comps)
       \/ fail.kind = "run" /\ fail.idx \in 1..Len(comps) /\ comps[fail.idx].kind = "runnable"
    \* the lifecycle part and the lookup part are independent: either an arbitrary nesting with
    \* names (and no lifecycle components) or an arbitrary component list under 0..MaxDepth-1 empty parents
    /\ \/ comps = <<>> /\ chain \in Chains /\ late \in SUBSET (2..Len(chain))
       \/ chain \in {[k \in 1..d |-> {}] : d \in 1..MaxDepth} /\ late = {}
    /\ pc = "init" /\ idx = 1 /\ log = <<>> /\ startErr = "pending" /\ closeErrs = {}

(* ---- Start: first loop, Init of every component in registration order ---- *)
InitStep ==
    /\ pc = "init" /\ idx <= N
    /\ log' = Append(log, <<"init", idx>>)
    /\ IF fail.kind = "init" /\ fail.idx = idx
         THEN pc' = "failclose" /\ idx' = idx /\ startErr' = "init"     \* closeServices(i)
         ELSE pc' = pc /\ idx' = idx + 1 /\ startErr' = startErr
    /\ UNCHANGED <<comps, fail, closeErrs, chain, late>>

InitDone ==
    /\ pc = "init" /\ idx = N + 1
    /\ pc' = "run" /\ idx' = 1
    /\ UNCHANGED <<comps, fail, log, startErr, closeErrs, chain, late>>

(* ---- Start: second loop, Run of every runnable component ---- *)
RunStep ==
    /\ pc = "run" /\ idx <= N
    /\ IF Runnable(idx)
         THEN /\ log' = Append(log, <<"run", idx>>)
              /\ IF fail.kind = "run" /\ fail.idx = idx
                   THEN pc' = "failclose" /\ idx' = idx /\ startErr' = "run"
                   ELSE pc' = pc /\ idx' = idx + 1 /\ startErr' = startErr
         ELSE log' = log /\ pc' = pc /\ idx' = idx + 1 /\ startErr' = startErr
    /\ UNCHANGED <<comps, fail, closeErrs, chain, late>>

RunDone ==
    /\ pc = "run" /\ idx = N + 1
    /\ pc' = "started" /\ startErr' = "none"
    /\ UNCHANGED <<comps, fail, idx, log, closeErrs, chain, late>>

(* ---- failure inside Start: close the runnable ones among the first idx, backwards.    *)
(* Close errors are only logged here, Start returns the init/run error.                  *)
FailCloseStep ==
    /\ pc = "failclose"
    /\ IF idx = 0
         THEN pc' = "done" /\ UNCHANGED <<idx, log>>
         ELSE /\ idx' = idx - 1
              /\ log' = IF Runnable(idx) THEN Append(log, <<"close", idx>>) ELSE log
              /\ pc' = pc
    /\ UNCHANGED <<comps, fail, startErr, closeErrs, chain, late>>

(* ---- app.Close after a successful Start ---- *)
CloseBegin ==
    /\ pc = "started"
    /\ pc' = "close" /\ idx' = N
    /\ UNCHANGED <<comps, fail, log, startErr, closeErrs, chain, late>>

CloseStep ==
    /\ pc = "close"
    /\ IF idx = 0
         THEN pc' = "done" /\ UNCHANGED <<idx, log, closeErrs>>
         ELSE /\ idx' = idx - 1
              /\ log' = IF Runnable(idx) THEN Append(log, <<"close", idx>>) ELSE log
              /\ closeErrs' = IF Runnable(idx) /\ comps[idx].closeErr THEN closeErrs \cup {idx} ELSE closeErrs
              /\ pc' = pc
    /\ UNCHANGED <<comps, fail, startErr, chain, late>>

Next == InitStep \/ InitDone \/ RunStep \/ RunDone \/ FailCloseStep \/ CloseBegin \/ CloseStep

Spec == Init /\ [][Next]_vars /\ WF_vars(Next)

(* ------------------------------ name resolution ------------------------------ *)
\* Resolve(name) from the container under test: the nearest container of the chain holding the name
RECURSIVE ResolveFrom(_, _)
ResolveFrom(k, name) ==
    IF k > Len(chain) THEN 0
    ELSE IF name \in chain[k] THEN k ELSE ResolveFrom(k + 1, name)
Resolve(name) == ResolveFrom(1, name)
\* the same question asked EARLY: after the child containers were created but before the late levels registered.
\* Lookup is a function of the registrations made so far - an earlier answer must not influence a later one.
RECURSIVE ResolveIn(_, _, _)
ResolveIn(ch, k, name) ==
    IF k > Len(ch) THEN 0
    ELSE IF name \in ch[k] THEN k ELSE ResolveIn(ch, k + 1, name)
EarlyChain == [k \in 1..Len(chain) |-> IF k \in late THEN {} ELSE chain[k]]
ResolveEarly(name) == ResolveIn(EarlyChain, 1, name)

(* -------------------------------- properties -------------------------------- *)
Pos(op, i) == CHOOSE p \in 1..Len(log) : log[p] = <<op, i>>
Has(op, i) == \E p \in 1..Len(log) : log[p] = <<op, i>>
Count(op, i) == Cardinality({p \in 1..Len(log) : log[p] = <<op, i>>})

\* every call is made at most once
AtMostOnce == \A i \in 1..N : \A op \in {"init", "run", "close"} : Count(op, i) <= 1

\* every component is initialised before any component is run
InitAllBeforeAnyRun ==
    \A i \in 1..N : Has("run", i) => \A j \in 1..N : Has("init", j) /\ Pos("init", j) < Pos("run", i)

\* init and run happen in registration order, only runnable components are run / closed
RegistrationOrder ==
    /\ \A i, j \in 1..N : (i < j /\ Has("init", i) /\ Has("init", j)) => Pos("init", i) < Pos("init", j)
    /\ \A i, j \in 1..N : (i < j /\ Has("run", j)) => (Has("init", i) /\ (Runnable(i) => (Has("run", i) /\ Pos("run", i) < Pos("run", j))))
    /\ \A i \in 1..N : (Has("run", i) \/ Has("close", i)) => Runnable(i)
    /\ \A j \in 1..N : Has("init", j) => \A i \in 1..(j-1) : Has("init", i)

\* a component is never closed before a component registered after it
CloseReverse ==
    \A i, j \in 1..N : (i < j /\ Has("close", i) /\ Has("close", j)) => Pos("close", j) < Pos("close", i)

\* nothing is initialised or run once closing has begun
NothingAfterClose ==
    \A p, q \in 1..Len(log) : (p < q /\ log[p][1] = "close") => log[q][1] = "close"

\* terminal state after a failure of component i: exactly the runnable among 1..i closed, nothing further run
FailureClosesPrefix ==
    (pc = "done" /\ fail.kind # "none") =>
        /\ startErr = fail.kind
        /\ \A i \in 1..N : Has("close", i) <=> (Runnable(i) /\ i <= fail.idx)
        /\ \A i \in 1..N : i > fail.idx => ~Has("run", i)
        /\ fail.kind = "init" => (\A i \in 1..N : ~Has("run", i) /\ (Has("init", i) <=> i <= fail.idx))

\* terminal state after a clean start + Close: all runnable components closed, errors collected, Start returned nil
CleanShutdown ==
    (pc = "done" /\ fail.kind = "none") =>
        /\ startErr = "none"
        /\ \A i \in 1..N : Has("init", i) /\ (Runnable(i) <=> Has("run", i)) /\ (Runnable(i) <=> Has("close", i))
        /\ closeErrs = {i \in 1..N : comps[i].closeErr}

\* lookup: local first, then the parents, nearest first
LookupLocalThenParents ==
    \A nm \in Names :
        LET k == Resolve(nm) IN
        /\ (k = 0) <=> (\A j \in 1..Len(chain) : nm \notin chain[j])
        /\ k > 0 => (nm \in chain[k] /\ \A j \in 1..(k-1) : nm \notin chain[j])

\* a registration made after a lookup can only shadow the earlier answer by a nearer container
LookupShadowedOnlyByNearer ==
    \A nm \in Names : ResolveEarly(nm) > 0 => (Resolve(nm) > 0 /\ Resolve(nm) <= ResolveEarly(nm))

Terminates == <>(pc = "done")

Inv == AtMostOnce /\ InitAllBeforeAnyRun /\ RegistrationOrder /\ CloseReverse /\ NothingAfterClose
       /\ FailureClosesPrefix /\ CleanShutdown /\ LookupLocalThenParents /\ LookupShadowedOnlyByNearer
=============================================================================
