#!/usr/bin/env python3
"""round-2 prompt: as seed_prompt.py but asks for TWO changes different from the round-1 titles"""
import json, sys, glob, os, subprocess
pid = sys.argv[1]
base = subprocess.run([sys.executable, '/verif/lib/seed_prompt.py', pid], capture_output=True, text=True).stdout
titles = []
for d in sorted(glob.glob('/verif/seeded/%s-m*' % pid)):
    try:
        m = json.load(open(os.path.join(d, 'meta.json')))
        titles.append('- %s (%s)' % (m.get('title'), ', '.join(m.get('files', []))))
    except Exception:
        pass
base = base.replace('up to THREE different', 'TWO different').replace('k = 1..3', 'k = 4..5').replace('the three should break', 'the two should break')
base = base.replace('/tmp/seedwt-%s' % pid, '/tmp/seedwt2-%s' % pid).replace('/tmp/seed-%s/' % pid, '/tmp/seed2-%s/' % pid)
extra = ("\n\nAn earlier round already produced the following changes for this property — yours must be DIFFERENT from them (other functions and other clauses of the property where possible; look for code paths, entry points and option combinations the ones below do not touch):\n" + "\n".join(titles) +
         "\n\nNote: the repository contains files guarded by the Go build tag `verif` and calls to no-op functions named verif* — ignore them: do not modify or remove them and do not rely on the tag. Never use `git stash` (the stash is shared by all worktrees of /repo and other agents work in parallel) - toggle your change with `git apply` / `git apply -R`. The machine is loaded by other jobs; timing-sensitive existing tests (commonspace Test_Sync, net/transport/yamux TestDialContextCancellation (always fails here), net/rpc/limiter, spacestorage/migration TestMigratePoolTryAddWhenFull, occasionally ocache/pubsub/streampool) flake on the clean tree too — re-run a failing package alone before attributing a failure to your change.\n")
print(base + extra)
