#!/usr/bin/env python3
"""round-3 prompt: ONE further change, different from all earlier titles, tight time budget"""
import json, sys, glob, os, subprocess, re
pid = sys.argv[1]
base = subprocess.run([sys.executable, '/verif/lib/seed_prompt2.py', pid], capture_output=True, text=True).stdout
n = len(glob.glob('/verif/seeded/%s-m*' % pid)) + 1
base = base.replace('TWO different, realistic changes', 'ONE realistic change').replace('k = 4..5', 'k = %d' % n)
base = base.replace('each of which BREAKS', 'which BREAKS').replace(', and the two should break different aspects of the property / live in different functions', '')
base = base.replace('/tmp/seedwt2-%s' % pid, '/tmp/seedwt3-%s' % pid).replace('/tmp/seed2-%s/' % pid, '/tmp/seed3-%s/' % pid)
base += ("\nTime budget: you have about 20 minutes of wall time in total. Pick a change quickly, write the demonstration, confirm it, and finish; "
         "run the full suite only once (with the change applied), and the affected packages' tests once. Always remove your worktree before replying.\n")
print(base)
