#!/usr/bin/env python3
"""prints the prompt for a fresh mutation-seeding agent for property <ID> (only the property text is given)"""
import json, sys
pid = sys.argv[1]
p = [json.loads(l) for l in open('/verif/properties.jsonl') if json.loads(l)['id'] == pid][0]
print(f"""You are given one semantic property of the Go repository anyproto/any-sync (checked out at /repo; do NOT modify /repo itself and do NOT read anything under /verif — it is off limits for this task).

Property {pid} — {p['title']}
Statement: {p['statement']}
Quantifier: {p['quantifier']['text']}
Why the existing tests cannot settle it: {p['why_tests_cant']}
Anchor files: {', '.join(p['anchors']['files'])}

Task: produce up to THREE different, realistic changes to the repository's non-test source, each of which BREAKS this property while the repository still compiles and its existing test suite still passes. Prefer changes that need something specific to manifest — a particular interleaving, a crash or fault at a particular point, a multi-step sequence of operations, an unusual input, or two cooperating sites that each look fine alone — not ones that ordinary use would expose at once. They should look like plausible developer mistakes or well-meant "optimisations" (not sabotage like `panic("x")`), and the three should break different aspects of the property / live in different functions.

Setup: create your own scratch worktree: `git -C /repo worktree add --detach /tmp/seedwt-{pid} HEAD` and work only there. Environment for every go command: `export GOFLAGS=-mod=mod GOPROXY=off` (do not set GOSUMDB or GOTOOLCHAIN; there is no network). The full suite is `cd /tmp/seedwt-{pid} && go test -vet=off -count=1 -timeout 25m ./...` (≈ 90 s; package util/periodicsync fails to build in the baseline — ignore it).

For each change k = 1..3 write to /tmp/seed-{pid}/m<k>/ :
  * patch.diff — `git diff` of the change (non-test source only), applicable with `git apply` on a clean checkout of /repo's HEAD;
  * a demonstration — a new Go test file (say where it must be placed, e.g. app/ocache/zz_demo_test.go) or a small program, which FAILS with the change applied and PASSES without it, deterministic (no reliance on lucky timing; use channels/gates to force interleavings), finishing in under a minute;
  * meta.json — {{"property": "{pid}", "title": short name, "files": [...], "what_breaks": which clause of the property, "needs_to_manifest": what specific interleaving / fault / sequence / input is needed, "demo_file": relative path where the demo test goes, "demo_cmd": exact command to run it from the repo root, "explanation": 3-6 sentences}}.
Verify each one yourself: (1) clean tree: demo passes; (2) apply patch: `go build ./...` succeeds, the existing tests of every affected package pass and the full suite passes (same results as the clean tree), demo fails; (3) revert. Only keep changes for which all of that is confirmed; fewer than three is fine if you cannot confirm more.

When done: `cd /tmp/seedwt-{pid} && git checkout -- . && git clean -fdq`, then `git -C /repo worktree remove --force /tmp/seedwt-{pid}`. Reply with a short summary per change (title, what it needs to manifest, confirmation results).""")
