------------------------------ MODULE VerifEmit ------------------------------
(* Helpers shared by every family: emission of behaviours (history variables) *)
(* from TLC as JSON files, one file per distinct terminal history.            *)
(* Use with -workers 1 and  ASSUME EmitReset  in the generating module.       *)
EXTENDS TLC, Json, IOUtils, Naturals, Sequences

EmitDir == IF "VERIF_EMIT_DIR" \in DOMAIN IOEnv THEN IOEnv.VERIF_EMIT_DIR ELSE "emit"

EmitReset == TLCSet(1, 0)

\* Evaluated as (part of) an INVARIANT: when cond holds, write obj to <dir>/bNNNNNNN.json
EmitWhen(cond, obj) ==
    cond => /\ TLCSet(1, TLCGet(1) + 1)
            /\ JsonSerialize(EmitDir \o "/b" \o ToString(1000000 + TLCGet(1)) \o ".json", obj)

(* ---- trace validation: NDJSON trace named by $VERIF_TRACE, high-water mark in register 2 ---- *)
TraceFileName == IF "VERIF_TRACE" \in DOMAIN IOEnv THEN IOEnv.VERIF_TRACE ELSE "trace.ndjson"
HwReset == TLCSet(2, 0)
\* use as CONSTRAINT (always TRUE): remembers the furthest trace position reached
HwMark(l) == TLCSet(2, IF l > TLCGet(2) THEN l ELSE TLCGet(2))
\* use inside POSTCONDITION: every line consumed (l counts the next line to consume, 1-based)
HwAccepted(len) == IF TLCGet(2) = len + 1 THEN TRUE
                   ELSE PrintT(<<"TRACE-REJECTED-AT-LINE", TLCGet(2), "OF", len>>) /\ FALSE
=============================================================================
