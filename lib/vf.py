"""Shared machinery for the /verif checks (orchestrator side).

A check is a python module /verif/checks/<ID>.py with a function run(ctx) that
  * runs TLC on the family's specification (exhaustive configs, generation configs,
    trace-validation configs) through ctx.tlc(...),
  * runs the Go conformance harness through ctx.go_test(...) which rebuilds from the
    repository working tree (VERIF_REPO, default /repo),
  * reports violations found on *real-code observations* through ctx.violation(...),
  * records what was covered through ctx.cover(...).
ctx.finish() writes /verif/evidence/<ID>.json and turns the collected violations into the
exit status: 0 (held / only known findings), 1 (VIOLATION line), 2 (the check itself broke).
"""
import glob
import json
import os
import re
import shutil
import subprocess
import sys
import tempfile
import time

VERIF = os.path.dirname(os.path.dirname(os.path.abspath(__file__)))
REPO = os.environ.get("VERIF_REPO", "/repo")
MODULE = "github.com/anyproto/any-sync"


class CheckBroken(Exception):
    """The check machinery failed (exit 2) - never reported as a violation."""


def go_env():
    env = dict(os.environ)
    env["GOFLAGS"] = "-mod=mod"
    env["GOPROXY"] = "off"
    env.pop("GOSUMDB", None)  # GOSUMDB=off breaks the offline toolchain switch
    env.setdefault("GOTOOLCHAIN", "auto")
    if env.get("GOTOOLCHAIN") == "local":
        env["GOTOOLCHAIN"] = "auto"
    return env


class TlcResult:
    def __init__(self):
        self.exit = None
        self.out = ""
        self.generated = 0
        self.distinct = 0
        self.depth = 0
        self.error = None        # None | 'invariant' | 'action_property' | 'deadlock' | 'temporal' | 'assert' | 'other'
        self.error_name = None   # name of violated invariant/property
        self.trace = []          # list of (action label, state text)
        self.coverage = {}       # action name -> (distinct, generated)
        self.wall = 0.0
        self.timed_out = False
        self.workdir = None

    @property
    def ok(self):
        return self.exit == 0 and self.error is None

    def uncovered_actions(self):
        return sorted(a for a, (d, g) in self.coverage.items() if g == 0)


_re_states = re.compile(r"(\d+) states generated, (\d+) distinct states found")
_re_depth = re.compile(r"The depth of the complete state graph search is (\d+)")
_re_inv = re.compile(r"Error: Invariant (\S+) is violated")
_re_act = re.compile(r"Error: Action property (\S+) is violated")
_re_cov = re.compile(r"^<(\w+) line \d+, col \d+ to line \d+, col \d+ of module (\w+)>: (\d+):(\d+)", re.M)
_re_state_hdr = re.compile(r"^State (\d+): <(.*?)>\s*$", re.M)


def parse_tlc(out, res):
    m = None
    for m in _re_states.finditer(out):
        pass
    if m:
        res.generated, res.distinct = int(m.group(1)), int(m.group(2))
    m = _re_depth.search(out)
    if m:
        res.depth = int(m.group(1))
    sm = re.search(r"The number of states generated: (\d+)", out)
    if sm and not res.generated:
        res.generated = int(sm.group(1))
    m = _re_inv.search(out)
    if m:
        res.error, res.error_name = "invariant", m.group(1)
    elif _re_act.search(out):
        res.error, res.error_name = "action_property", _re_act.search(out).group(1)
    elif "Error: Deadlock reached" in out:
        res.error = "deadlock"
    elif "Temporal properties were violated" in out:
        res.error = "temporal"
    elif "Error: The first argument of Assert evaluated to FALSE" in out or "Assumption" in out and "is false" in out:
        res.error = "assert"
    elif re.search(r"^Error: ", out, re.M):
        res.error = "other"
        em = re.search(r"^Error: (.*)$", out, re.M)
        res.error_name = em.group(1)[:300] if em else None
    for m in _re_cov.finditer(out):
        name = m.group(1)
        d, g = int(m.group(3)), int(m.group(4))
        od, og = res.coverage.get(name, (0, 0))
        res.coverage[name] = (od + d, og + g)
    # counterexample trace
    hdrs = list(_re_state_hdr.finditer(out))
    for i, h in enumerate(hdrs):
        end = hdrs[i + 1].start() if i + 1 < len(hdrs) else len(out)
        body = out[h.end():end]
        body = body.split("\n\n")[0].strip()
        label = h.group(2).split(" line ")[0]
        res.trace.append((label, body))


class Ctx:
    def __init__(self, pid, tier, seed, replay=None, level="model_checking"):
        self.pid = pid
        self.tier = tier
        self.seed = seed
        self.replay = replay
        self.level = level
        self.t0 = time.time()
        self.scratch = tempfile.mkdtemp(prefix="verif-%s-" % pid)
        self.repo = REPO
        self.cov = {"states": 0, "transitions": 0, "traces_validated_against_impl": 0,
                    "evaluations": 0, "distinct_nontrivial": 0, "samples": [], "tlc_runs": [],
                    "harness_runs": [], "drift": 0}
        self.violations = []   # dicts key, desc, replay (obj or path)
        self.assumptions = []
        self.notes = []
        self.broken = None
        self.cores = os.cpu_count() or 4

    # ------------------------------------------------------------------ logging
    def log(self, *a):
        print("[%s %6.1fs]" % (self.pid, time.time() - self.t0), *a, flush=True)

    # ------------------------------------------------------------------ TLC
    def tlc(self, spec_dir, module, cfg, workers=None, simulate=None, depth=None, seed=None,
            timeout=600, coverage=False, deadlock=True, extra=None, env=None, files=None,
            heap=None, dfs=False, name=None, count=True):
        """Run TLC on /verif/spec/<spec_dir>/<module>.tla with config cfg (file name in the
        same directory) inside a scratch copy. files: {name: content|path} extra files placed
        in the scratch copy (trace files, generated cfgs)."""
        src = os.path.join(VERIF, "spec", spec_dir)
        wd = os.path.join(self.scratch, "tlc-%d" % len(self.cov["tlc_runs"]))
        os.makedirs(wd)
        for f in os.listdir(src):
            p = os.path.join(src, f)
            if os.path.isfile(p):
                shutil.copy(p, wd)
        for f in glob.glob(os.path.join(VERIF, "lib", "tla", "*.tla")):
            shutil.copy(f, wd)
        for fn, content in (files or {}).items():
            dst = os.path.join(wd, fn)
            if isinstance(content, str) and os.path.isabs(content) and os.path.exists(content):
                shutil.copy(content, dst)
            else:
                with open(dst, "w") as fh:
                    fh.write(content)
        if workers is None:
            workers = self.cores
        cmd = ["java", "-XX:+UseParallelGC"]
        if heap:
            cmd.append("-Xmx%s" % heap)
        cmd.append("-Xss64m")
        if dfs:
            cmd.append("-Dtlc2.tool.queue.IStateQueue=StateDeque")
        cmd += ["-cp", "/opt/veriftools/tla/tla2tools.jar:/opt/veriftools/tla/CommunityModules-deps.jar",
                "tlc2.TLC", "-metadir", os.path.join(wd, "meta"), "-config", cfg,
                "-workers", str(workers)]
        if not deadlock:
            cmd.append("-deadlock")
        if coverage:
            cmd += ["-coverage", "1"]
        if simulate is not None:
            cmd += ["-simulate", "num=%d" % simulate]
            cmd += ["-seed", str(self.seed if seed is None else seed)]
        if depth is not None:
            cmd += ["-depth", str(depth)]
        cmd += list(extra or [])
        cmd.append(module)
        e = dict(os.environ)
        e.update(env or {})
        res = TlcResult()
        res.workdir = wd
        t = time.time()
        try:
            p = subprocess.run(cmd, cwd=wd, env=e, stdout=subprocess.PIPE, stderr=subprocess.STDOUT,
                               timeout=timeout, text=True, errors="replace")
            res.exit, res.out = p.returncode, p.stdout
        except subprocess.TimeoutExpired as ex:
            res.timed_out = True
            res.exit = -1
            res.out = (ex.stdout or b"").decode("utf8", "replace") if isinstance(ex.stdout, bytes) else (ex.stdout or "")
            subprocess.run(["pkill", "-f", wd], check=False)
        res.wall = time.time() - t
        parse_tlc(res.out, res)
        run = {"name": name or ("%s/%s:%s" % (spec_dir, module, cfg)), "generated": res.generated,
               "distinct": res.distinct, "depth": res.depth, "wall_s": round(res.wall, 2),
               "mode": "simulate" if simulate is not None else "exhaustive",
               "error": res.error, "error_name": res.error_name, "timed_out": res.timed_out}
        if coverage:
            run["uncovered_actions"] = res.uncovered_actions()
            run["actions_covered"] = len([a for a, (d, g) in res.coverage.items() if g > 0])
        self.cov["tlc_runs"].append(run)
        if count:
            self.cov["states"] += res.distinct
            self.cov["transitions"] += res.generated
        self.log("tlc %s: %d generated / %d distinct, depth %d, %.1fs, error=%s %s%s" % (
            run["name"], res.generated, res.distinct, res.depth, res.wall, res.error, res.error_name or "",
            " TIMEOUT" if res.timed_out else ""))
        return res

    def tlc_expect_ok(self, *a, **kw):
        """TLC run that must finish without error; anything else is a broken check (a
        counterexample in the specification alone is never a violation)."""
        res = self.tlc(*a, **kw)
        if res.timed_out:
            raise CheckBroken("TLC timed out: %s" % self.cov["tlc_runs"][-1]["name"])
        if not res.ok:
            tail = "\n".join(res.out.splitlines()[-60:])
            raise CheckBroken("MODEL-ERROR: TLC reported %s %s on the specification alone (%s)\n%s" % (
                res.error, res.error_name, self.cov["tlc_runs"][-1]["name"], tail))
        if kw.get("coverage"):
            unc = [a for a in res.uncovered_actions() if not a.startswith("Dev_")]
            if unc:
                raise CheckBroken("vacuous model run, actions never taken: %s" % unc)
        return res

    # ------------------------------------------------------------------ Go harness
    def harness_modfile(self):
        """go.mod for /verif/harness pointing at the repository under test."""
        src = os.path.join(VERIF, "harness", "go.mod")
        if self.repo == "/repo":
            # keep go.sum in sync with the repository (new deps are impossible offline)
            self._sync_gosum(os.path.join(VERIF, "harness", "go.sum"))
            return None
        d = os.path.join(self.scratch, "modfile")
        os.makedirs(d, exist_ok=True)
        txt = open(src).read().replace("=> /repo", "=> " + self.repo)
        with open(os.path.join(d, "go.mod"), "w") as fh:
            fh.write(txt)
        self._sync_gosum(os.path.join(d, "go.sum"))
        return os.path.join(d, "go.mod")

    def _sync_gosum(self, dst):
        src = os.path.join(self.repo, "go.sum")
        extra = os.path.join(VERIF, "harness", "go.sum.extra")
        data = open(src).read()
        if os.path.exists(extra):
            data += open(extra).read()
        if not os.path.exists(dst) or open(dst).read() != data:
            with open(dst, "w") as fh:
                fh.write(data)

    def go_test(self, pkg, run=None, env=None, timeout=900, tags="verif", race=False,
                in_repo=False, overlay=None, args=None, name=None, count_cases=True, parallel=None):
        """Run `go test` on a harness package (./<pkg> in /verif/harness) or, with in_repo=True,
        on a package of the repository (with an optional -overlay mapping {repo-relative path:
        /verif file}). The harness writes its report to $VERIF_OUT (JSON); it is returned and
        merged into the coverage / violation lists."""
        out_file = os.path.join(self.scratch, "report-%d.json" % len(self.cov["harness_runs"]))
        e = go_env()
        e.update({"VERIF_OUT": out_file, "VERIF_SEED": str(self.seed), "VERIF_TIER": self.tier,
                  "VERIF_SCRATCH": self.scratch, "VERIF_DIR": VERIF, "VERIF_REPO": self.repo,
                  "VERIF_PROPERTY": self.pid})
        if self.replay:
            e["VERIF_REPLAY"] = os.path.abspath(self.replay)
        e.update({k: str(v) for k, v in (env or {}).items()})
        cmd = ["go", "test", "-count=1", "-vet=off", "-timeout", "%ds" % timeout]
        if tags:
            cmd += ["-tags", tags]
        if race:
            cmd.append("-race")
        if parallel:
            cmd += ["-parallel", str(parallel)]
        if in_repo:
            cwd = self.repo
            if overlay:
                ov = {"Replace": {os.path.join(self.repo, k): v for k, v in overlay.items()}}
                ovf = os.path.join(self.scratch, "overlay-%d.json" % len(self.cov["harness_runs"]))
                json.dump(ov, open(ovf, "w"))
                cmd += ["-overlay", ovf]
        else:
            cwd = os.path.join(VERIF, "harness")
            mf = self.harness_modfile()
            if mf:
                cmd += ["-modfile", mf]
        if run:
            cmd += ["-run", run]
        cmd.append(pkg)
        cmd += list(args or [])
        t = time.time()
        try:
            p = subprocess.run(cmd, cwd=cwd, env=e, stdout=subprocess.PIPE, stderr=subprocess.STDOUT,
                               timeout=timeout + 60, text=True, errors="replace")
            rc, out = p.returncode, p.stdout
        except subprocess.TimeoutExpired as ex:
            rc, out = -1, "TIMEOUT\n" + str(ex.stdout or "")[-4000:]
        wall = time.time() - t
        rep = None
        if os.path.exists(out_file):
            try:
                rep = json.load(open(out_file))
            except Exception as ex:  # noqa
                rep = None
        hr = {"name": name or ("%s %s" % (pkg, run or "")), "exit": rc, "wall_s": round(wall, 2)}
        self.cov["harness_runs"].append(hr)
        if rep is None:
            tail = "\n".join(out.splitlines()[-80:])
            raise CheckBroken("harness %s produced no report (exit %s)\n%s" % (hr["name"], rc, tail))
        hr.update({k: rep.get(k) for k in ("cases", "distinct", "violations_n", "drift", "steps") if k in rep})
        hr["violations_n"] = len((rep.get("violations") or []))
        if count_cases:
            self.cov["evaluations"] += int(rep.get("cases", 0))
            self.cov["distinct_nontrivial"] += int(rep.get("distinct", 0))
        self.cov["drift"] += int(rep.get("drift", 0))
        self.cov["traces_validated_against_impl"] += int(rep.get("replayed", 0))
        for s in (rep.get("samples") or [])[:3]:
            if len(self.cov["samples"]) < 8:
                self.cov["samples"].append(s)
        for k, v in (rep.get("extra") or {}).items():
            self.cov.setdefault("harness_extra", {})[k] = v
        for v in (rep.get("violations") or []):
            self.violation(v.get("key", "unkeyed"), v.get("desc", ""), v.get("replay"))
        self.log("harness %s: exit %s, %s cases, %s distinct, %d violations, %.1fs" % (
            hr["name"], rc, rep.get("cases"), rep.get("distinct"), len((rep.get("violations") or [])), wall))
        if rc != 0 and not (rep.get("violations") or []) and not rep.get("complete", False):
            tail = "\n".join(out.splitlines()[-80:])
            raise CheckBroken("harness %s failed without reporting a violation (exit %s)\n%s" % (hr["name"], rc, tail))
        if not rep.get("complete", False):
            tail = "\n".join(out.splitlines()[-80:])
            raise CheckBroken("harness %s did not complete (exit %s)\n%s" % (hr["name"], rc, tail))
        rep["_out"] = out
        return rep

    # ------------------------------------------------------------------ results
    def violation(self, key, desc, replay=None):
        self.violations.append({"key": key, "desc": desc, "replay": replay})

    def sample(self, s):
        if len(self.cov["samples"]) < 12:
            self.cov["samples"].append(s)

    def assume(self, text):
        if text not in self.assumptions:
            self.assumptions.append(text)

    def known_findings(self):
        path = os.path.join(VERIF, "known_findings.jsonl")
        res = []
        if os.path.exists(path):
            for line in open(path):
                line = line.strip()
                if not line or line.startswith("#"):
                    continue
                try:
                    k = json.loads(line)
                except Exception:
                    continue
                if k.get("property") == self.pid:
                    res.append(k)
        return res

    def finish(self):
        wall = time.time() - self.t0
        known = [k for k in self.known_findings() if k.get("status") == "known"]
        known_keys = {k["key"]: k for k in known}
        new, seen_known = [], {}
        for v in self.violations:
            if v["key"] in known_keys:
                seen_known[v["key"]] = known_keys[v["key"]]
            else:
                new.append(v)
        cov = self.cov
        if not cov["samples"]:
            cov["samples"] = [{"note": "no sample recorded"}]
        cov["rule"] = cov.get("rule", "cases = behaviours / inputs executed against the real code; "
                                     "distinct = distinct case keys reported by the harness")
        ev = {"property_id": self.pid, "tier": self.tier, "seed": self.seed, "level": self.level,
              "coverage": cov, "assumptions": self.assumptions, "wall_s": round(wall, 2),
              "violations": len(new), "known_findings_seen": sorted(seen_known),
              "repo": self.repo, "notes": self.notes}
        if self.level == "model_checking" and (cov.get("states", 0) < 1 or cov.get("transitions", 0) < 1):
            # no TLC run was counted in this invocation (e.g. a harness-only mode): fall back to the generic keys
            cov.pop("states", None)
            cov.pop("transitions", None)
            self.notes.append("no TLC state count in this run; generic coverage keys only")
        if self.level in ("exploration", "fault_enumeration"):
            cov["evaluations"] = max(cov["evaluations"], 1)
        os.makedirs(os.path.join(VERIF, "evidence"), exist_ok=True)
        evpath = os.path.join(VERIF, "evidence", "%s.json" % self.pid)
        if not self.replay and not os.environ.get("VERIF_NO_EVIDENCE"):
            with open(evpath, "w") as fh:
                json.dump(ev, fh, indent=1, sort_keys=True, default=str)
                fh.write("\n")
        for k in sorted(seen_known):
            print("KNOWN-FINDING: property=%s %s" % (self.pid, seen_known[k].get("desc", k)))
        rc = 0
        if new:
            rdir = os.path.join(VERIF, "replays")
            os.makedirs(rdir, exist_ok=True)
            seenk = set()
            for i, v in enumerate(new):
                if v["key"] in seenk:
                    continue
                seenk.add(v["key"])
                safe = re.sub(r"[^A-Za-z0-9_.-]+", "_", v["key"])[:80]
                rp = os.path.join(rdir, "%s-%s.json" % (self.pid, safe))
                with open(rp, "w") as fh:
                    json.dump({"property": self.pid, "key": v["key"], "desc": v["desc"], "seed": self.seed,
                               "tier": self.tier, "replay": v["replay"]}, fh, indent=1, default=str)
                print("VIOLATION property=%s replay=%s" % (self.pid, rp))
                print("  key=%s: %s" % (v["key"], v["desc"]))
            rc = 1
        self.cleanup()
        self.log("done in %.1fs: %d new violations, %d known findings seen" % (wall, len(new), len(seen_known)))
        return rc

    def cleanup(self):
        if os.environ.get("VERIF_KEEP"):
            self.log("scratch kept at", self.scratch)
            return
        shutil.rmtree(self.scratch, ignore_errors=True)


def main(argv):
    import argparse
    import importlib.util
    ap = argparse.ArgumentParser()
    ap.add_argument("pid")
    ap.add_argument("--tier", default=os.environ.get("VERIF_TIER", "quick"))
    ap.add_argument("--replay")
    ap.add_argument("--seed", type=int, default=int(os.environ.get("VERIF_SEED", "1") or 1))
    a = ap.parse_args(argv)
    if a.tier not in ("quick", "thorough"):
        a.tier = "quick"
    modpath = os.path.join(VERIF, "checks", "%s.py" % a.pid)
    spec = importlib.util.spec_from_file_location("check_" + a.pid, modpath)
    mod = importlib.util.module_from_spec(spec)
    spec.loader.exec_module(mod)
    ctx = Ctx(a.pid, a.tier, a.seed, a.replay, level=getattr(mod, "LEVEL", "model_checking"))
    try:
        mod.run(ctx)
        return ctx.finish()
    except CheckBroken as ex:
        print("CHECK-BROKEN property=%s: %s" % (a.pid, ex))
        ctx.cleanup()
        return 2
    except Exception:
        import traceback
        traceback.print_exc()
        print("CHECK-BROKEN property=%s: internal error" % a.pid)
        ctx.cleanup()
        return 2


if __name__ == "__main__":
    sys.exit(main(sys.argv[1:]))
